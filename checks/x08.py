"""X08 - the installation facade of the local store (Installation, ContentResolver as it uses it, Storage), content
validation framework, .build.info and the on-disk form of the residency database / .idx files.

spec/Installation.tla composes Storage.tla (C04), Resolve.tla (C03), Residency.tla (C05) and Integrity.tla (C07) and
states the properties I1-I7, S1-S6, B1-B3, V1-V5, K1-K5 (module header).  MC_Installation: one machine per family; TLC
enumerates every operation sequence of a depth behind a prefix (or every table / behaviour / fault position) as a
program and checks the design invariants (Refines, I2Direct, I5Direct), which it must refute when a deviation is
switched on in the stepped model.  drv_installation executes the programs on the real code; T_Installation judges
every recorded event.  Seeded random Installation histories go through the same monitor.
"""
import glob, json, os
from concurrent.futures import ThreadPoolExecutor
from . import lib

PROP = "X08"
MODULE_MC = "MC_Installation"
MODULE_T = "T_Installation"
DRV = "drv_installation"
ALL_DEVS = ["FX08" + c for c in "abcdefghijk"]
COUNTERS = ["n_chain", "n_chain_ok", "n_exact", "n_nf", "n_alias", "n_verify", "n_stats", "n_raw", "n_stor", "n_refused", "n_binfo",
            "n_active", "n_val", "n_batch", "n_krfile", "n_krflip", "n_kifile", "n_kiflip"]
DROP = ("seq", "res", "obs", "md5", "md5s", "len", "ck", "ek", "size", "pathok", "st", "fs", "v", "hit", "lhdr", "blte", "data", "off_", "audit",
        "open", "h", "dir", "file", "files", "names", "panic", "d", "rt", "comp", "corr", "edges_r", "stats", "ran", "plain_rt", "plain_edges",
        "plain_corr")


def own_findings(ctx):
    """findings.d/FX08*.json is the source (X08 is not a MANIFEST property)."""
    mine = [json.load(open(p)) for p in sorted(glob.glob(os.path.join(lib.ROOT, "findings.d", "FX08*.json")))]
    ctx.known["findings"] = [f for f in ctx.known.get("findings", []) if f.get("property") != PROP] + \
                            [f for f in mine if f.get("status", "known") == "known"]
    kd = lib.known_ids(ctx, PROP)
    if os.environ.get("VERIF_X08_KD") is not None:
        # development aid (like VERIF_REPO): pretend only these findings are listed.  Registered commands never set it.
        kd = [x for x in os.environ["VERIF_X08_KD"].split(",") if x]
    return kd


def program_of(evs):
    if not evs or evs[0].get("op") != "new":
        return None
    h = evs[0]
    fam = h.get("fam")
    ops = []
    for e in evs[1:]:
        if e.get("op") == "hang" or e.get("audit"):
            continue
        o = {k: v for k, v in e.items() if k not in DROP}
        if fam == "inst" and e.get("op") == "raw":
            o = {"op": "raw", "p": e["p"]}
        ops.append(o)
    if fam == "inst":
        return {"fam": "inst", "payloads": h.get("payloads"), "roots": h.get("roots"), "encs": h.get("encs"), "paths": h.get("paths"), "ops": ops}
    if fam == "stor":
        return {"fam": "stor", "payloads": h.get("payloads"), "ops": ops}
    if fam == "kmt":
        return {"fam": "kmt", "sub": h.get("sub"), "keys": h.get("prog_keys"), "ops": ops}
    if fam == "binfo":
        e = evs[1] if len(evs) > 1 else {}
        return {k: e.get(k) for k in ("cols", "rows", "ims", "hosts", "servers", "via", "crlf", "from_path")} | {"fam": "binfo"}
    if fam == "val":
        return {"fam": "val", "fmts": [e["cfg"] for e in evs[1:] if e.get("op") == "format"], "plain": any(e.get("plain") for e in evs[1:])}
    return None


def t_cfg(ctx, kd):
    cfg = ctx.path("t_installation.cfg")
    lib.write_cfg(cfg, {"KnownDeviations": lib.tla_set(kd)}, "TInit", "TNext", invariants=["Done"], view="View")
    return cfg


def judge_trace(ctx, trace, source, kd, totals, max_events=30000):
    v = lib.judge(ctx, MODULE_T, t_cfg(ctx, kd), trace, max_events=max_events)
    ndev = {fid: v.get("dev_" + fid, 0) for fid in ALL_DEVS if v.get("dev_" + fid, 0)}
    ctx.stage("judge", source=source, events=v["events"], violations=v.get("nviol", 0), deviations=ndev, wall_s=v["wall_s"], chunks=v["chunks"])
    totals["events"] += v["events"]
    for c in COUNTERS:
        totals[c] = totals.get(c, 0) + v.get(c, 0)
    for fid, n in ndev.items():
        lib.note_known(ctx, fid, n)
        ctx.cov["deviations_observed"][fid] = ctx.cov["deviations_observed"].get(fid, 0) + n
    lib.classify_trace(ctx, dict(v, deviations=[]), trace, source, program_of=program_of)
    return v


def tag_of(c):
    return f'{c["fam"]}_{c["alpha"]}_{c["D"]}'


def mc_one(ctx, c):
    """TLC on one configuration: design invariants (CodeDevs = {}), every program printed."""
    tag = tag_of(c)
    cfg = ctx.path(f"mc_{tag}.cfg")
    invs = ["Emit"] + (["Refines", "I2Direct", "I5Direct"] if c["fam"] in ("chain", "cache", "dur", "repair") else [])
    lib.write_cfg(cfg, {"KnownDeviations": "{}", "Family": f'"{c["fam"]}"', "D": c["D"], "Alpha": f'"{c["alpha"]}"', "CodeDevs": "{}"},
                  "MCInit", "MCNext", constraints=["Constr"], invariants=invs)
    progs = ctx.path(f"prog_{tag}.ndjson")
    r = lib.tlc(ctx, MODULE_MC, cfg, tagged_out={"PROGRAM": progs}, timeout=1500, workers=c.get("workers", 1), heap="4g")
    n = r["counts"]["PROGRAM"]
    if n == 0:
        raise lib.ToolError(f"MC_Installation printed no program for {tag}")
    return dict(tag=tag, progs=progs, n=n, distinct=r["distinct"], generated=r["generated"], wall_s=r["wall_s"])


REFUTE = [("chain", "lean", 3, '{"FX08a"}', "Refines"), ("chain", "lean", 4, '{"FX08b"}', "Refines"), ("cache", "full", 2, '{"FX08d"}', "Refines"),
          ("chain", "lean", 3, '{"FX08a"}', "I2Direct"), ("dur", "lean", 3, '{"FX08g"}', "I5Direct")]


def model_refutations(ctx):
    """Anti-vacuity of the design invariants: with a deviation switched on in the stepped model TLC must refute them
    (the counterexamples are the findings at the level of the model)."""
    def one(t):
        fam, alpha, d, devs, inv = t
        cfg = ctx.path(f"mc_refute_{fam}_{inv}_{devs.strip('{}').strip(chr(34))}.cfg")
        lib.write_cfg(cfg, {"KnownDeviations": "{}", "Family": f'"{fam}"', "D": d, "Alpha": f'"{alpha}"', "CodeDevs": devs},
                      "MCInit", "MCNext", constraints=["Constr"], invariants=[inv])
        r = lib.tlc(ctx, MODULE_MC, cfg, timeout=900, workers=1, heap="2g", expect_violation=True)
        return (f"{inv} with {devs}", inv in r["invariant_violated"], r)
    with ThreadPoolExecutor(max_workers=min(lib.NCPU, 5)) as ex:
        res = list(ex.map(one, REFUTE))
    out = {k: ok for k, ok, _ in res}
    ctx.cov["model_refutes_invariant_with_deviation"] = out
    bad = [k for k, ok in out.items() if not ok]
    if bad:
        raise lib.ToolError(f"the stepped model no longer refutes {bad} (model out of date?)")
    return res


def cfgs(quick):
    def c(fam, alpha, D, workers=1):
        return dict(fam=fam, alpha=alpha, D=D, workers=workers)
    if quick:
        return [c("chain", "full", 3), c("chain", "lean", 4), c("cache", "full", 3), c("dur", "lean", 3), c("dur", "full", 2), c("repair", "lean", 2),
                c("stor", "lean", 3), c("stor", "full", 2), c("binfo", "lean", 2), c("binfo", "full", 1), c("val", "full", 0),
                c("kres", "full", 3), c("kresflip", "full", 1), c("kidx", "full", 3), c("kidxflip", "full", 1)]
    return [c("chain", "full", 4, 2), c("chain", "lean", 5, 2), c("cache", "full", 4, 2), c("dur", "lean", 4, 2), c("dur", "full", 3), c("repair", "lean", 3),
            c("stor", "lean", 4, 2), c("stor", "full", 3), c("binfo", "full", 3, 2), c("val", "full", 0),
            c("kres", "full", 4, 2), c("kresflip", "full", 2), c("kidx", "full", 5, 2), c("kidxflip", "full", 2)]


def replay(ctx, kd):
    obj = json.load(open(ctx.replay))
    prog = obj.get("program") or obj.get("witness") or obj
    p = ctx.path("replay_prog.ndjson")
    open(p, "w").write(json.dumps(prog) + "\n")
    trace = ctx.path("replay_trace.ndjson")
    lib.run_driver(DRV, ["--programs", p, "--out", trace])
    v = lib.tlc_trace(ctx, MODULE_T, t_cfg(ctx, kd), trace)
    print(open(trace).read()[:20000])
    print(json.dumps(v))
    if v["violations"]:
        print(f"VIOLATION property={PROP} replay={ctx.replay}")
    return 1 if v["violations"] else 0


def selftest(ctx, trace, kd):
    """Binding self-test: corrupt one logged field / drop one event -> the monitor must flag exactly that."""
    allc = lib.read_lines(trace)
    # a window of Installation runs: corrupt the md5 of a successful read by encoding key
    i0 = next(i for i, l in enumerate(allc) if '"op":"read_e"' in l and '"md5"' in l and '"audit"' not in l)
    s0, _ = lib.run_of_line(allc, i0 + 1)
    lines = allc[s0:s0 + 3000]
    del allc
    while lines and not lib.is_new(lines[-1]):
        lines.pop()
    lines.pop()
    cfg = t_cfg(ctx, kd)
    p0 = ctx.path("selftest_0.ndjson"); open(p0, "w").write("\n".join(lines) + "\n")
    ia = next(i for i, l in enumerate(lines) if '"op":"read_e"' in l and '"md5"' in l)
    e = json.loads(lines[ia]); e["md5"] = ("0" if e["md5"][0] != "0" else "1") + e["md5"][1:]
    la = list(lines); la[ia] = json.dumps(e, separators=(",", ":"))
    pa = ctx.path("selftest_a.ndjson"); open(pa, "w").write("\n".join(la) + "\n")
    ib = next(i for i, l in enumerate(lines) if i > 40 and not lib.is_new(l) and not lib.is_new(lines[i + 1]))
    lb = list(lines); del lb[ib]
    pb = ctx.path("selftest_b.ndjson"); open(pb, "w").write("\n".join(lb) + "\n")
    with ThreadPoolExecutor(max_workers=3) as ex:
        base, va, vb = ex.map(lambda p: lib.tlc_trace(ctx, MODULE_T, cfg, p), [p0, pa, pb])
    flagged0 = set(base["violations"])
    ok_a = (ia + 1) in va["violations"] and (ia + 1) not in flagged0
    ok_b = (ib + 1) in vb["violations"] and len(vb["violations"]) > len(base["violations"])
    res = {"corrupt_one_field_flagged": ok_a, "drop_one_event_flagged": ok_b}
    ctx.cov["binding_selftest"] = res
    for p in (p0, pa, pb):
        os.remove(p)
    if not (ok_a and ok_b):
        raise lib.ToolError(f"binding self-test failed: {res}")


def run(ctx):
    kd = own_findings(ctx)
    lib.build([DRV])
    if ctx.replay:
        return replay(ctx, kd)
    totals = {"events": 0}
    plan = cfgs(ctx.quick)
    only = [x for x in os.environ.get("VERIF_X08_ONLY", "").split(",") if x]
    if only:
        # development aid (like VERIF_REPO): run only some families, e.g. to look at one mutation.  The run is then
        # inconclusive by construction (exit 2 unless a violation is found).  Registered commands never set it.
        plan = [c for c in plan if c["fam"] in only]
    with ThreadPoolExecutor(max_workers=max(2, min(lib.NCPU, 8))) as ex:
        fut_ref = ex.submit(model_refutations, ctx)
        res = list(ex.map(lambda c: mc_one(ctx, c), plan))
        ref = fut_ref.result()
    allprogs = ctx.path("programs.ndjson")
    total_programs = 0
    with open(allprogs, "w") as out:
        for c, r in zip(plan, res):
            ctx.cov["states"] += r["distinct"]
            ctx.cov["transitions"] += r["generated"]
            total_programs += r["n"]
            ctx.stage("mc", config=r["tag"], distinct_states=r["distinct"], programs=r["n"], wall_s=r["wall_s"])
            with open(r["progs"]) as f:
                out.write(f.read())
            os.remove(r["progs"])
    for _, _, r in ref:
        ctx.cov["states"] += r["distinct"]
        ctx.cov["transitions"] += r["generated"]
    # scripted: the key rule I7 on payloads around the MD5 block boundaries (the bytes are judged by the TLA+ MD5 / lookup3)
    sizes = [0, 1, 20, 46, 47, 55, 56, 64, 100, 119, 120, 300] if ctx.quick else [0, 1, 20, 46, 47, 55, 56, 64, 100, 119, 120, 300, 1000, 4096]
    with open(allprogs, "a") as out:
        for i, n in enumerate(sizes):
            cls = ["plain", "comp", "nested"][i % 3]
            m = max(n, 10) if cls == "nested" else n
            prog = {"fam": "inst", "payloads": [["a", cls, m], ["b", "plain", 7 + i]], "roots": {}, "encs": {}, "paths": {},
                    "ops": [{"op": "write", "p": "b"}, {"op": "write", "p": "a"}, {"op": "raw", "p": "a"}, {"op": "raw", "p": "b"}, {"op": "raw", "p": "a"}]}
            out.write(json.dumps(prog) + "\n")
            total_programs += 1
    _, distinct = lib.count_distinct(allprogs)
    trace = ctx.path("trace_mc.ndjson")
    d = lib.run_sharded(ctx, DRV, allprogs, trace, shards=min(lib.NCPU, 12))
    ctx.stage("run", source="MC_Installation", programs=d.get("programs"), events=d.get("events"), hangs=d.get("hangs"), wall_s=d["wall_s"])
    if d.get("programs") != total_programs:
        raise lib.ToolError(f"driver executed {d.get('programs')} of {total_programs} programs")
    seen = set()
    ls = lib.read_lines(trace)
    for i, line in enumerate(ls):
        if lib.is_new(line):
            h = json.loads(line)
            fam = h.get("sub") or h.get("fam")
            if fam not in seen and len(seen) < 6:
                seen.add(fam)
                s, e = lib.run_of_line(ls, i + 1)
                if e - s < 30:
                    ctx.cov["samples"].append({"source": f"MC_Installation {fam}", "trace": [json.loads(x) for x in ls[s:e]][:12]})
    del ls
    judge_trace(ctx, trace, "MC_Installation (all configurations)", kd, totals)
    if ctx.violations:
        ctx.cov["binding_selftest"] = {"skipped": "violations were reported"}
    else:
        selftest(ctx, trace, kd)
    if only:
        if ctx.violations:
            return lib.finish(ctx, "model_checking", rule="partial run (VERIF_X08_ONLY)")
        raise lib.ToolError(f"partial run over {only}: no violation in {total_programs} programs (inconclusive by construction)")
    # seeded random Installation histories
    nrand, rlen = (60, 60) if ctx.quick else (1500, 90)
    rtrace = ctx.path("trace_random.ndjson")
    dump = ctx.path("prog_random.ndjson")
    lib.run_driver(DRV, ["--random", nrand, "--len", rlen, "--out", rtrace, "--dump-programs", dump, "--dump-only"], env={"VERIF_SEED": ctx.seed})
    d = lib.run_sharded(ctx, DRV, dump, rtrace, shards=min(lib.NCPU, 12))
    ctx.stage("run", source="random", programs=d.get("programs"), events=d.get("events"), hangs=d.get("hangs"), wall_s=d["wall_s"])
    _, dn = lib.count_distinct(dump)
    judge_trace(ctx, rtrace, f"random seed={ctx.seed}", kd, totals, max_events=8000)
    total_programs += nrand
    distinct += dn
    need = {"n_chain": 1000, "n_exact": 1000, "n_nf": 1000, "n_alias": 200, "n_verify": 200, "n_stats": 200, "n_raw": 5, "n_stor": 1000, "n_refused": 300,
            "n_binfo": 300, "n_active": 100, "n_val": 300, "n_batch": 100, "n_krfile": 300, "n_krflip": 50, "n_kifile": 300, "n_kiflip": 20}
    if not ctx.violations:
        short = {k: totals.get(k, 0) for k, v in need.items() if totals.get(k, 0) < v}
        if short:
            raise lib.ToolError(f"anti-vacuity: too few judged events of kind {short} (needed {need})")
    ctx.cov["judged"] = {k: totals.get(k, 0) for k in ["events"] + COUNTERS}
    ctx.cov["traces_validated_against_impl"] = total_programs
    ctx.cov["evaluations"] = total_programs
    ctx.cov["distinct_nontrivial"] = distinct
    ctx.cov["exhaustive"] = True
    ctx.cov["exhaustive_scope"] = ("per family: all operation sequences of the listed depth behind the family's prefix (Installation chain / cache / "
                                   "durability, Storage, residency file, .idx file), all tables of the listed column sets x row templates, all mock "
                                   "format behaviours, the listed flip positions; the random tier is not exhaustive")
    ctx.assumptions += ["TLC, the CommunityModules Json reader and the driver's recording (md5 of returned bytes, public getters, directory listings, "
                        "structural split of the residency / .idx files) are trusted",
                        "the class of an installation name (plain / trailing separator / bad / reserved) is an input of the program",
                        "manifests are built with the repository's RootBuilder / EncodingBuilder (their own correctness is C03's)",
                        "byte flips are applied to the memory-mapped data file while it is open (shared mapping); cuts and deletions while closed"]
    return lib.finish(ctx, "model_checking",
                      rule="programs = complete operation sequences of length D behind a fixed prefix over the family's alphabet (or one table / "
                           "behaviour / fault position each), enumerated by TLC from MC_Installation, plus seeded random Installation histories; "
                           "distinct = distinct program texts (md5); every program has at least one judged call with a read-back")
