"""X01 - the segment allocator and the segment files of the local store (growth check, not a listed property).

spec/Segment.tla states the properties (A1-A7 allocator, F1-F5 pure functions, D1-D4 DynamicContainer) and gives a
judge (AllocOK / ObsOK / DynOK ...) plus a code-shaped ideal allocator (AllocR: first fit, else create).
MC_Segment explores the ideal over every operation sequence of a bounded alphabet on preset directories, checks the
judge accepts it, the design invariant Safe and the composition with C18's merge planner, and prints every sequence
as a program (binding G).  drv_segment executes the programs on the real SegmentAllocator / segment functions /
DynamicContainer; T_Segment judges every event with the judge only (binding T; pure functions: binding E).
"""
import glob, hashlib, json, os, threading
from concurrent.futures import ThreadPoolExecutor
from . import lib

PROP = "X01"
MODULE_MC = "MC_Segment"
MODULE_T = "T_Segment"
DRV = "drv_segment"
INVS = ["OkInv", "SafeInv", "PlannerSound", "Emit"]
STAT_KEYS = ["alloc_ok", "alloc_err", "alloc_new", "alloc_written", "alloc_ideal", "frz_true", "frz_false", "loads", "reopens",
             "fn_ops", "dyn_writes", "dyn_opens"]
CAP = (1 << 30) - 480


# --------------------------------------------------------------------------- known findings
def known(ctx):
    """Known (not fixed) findings of X01: findings.d/FX01*.json is the source (X01 is not in MANIFEST.json, and
    KNOWN_FINDINGS.json is regenerated from findings.d by the maintainer)."""
    ids = set(lib.known_ids(ctx, PROP))
    listed = {f["id"] for f in ctx.known.get("findings", [])}
    for p in sorted(glob.glob(os.path.join(lib.ROOT, "findings.d", "FX01*.json"))):
        f = json.load(open(p))
        if f.get("property") != PROP:
            continue
        if f.get("status", "known") == "known":
            ids.add(f["id"])
            if f["id"] not in listed:
                ctx.known.setdefault("findings", []).append(f)
        else:
            ids.discard(f["id"])
    # development aid (never set by registered commands): judge a patched tree as if these findings were fixed
    ids -= set(os.environ.get("VERIF_X01_ASSUME_FIXED", "").split(","))
    return sorted(ids)


# --------------------------------------------------------------------------- programs
def program_of(evs):
    if not evs:
        return None
    head = {k: v for k, v in evs[0].items() if k not in ("op", "res", "obs")}      # kind, max, pre, foreign, load / limit, maxsize
    head["ops"] = [{k: v for k, v in e.items() if k not in ("res", "obs", "seq", "created", "wrote")} for e in evs[1:]
                   if e.get("op") != "hang"]
    return head


def nontrivial(p):
    k = p.get("kind")
    if k == "alloc":
        return any(o["op"] == "alloc" for o in p["ops"])
    if k == "dyn":
        return any(o["op"] == "write" for o in p["ops"])
    return k == "fn" and len(p["ops"]) >= 1


def count_programs(path, seen):
    n = d = 0
    with open(path) as f:
        for line in f:
            n += 1
            h = hashlib.md5(line.encode()).digest()
            if h in seen:
                continue
            seen.add(h)
            if nontrivial(json.loads(line)):
                d += 1
    return n, d


# --------------------------------------------------------------------------- stages
BASE = {"Family": '"alloc"', "D": 3, "Max0": 2, "PreName": '"empty"', "Load0": "TRUE", "Sizes": "{100}", "WSizes": "{100}",
        "Idx": "{0}", "ReMax": "{2}", "Loads": "{TRUE}", "LoadOp": "FALSE"}


def mc_cfg(ctx, name, **over):
    c = dict(BASE)
    c.update(over)
    cfg = ctx.path(f"mc_{name}.cfg")
    lib.write_cfg(cfg, c, "MCInit", "MCNext", invariants=INVS, constraints=["Constr"])
    return cfg


LOCK = threading.Lock()


def t_cfg(ctx, kd):
    cfg = ctx.path("t_segment.cfg")
    with LOCK:
        if not os.path.exists(cfg):
            lib.write_cfg(cfg, {"KnownDeviations": lib.tla_set(kd)}, "TInit", "TNext", invariants=["Done"], view="TView")
    return cfg


def judge_trace(ctx, trace, source, kd, totals, parallel=None):
    cfg = t_cfg(ctx, kd)
    nev = sum(1 for _ in open(trace))
    parallel = parallel or lib.NCPU
    v = lib.judge(ctx, MODULE_T, cfg, trace, max_events=max(3000, nev // parallel + 1), parallel=parallel)
    with LOCK:
        for k in STAT_KEYS:
            totals[k] = totals.get(k, 0) + v.get(k, 0)
        ctx.stage("judge", source=source, events=v["events"], violations=len(v["violations"]),
                  deviations=len(v["deviations"]), wall_s=v["wall_s"], **{k: v.get(k, 0) for k in STAT_KEYS if v.get(k, 0)})
        lib.classify_trace(ctx, v, trace, source, program_of=program_of)
    return v


def mc_and_run(ctx, name, kd, totals, seen, shards=8, keep=False, par=None, **over):
    """One family: TLC (check the model + enumerate programs) -> driver -> monitor.  `par` = threads this family may use."""
    par = par or lib.NCPU
    cfg = mc_cfg(ctx, name, **over)
    progs = ctx.path(f"prog_{name}.ndjson")
    r = lib.tlc(ctx, MODULE_MC, cfg, tagged_out={"PROGRAM": progs}, timeout=1500, workers=par)
    n = r["counts"]["PROGRAM"]
    with LOCK:
        ctx.cov["states"] += r["distinct"]
        ctx.cov["transitions"] += r["generated"]
        ctx.stage("mc", family=name, distinct_states=r["distinct"], generated=r["generated"], programs=n, wall_s=r["wall_s"],
                  constants={k: v for k, v in over.items()})
    if n == 0:
        raise lib.ToolError(f"MC_Segment {name}: no program generated")
    trace = ctx.path(f"trace_{name}.ndjson")
    d = lib.run_sharded(ctx, DRV, progs, trace, shards=min(shards, par))
    with LOCK:
        ctx.stage("run", family=name, programs=d.get("programs"), events=d.get("events"), hangs=d.get("hangs"), wall_s=d["wall_s"])
    if d.get("programs") != n:
        raise lib.ToolError(f"driver executed {d.get('programs')} of {n} programs")
    with LOCK:
        _, dn = count_programs(progs, seen)
        if name in ("empty", "gap", "dyn", "short"):
            ls = lib.read_lines(trace)
            s, e = lib.run_of_line(ls, max(1, len(ls) * 2 // 3))
            ctx.cov["samples"].append({"source": f"MC_Segment {name}", "trace": [slim(json.loads(x)) for x in ls[s:e]]})
    judge_trace(ctx, trace, f"MC_Segment {name}", kd, totals, parallel=par)
    os.remove(progs)
    if keep:
        return n, dn, trace
    os.remove(trace)
    return n, dn, None


def slim(e):
    """Shorten an event for the evidence samples (key lists are long)."""
    e = json.loads(json.dumps(e))
    for c in e.get("created", []):
        c["keys"] = f"<{len(c['keys'])} keys>"
    for h in e.get("obs", {}).get("heads", []) if isinstance(e.get("obs"), dict) else []:
        h["keys"] = f"<{len(h['keys'])} keys>"
    if isinstance(e.get("obs"), dict) and len(e["obs"].get("segs", [])) > 8:
        e["obs"]["segs"] = e["obs"]["segs"][:4] + [f"... {len(e['obs']['segs']) - 4} more"]
    return e


def replay(ctx, kd):
    obj = json.load(open(ctx.replay))
    prog = obj.get("program") or obj.get("witness", {}).get("program")
    if prog is None:
        raise lib.ToolError("replay file has no program")
    p = ctx.path("replay_prog.ndjson")
    open(p, "w").write(json.dumps(prog) + "\n")
    trace = ctx.path("replay_trace.ndjson")
    lib.run_driver(DRV, ["--programs", p, "--out", trace])
    v = judge_trace(ctx, trace, "replay", kd, {})
    for x in lib.read_lines(trace):
        print(json.dumps(slim(json.loads(x))))
    print(json.dumps(v))
    for _, fid in v["deviations"]:
        print(f"KNOWN-FINDING: property={PROP} {fid} reproduced by this replay")
    return 1 if v["violations"] else 0


def selftest(ctx, trace, kd):
    """Binding self-test: corrupt one logged field / drop one event -> the monitor must flag exactly that."""
    lines = lib.read_lines(trace)[:5000]
    cfg = ctx.path("t_segment.cfg")

    def write(name, ls):
        p = ctx.path(name)
        open(p, "w").write("\n".join(ls) + "\n")
        return p

    base = lib.tlc_trace(ctx, MODULE_T, cfg, write("selftest_0.ndjson", lines))
    bad = set(base["violations"])

    def find(pred):
        for i, l in enumerate(lines):
            if lib.is_new(l) or (i + 1) in bad or i + 1 >= len(lines):
                continue
            e = json.loads(l)
            if pred(e):
                return i, e
        raise lib.ToolError("self-test: no suitable event in the trace")

    def put(i, e):
        ls = list(lines)
        ls[i] = json.dumps(e, separators=(",", ":"))
        return ls

    # (a1) an allocation moved 40 bytes down: onto its predecessor
    ia, e = find(lambda e: e["op"] == "alloc" and "ok" in e["res"] and e["res"]["ok"][1] > 480 and e["size"] > 0)
    e["res"]["ok"][1] -= 40
    fa = write("selftest_a1.ndjson", put(ia, e))
    # (a2) a frozen segment reported thawed
    ib, e = find(lambda e: e["op"] == "freeze" and e["res"].get("ok") is True)
    e["obs"]["segs"][e["i"]]["st"] = "T"
    fb = write("selftest_a2.ndjson", put(ib, e))
    # (a3) an error result where there was room
    ic, e = find(lambda e: e["op"] == "alloc" and "ok" in e["res"])
    e["res"] = {"err": "Archive"}
    fc = write("selftest_a3.ndjson", put(ic, e))
    # (a4) the write position below the end of the range just handed out
    id_, e = find(lambda e: e["op"] == "alloc" and "ok" in e["res"] and e["size"] > 1)
    e["obs"]["segs"][e["res"]["ok"][0]]["wp"] -= 1
    fd = write("selftest_a4.ndjson", put(id_, e))
    # (b) drop one event inside a run
    idx = next(i for i, l in enumerate(lines) if i > 20 and not lib.is_new(l) and i + 1 < len(lines) and not lib.is_new(lines[i + 1])
               and (i + 2) not in bad)
    ld = list(lines)
    del ld[idx]
    fe = write("selftest_b.ndjson", ld)
    with ThreadPoolExecutor(max_workers=min(5, lib.NCPU)) as ex:
        va, vb, vc, vd, ve = list(ex.map(lambda f: lib.tlc_trace(ctx, MODULE_T, cfg, f), [fa, fb, fc, fd, fe]))
    res = {"corrupt_offset_flagged": (ia + 1) in va["violations"], "corrupt_state_flagged": (ib + 1) in vb["violations"],
           "corrupt_result_flagged": (ic + 1) in vc["violations"], "corrupt_write_position_flagged": (id_ + 1) in vd["violations"],
           "drop_one_event_flagged": (idx + 1) in ve["violations"]}
    ctx.cov["binding_selftest"] = res
    if not all(res.values()):
        raise lib.ToolError(f"binding self-test failed: {res}")


def run(ctx):
    kd = known(ctx)
    ctx.stage("build", wall_s=round(lib.build([DRV]), 1))
    if ctx.replay:
        return replay(ctx, kd)
    totals, seen = {}, set()
    S = lambda *xs: "{" + ", ".join(str(x) for x in xs) + "}"
    if ctx.quick:
        plan = [
            ("empty", dict(D=4, Max0=2, PreName='"empty"', Sizes=S(100, CAP - 100, CAP + 1), Idx=S(0), ReMax=S(2), LoadOp="TRUE")),
            ("clean2", dict(D=3, Max0=3, PreName='"clean2"', Sizes=S(0, 100, CAP), Idx=S(0, 1, 2), ReMax=S(1, 3))),
            ("gap", dict(D=3, Max0=4, PreName='"gap"', Sizes=S(100, CAP), Idx=S(0, 1, 2), ReMax=S(2, 4))),
            ("foreign", dict(D=2, Max0=3, PreName='"foreign"', Sizes=S(100), Idx=S(0, 2), ReMax=S(3))),
            ("gap0", dict(D=3, Max0=2, PreName='"gap0"', Sizes=S(100, CAP), Idx=S(0, 1), ReMax=S(2))),
            ("short", dict(D=3, Max0=2, PreName='"short"', Sizes=S(10, 500, CAP + 1), WSizes=S(10, 500), Idx=S(0), ReMax=S(2))),
            ("short0", dict(D=3, Max0=3, PreName='"short0"', Sizes=S(1, 479), WSizes=S(1, 479), Idx=S(0, 1), ReMax=S(3))),
            ("unloaded", dict(D=3, Max0=2, PreName='"clean2"', Load0="FALSE", Sizes=S(100), Idx=S(0), ReMax=S(2), Loads="{TRUE, FALSE}",
                              LoadOp="TRUE")),
            ("max0", dict(D=2, Max0=0, PreName='"empty"', Sizes=S(0, 100), Idx=S(0), ReMax=S(0, 5000))),
            ("last", dict(D=2, Max0=5000, PreName='"last"', Sizes=S(100), Idx=S(0, 1022), ReMax=S(1023, 5000))),
            ("all", dict(D=1, Max0=5000, PreName='"all"', Sizes=S(100), Idx=S(0), ReMax=S(5000))),
            ("full", dict(D=2, Max0=2, PreName='"full"', Sizes=S(100, 101), WSizes=S(), Idx=S(0), ReMax=S())),
            ("fn", dict(Family='"fn"')),
            ("dyn", dict(Family='"dyn"', D=3)),
        ]
        nrand = 300
    else:
        plan = [
            ("empty", dict(D=5, Max0=2, PreName='"empty"', Sizes=S(100, CAP - 100, CAP, CAP + 1), Idx=S(0, 1), ReMax=S(2), LoadOp="TRUE")),
            ("empty3", dict(D=4, Max0=3, PreName='"empty"', Sizes=S(0, 100, CAP - 100, CAP, CAP + 1, 1 << 30), Idx=S(0, 1, 2), ReMax=S(1, 3),
                            LoadOp="TRUE")),
            ("clean2", dict(D=4, Max0=3, PreName='"clean2"', Sizes=S(0, 100, CAP), Idx=S(0, 1, 2), ReMax=S(1, 3))),
            ("gap", dict(D=4, Max0=4, PreName='"gap"', Sizes=S(100, CAP), Idx=S(0, 1, 2), ReMax=S(2, 4), LoadOp="TRUE")),
            ("foreign", dict(D=3, Max0=3, PreName='"foreign"', Sizes=S(100), Idx=S(0, 2), ReMax=S(3))),
            ("gap0", dict(D=4, Max0=2, PreName='"gap0"', Sizes=S(100, CAP), Idx=S(0, 1), ReMax=S(2))),
            ("short", dict(D=5, Max0=2, PreName='"short"', Sizes=S(10, 500, CAP + 1), WSizes=S(10, 500), Idx=S(0), ReMax=S(2))),
            ("short0", dict(D=4, Max0=3, PreName='"short0"', Sizes=S(1, 479), WSizes=S(1, 479), Idx=S(0, 1), ReMax=S(3))),
            ("unloaded", dict(D=4, Max0=2, PreName='"clean2"', Load0="FALSE", Sizes=S(100, CAP), Idx=S(0), ReMax=S(2), Loads="{TRUE, FALSE}",
                              LoadOp="TRUE")),
            ("max0", dict(D=3, Max0=0, PreName='"empty"', Sizes=S(0, 100), Idx=S(0), ReMax=S(0, 5000))),
            ("last", dict(D=3, Max0=5000, PreName='"last"', Sizes=S(100), Idx=S(0, 1022), ReMax=S(1023, 5000))),
            ("all", dict(D=2, Max0=5000, PreName='"all"', Sizes=S(100), Idx=S(0), ReMax=S(5000))),
            ("full", dict(D=3, Max0=2, PreName='"full"', Sizes=S(0, 100, 101), WSizes=S(), Idx=S(0), ReMax=S(2))),
            ("over", dict(D=2, Max0=2, PreName='"over"', Sizes=S(0, 1), WSizes=S(), Idx=S(0), ReMax=S(2))),
            ("fn", dict(Family='"fn"')),
            ("dyn", dict(Family='"dyn"', D=5)),
        ]
        nrand = 4000
    only = set(filter(None, os.environ.get("VERIF_X01_FAMILIES", "").split(",")))   # development aid, never set by registered commands
    if only:
        plan = [plan[0]] + [p for p in plan[1:] if p[0] in only]
        nrand = nrand if "random" in only else 20
    total = distinct = 0
    # the largest family first with all threads, the others side by side with a share each
    name, over = plan[0]
    n, dn, st_trace = mc_and_run(ctx, name, kd, totals, seen, keep=True, **over)
    total += n
    distinct += dn
    conc = max(2, lib.NCPU // 2)
    share = max(1, lib.NCPU // conc)

    def one(item):
        name, over = item
        big = name in ("full", "over", "last", "all")      # load_existing reads whole (sparse) 1 GiB files / 1023-segment listings
        return mc_and_run(ctx, name, kd, totals, seen, shards=2 if big else 8, par=share, **over)

    def rand(_):
        trace = ctx.path("trace_random.ndjson")
        dump = ctx.path("prog_random.ndjson")
        d = lib.run_driver(DRV, ["--random", nrand, "--out", trace, "--dump-programs", dump], env={"VERIF_SEED": ctx.seed})
        with LOCK:
            ctx.stage("run", source="random", programs=d.get("programs"), events=d.get("events"), hangs=d.get("hangs"), wall_s=d["wall_s"])
        if d.get("programs") != nrand:
            raise lib.ToolError(f"driver executed {d.get('programs')} of {nrand} random programs")
        return trace, dump

    with ThreadPoolExecutor(max_workers=conc) as ex:
        fr = ex.submit(rand, None)
        for n, dn, _ in ex.map(one, plan[1:]):
            total += n
            distinct += dn
        trace, dump = fr.result()
    # seeded random programs: longer histories, more segments, odd sizes, mixed directory contents, all three kinds
    n, dn = count_programs(dump, seen)
    total += n
    distinct += dn
    ls = lib.read_lines(trace)
    i = next((i for i, l in enumerate(ls) if lib.is_new(l) and '"kind":"alloc"' in l and i > len(ls) // 2), None)
    if i is not None:
        s, e = lib.run_of_line(ls, i + 1)
        ctx.cov["samples"].append({"source": f"random seed={ctx.seed}", "trace": [slim(json.loads(x)) for x in ls[s:e]][:8]})
    judge_trace(ctx, trace, f"random seed={ctx.seed}", kd, totals)
    try:
        selftest(ctx, st_trace, kd)
    except lib.ToolError as ex:
        if not ctx.violations:
            raise
        ctx.cov["binding_selftest"] = {"skipped": str(ex)}
    for k in ("alloc_ok", "alloc_err", "alloc_new", "alloc_written", "frz_true", "frz_false", "loads", "reopens", "fn_ops", "dyn_writes"):
        if not totals.get(k):
            raise lib.ToolError(f"vacuous run: no event of class {k}")
    ctx.cov["event_classes"] = totals
    ctx.cov["ideal_allocator_agreement"] = f"{totals.get('alloc_ideal', 0)}/{totals.get('alloc_ok', 0) + totals.get('alloc_err', 0)} allocate results equal the code-shaped ideal (informational)"
    ctx.cov["traces_validated_against_impl"] = total
    ctx.cov["evaluations"] = total
    ctx.cov["distinct_nontrivial"] = distinct
    ctx.cov["exhaustive"] = True
    ctx.cov["exhaustive_scope"] = ("per family, every operation sequence of the listed length over the listed alphabet (stages[].constants) on the preset "
                                   "directory; the fn family enumerates fixed argument lists (all indices 0..1099 for the file names); the random tier is sampled")
    ctx.cov["related_properties"] = ["C04", "C18"]
    ctx.assumptions += [
        "TLC, the CommunityModules Json reader and the driver's projections (directory listing by its own name rule, key bytes un-reversed from the file, numbers clamped to 2^31-1) are trusted",
        "the user of the allocator is played by the driver: ranges are written (file extended, sparse) or not, never partially; I/O errors and concurrent allocators on one directory are not generated",
        "segments are filled with a few huge unwritten ranges; files of 1 GiB exist only in the presets full/over (sparse) because load_existing reads every data file completely",
        "DynamicContainer: limits 0..2 / 600, 4096 bytes exhaustively, larger ones sampled; segment_limit > 1 cannot be exceeded in practice (ArchiveManager opens a second archive only after 256 GiB)",
    ]
    return lib.finish(ctx, "model_checking",
                      rule="programs = operation sequences enumerated by TLC from MC_Segment (history variable; fn/dyn: one initial state per program) plus seeded random programs; "
                           "distinct = distinct program texts (md5) over the whole run; non-trivial = an allocator program with at least one allocate, a container program "
                           "with at least one write, or a pure-function program with at least one call")
