"""X07 - V1 MIME signature / certificate verification, request formatting, archive-index downloads (growth of the
specification).

spec/Signature.tla (abstract CMS: who signed what with which key; the MIME envelope's decision table; endpoint names;
request formats; URL layout - the download cache machine instantiates C13's CdnExplains)
  -> MC_Signature (a) design level: Sound / Complete / NeverUnsigned / the MIME clauses / endpoint-name injectivity /
     the download machine's clauses hold for the specification on the whole bounded universe, and are refuted for the
     code-shaped variants (Fdev = {FX07a}, {FX07b}, {FX07f}); the counterexamples are replayed on the real code;
     (b) binding G: every element of the universe is a program
  -> drv_signature builds the real bytes (own DER / X.509 / CMS / MIME encoders, own SHA-2 and RSA signing with fixed
     test keys, loopback mocks) and executes the real cascette-protocol code
  -> T_Signature judges every recorded event with the spec's operators (binding T; tables: binding E).
Python adds what is not a finite universe: the fault enumerations' base cases, signed fixtures made by an independent
implementation (openssl 3.5.6), seeded random damage.
"""
import glob, json, os, random
from concurrent.futures import ThreadPoolExecutor
from . import lib

PROP = "X07"
MODULE_MC = "MC_Signature"
MODULE_T = "T_Signature"
DRV = "drv_signature"


# --------------------------------------------------------------------------- findings
def known_findings(ctx):
    """Known (not fixed) findings of this check: findings.d/FX07*.json is the source; nothing is written."""
    ids = set(lib.known_ids(ctx, PROP))
    have = {f["id"] for f in ctx.known.get("findings", [])}
    for p in sorted(glob.glob(os.path.join(lib.ROOT, "findings.d", "FX07*.json"))):
        f = json.load(open(p))
        if f.get("property") == PROP:
            if f.get("status", "known") == "known":
                ids.add(f["id"])
            else:
                ids.discard(f["id"])
            if f["id"] not in have:
                ctx.known.setdefault("findings", []).append(f)
    # development aid (like VERIF_REPO): judge a scratch worktree that carries proposed fixes as if those findings were
    # recorded as fixed, e.g. VERIF_X07_KNOWN=FX07f,FX07g.  Registered commands never set it.
    if "VERIF_X07_KNOWN" in os.environ and lib.REPO != "/repo":
        ids = {x for x in os.environ["VERIF_X07_KNOWN"].split(",") if x}
    return sorted(ids)


# --------------------------------------------------------------------------- abstract descriptions (as in MC_Signature)
def cert(key=1, name="A", serial=1, ski="a1b2c3d4", alg="rsa", exp=False):
    return {"key": key, "name": name, "serial": serial, "ski": ski, "alg": alg, "exp": exp}


def signer(sidt="isn", sname="A", sserial=1, sski="", dalg="sha256", by=1, over="content", oc=1, attrs=False, md=0):
    return {"sidt": sidt, "sname": sname, "sserial": sserial, "sski": sski, "dalg": dalg, "by": by, "over": over, "oc": oc,
            "attrs": attrs, "md": md}


def cms(certs, signers, econtent=0, wrap="signed"):
    return {"certs": certs, "signers": signers, "econtent": econtent, "wrap": wrap}


def env(c=1, disp="version", sig="cms", cms_=None, enc="cte", order="ds", cks="sha256", mp=True):
    return {"c": c, "disp": disp, "sig": sig, "cms": cms_ or cms([], []), "enc": enc, "order": order, "cks": cks, "mp": mp}


C1 = cert()
C2 = cert(2, "B", 2, "b2")
C6 = cert(3, "C", 200, "")
BASES = {   # valid detached signatures over content 1: the undamaged inputs of the fault enumerations
    "isn-k1-sha256": cms([C1], [signer()]),
    "ski-k2-sha512": cms([C2], [signer("ski", "", 0, "b2", "sha512", 2)]),
    "isn-k3-sha384-2certs": cms([C2, C6], [signer("isn", "C", 200, "", "sha384", 3)]),
    "two-signers": cms([C1, C2], [signer(), signer("isn", "B", 2, "", "sha512", 2)]),
}

# Signed fixtures made by an independent implementation (openssl 3.5.6):
#   openssl cms -sign -binary [-noattr] [-nodetach] [-keyid] -md <digest> -in content1 -signer certA.pem -inkey key1.pem -outform DER
# certA = the driver's certificate 1 (exported once), key1 = the driver's test key 1.  The descriptions say what openssl
# was asked to make; with attributes openssl also signs signingTime and sMIMECapabilities (nothing the model looks at).
OPENSSL_FIXTURES = [
    {"name": "detached, no attributes, issuer+serial, sha256", "cms": cms([C1], [signer()]), "hex": (
     "3082029406092a864886f70d010702a082028530820281020101310d300b0609608648016503040201300b06092a864886f70d010701a08201a33082"
     "019f30820108a003020102020101300d06092a864886f70d01010b0500300c310a300806035504030c0141301e170d3230303130313030303030305a"
     "170d3439313233313233353935395a300c310a300806035504030c014130819f300d06092a864886f70d010101050003818d0030818902818100e2df"
     "f2ca3777411b0209adf07f49c1222f4037d01ba229ef19acda045a8a7018ba9b5cd921773eef3049e73dc436716c59786d11d0a0204e06a53fcd365f"
     "857338885d4d62cb278af7a2bee129db5b2a936d174bef3e7427a1316d0b1ca8094c9df753ed4b60438b109df19a695bbad1230665f03df2fc6fef7c"
     "68c347d44dfb0203010001a311300f300d0603551d0e04060404a1b2c3d4300d06092a864886f70d01010b050003818100c3d176cf5811f981ee7202"
     "09461315f93333037eacaabf7d11d37aa83c8ee46b09fb8e9e01602465c219309be6e40ff12c7eb5117eb772c7de0bff9ce4b43248da539289fc46d4"
     "532a6dbb6738dec528890e9c4be3d7b734d39f88be4db5d67f83b6b4f77e9b8e83bcba15c86466845f4fea5af01083a96c015b25f33fb3472a3181b8"
     "3081b50201013011300c310a300806035504030c0141020101300b0609608648016503040201300d06092a864886f70d010101050004818084e8f438"
     "4bb0c10c818f64b63b6aa139ba767292687a66e7531258dadcc8a6674681bbf97ffd54fb7333ada5c18ccf01e20f358e16365bbf1655dc160f26dfc2"
     "455cdd100d48743eb77e8ffd664dd722de6299ba7acdcdbfd2eff8da28dba3e32d649e473d989b42a3b1eb036f2956e963a93edc40572c8638d10e7b"
     "33aadd06")},
    {"name": "detached, signed attributes, issuer+serial, sha256", "cms": cms([C1], [signer(over="attrs", oc=0, attrs=True, md=1)]), "hex": (
     "3082037d06092a864886f70d010702a082036e3082036a020101310d300b0609608648016503040201300b06092a864886f70d010701a08201a33082"
     "019f30820108a003020102020101300d06092a864886f70d01010b0500300c310a300806035504030c0141301e170d3230303130313030303030305a"
     "170d3439313233313233353935395a300c310a300806035504030c014130819f300d06092a864886f70d010101050003818d0030818902818100e2df"
     "f2ca3777411b0209adf07f49c1222f4037d01ba229ef19acda045a8a7018ba9b5cd921773eef3049e73dc436716c59786d11d0a0204e06a53fcd365f"
     "857338885d4d62cb278af7a2bee129db5b2a936d174bef3e7427a1316d0b1ca8094c9df753ed4b60438b109df19a695bbad1230665f03df2fc6fef7c"
     "68c347d44dfb0203010001a311300f300d0603551d0e04060404a1b2c3d4300d06092a864886f70d01010b050003818100c3d176cf5811f981ee7202"
     "09461315f93333037eacaabf7d11d37aa83c8ee46b09fb8e9e01602465c219309be6e40ff12c7eb5117eb772c7de0bff9ce4b43248da539289fc46d4"
     "532a6dbb6738dec528890e9c4be3d7b734d39f88be4db5d67f83b6b4f77e9b8e83bcba15c86466845f4fea5af01083a96c015b25f33fb3472a318201"
     "a03082019c0201013011300c310a300806035504030c0141020101300b0609608648016503040201a081e4301806092a864886f70d010903310b0609"
     "2a864886f70d010701301c06092a864886f70d010905310f170d3236303932363038323535365a302f06092a864886f70d01090431220420b0704d5d"
     "b6d1c3b347a18e5864183ae264998dfcec51bcf86bdba2144e5f9dec307906092a864886f70d01090f316c306a300b060960864801650304012a300b"
     "0609608648016503040116300b0609608648016503040102300a06082a864886f70d0307300e06082a864886f70d030202020080300d06082a864886"
     "f70d0302020140300706052b0e030207300d06082a864886f70d0302020128300d06092a864886f70d01010105000481802b1e194e695a563852c96e"
     "e3a0e9058734413d3e20311e515eaa4764561ec67171ebfef47cb22f6e86f5de336c68547bc63b26ff9d53dac0555d195da803d59e18f5e772039c8c"
     "15322884cd65abba86fdb6144be4f66e6e153c12ab902092ea06aa29ee737a2c1d370af2cf209e69deb49e6cdb396b6563af2b855fde5989ab")},
    {"name": "attached, no attributes, issuer+serial, sha256", "cms": cms([C1], [signer()], econtent=1), "hex": (
     "3082035d06092a864886f70d010702a082034e3082034a020101310d300b06096086480165030402013081d306092a864886f70d010701a081c50481"
     "c2526567696f6e21535452494e473a307c4275696c64436f6e666967214845583a31367c43444e436f6e666967214845583a31367c4275696c644964"
     "214445433a347c56657273696f6e734e616d6521537472696e673a300a2323207365716e203d20323234313238320a75737c62653262623938646332"
     "386165653035626265653531393339333639366364627c66616337376239636135326338346163323861643833613764626531633832397c36313439"
     "317c31312e312e302e36313439310aa08201a33082019f30820108a003020102020101300d06092a864886f70d01010b0500300c310a300806035504"
     "030c0141301e170d3230303130313030303030305a170d3439313233313233353935395a300c310a300806035504030c014130819f300d06092a8648"
     "86f70d010101050003818d0030818902818100e2dff2ca3777411b0209adf07f49c1222f4037d01ba229ef19acda045a8a7018ba9b5cd921773eef30"
     "49e73dc436716c59786d11d0a0204e06a53fcd365f857338885d4d62cb278af7a2bee129db5b2a936d174bef3e7427a1316d0b1ca8094c9df753ed4b"
     "60438b109df19a695bbad1230665f03df2fc6fef7c68c347d44dfb0203010001a311300f300d0603551d0e04060404a1b2c3d4300d06092a864886f7"
     "0d01010b050003818100c3d176cf5811f981ee720209461315f93333037eacaabf7d11d37aa83c8ee46b09fb8e9e01602465c219309be6e40ff12c7e"
     "b5117eb772c7de0bff9ce4b43248da539289fc46d4532a6dbb6738dec528890e9c4be3d7b734d39f88be4db5d67f83b6b4f77e9b8e83bcba15c86466"
     "845f4fea5af01083a96c015b25f33fb3472a3181b83081b50201013011300c310a300806035504030c0141020101300b060960864801650304020130"
     "0d06092a864886f70d010101050004818084e8f4384bb0c10c818f64b63b6aa139ba767292687a66e7531258dadcc8a6674681bbf97ffd54fb7333ad"
     "a5c18ccf01e20f358e16365bbf1655dc160f26dfc2455cdd100d48743eb77e8ffd664dd722de6299ba7acdcdbfd2eff8da28dba3e32d649e473d989b"
     "42a3b1eb036f2956e963a93edc40572c8638d10e7b33aadd06")},
    {"name": "detached, no attributes, subject key identifier, sha512",
     "cms": cms([C1], [signer("ski", "", 0, "a1b2c3d4", "sha512")]), "hex": (
     "3082028706092a864886f70d010702a082027830820274020103310d300b0609608648016503040203300b06092a864886f70d010701a08201a33082"
     "019f30820108a003020102020101300d06092a864886f70d01010b0500300c310a300806035504030c0141301e170d3230303130313030303030305a"
     "170d3439313233313233353935395a300c310a300806035504030c014130819f300d06092a864886f70d010101050003818d0030818902818100e2df"
     "f2ca3777411b0209adf07f49c1222f4037d01ba229ef19acda045a8a7018ba9b5cd921773eef3049e73dc436716c59786d11d0a0204e06a53fcd365f"
     "857338885d4d62cb278af7a2bee129db5b2a936d174bef3e7427a1316d0b1ca8094c9df753ed4b60438b109df19a695bbad1230665f03df2fc6fef7c"
     "68c347d44dfb0203010001a311300f300d0603551d0e04060404a1b2c3d4300d06092a864886f70d01010b050003818100c3d176cf5811f981ee7202"
     "09461315f93333037eacaabf7d11d37aa83c8ee46b09fb8e9e01602465c219309be6e40ff12c7eb5117eb772c7de0bff9ce4b43248da539289fc46d4"
     "532a6dbb6738dec528890e9c4be3d7b734d39f88be4db5d67f83b6b4f77e9b8e83bcba15c86466845f4fea5af01083a96c015b25f33fb3472a3181ab"
     "3081a80201038004a1b2c3d4300b0609608648016503040203300d06092a864886f70d01010105000481801d27a69da5fb852f2de87f72a845e2cc43"
     "4ea491f32f16602a439fd4a78b130eb42448ef1fd1fe2be97b1ca103f0112abd71a689b3087951804d0722fd631cfb462b21d351196842052692bd3d"
     "626b09dbcbc55c99cf644c87e04d47433fc15ecf720cd09286839328d9c0e3d9b677594c03af92e055d311eeb7519b34b43d29")},
]


def _load_fixtures():
    return OPENSSL_FIXTURES


# --------------------------------------------------------------------------- judge
def t_cfg(ctx, kd, name="t_sig.cfg"):
    cfg = ctx.path(name)
    lib.write_cfg(cfg, {"KnownDeviations": lib.tla_set(kd)}, "TInit", "TNext", invariants=["Done"])
    return cfg


def program_of(evs):
    if not evs or evs[0].get("op") != "new":
        return None
    return evs[0].get("prog")


MARKS = {   # operations / answers that must have been exercised on the real code
    "verify": '"op":"verify"', "mime_v1": '"op":"mime_v1"', "mime_legacy": '"op":"mime_legacy"', "detect": '"op":"detect"',
    "raw": '"op":"raw"', "fault:flip": '"fault":"flip"', "fault:trunc": '"fault":"trunc"', "fault:ext": '"fault":"ext"',
    "fault:blob": '"target":"blob"', "fault:data": '"target":"data"', "fault:resp": '"target":"resp"',
    "pem": '"op":"pem"', "req:ribbit": '"client":"ribbit"', "req:tact": '"client":"tact"', "req:unified": '"client":"unified"',
    "cdn:idx": '"op":"idx"', "cdn:dat": '"op":"dat"', "cdn:reopen": '"op":"reopen"',
    "answer:valid": '"valid":true', "answer:invalid": '"valid":false', "answer:err": '"class":"err"', "answer:ok": '"class":"ok"',
    "answer:sig-valid": '"sig":"valid"', "answer:sig-invalid": '"sig":"invalid"', "answer:sig-none": '"sig":"none"',
    "answer:cache-hit": '"reqs":[],"res":{"body"', "fixture:openssl": '"src":"openssl',
}


def histogram(ctx, trace):
    h = ctx.cov.setdefault("events_by_kind", {k: 0 for k in MARKS})
    with open(trace) as f:
        for line in f:
            for k, m in MARKS.items():
                if m in line:
                    h[k] += 1


def judge_and_classify(ctx, trace, source, kd, max_events=6000):
    histogram(ctx, trace)
    v = lib.judge(ctx, MODULE_T, t_cfg(ctx, kd), trace, max_events=max_events, parallel=min(lib.NCPU, 8))
    per = {}
    for _, fid in v["deviations"]:
        per[fid] = per.get(fid, 0) + 1
    ctx.stage("judge", source=source, events=v["events"], judged=v.get("judged", 0), violations=len(v["violations"]), deviations=per,
              wall_s=v["wall_s"])
    ctx.cov["judged_outcomes"] = ctx.cov.get("judged_outcomes", 0) + v.get("judged", 0)
    lib.classify_trace(ctx, v, trace, source, program_of=program_of)
    return v


def run_programs(ctx, progs, trace, shards=8):
    d = lib.run_sharded(ctx, DRV, progs, trace, shards=shards)
    if d.get("hangs"):
        lib.log(f"[{PROP}] {d['hangs']} program(s) hung (recorded as hang events)")
    return d


# --------------------------------------------------------------------------- TLC stages
def mc_constants(family, wide, fdev=(), depth=3):
    return {"Family": '"%s"' % family, "Wide": "TRUE" if wide else "FALSE", "Fdev": lib.tla_set(fdev), "D": depth}


FAMILIES = {   # family -> (invariants of the specification, emit invariant)
    "verify": (["SoundInv", "CompleteInv", "UnsignedInv", "DeterminateInv"], "Emit"),
    "mime": (["MimeInv", "DefaultVerifiesInv"], "Emit"),
    "ids": (["IdsInv"], "Emit"),
    "req": (["ReqInv"], "Emit"),
    "cdn": (["CdnInv"], "EmitCdn"),
}


def gen(ctx, family, wide, depth):
    invs, emit = FAMILIES[family]
    cfg = ctx.path(f"gen_{family}.cfg")
    lib.write_cfg(cfg, mc_constants(family, wide, (), depth), "Init", "Next", invariants=invs + [emit], constraints=["Constr"])
    progs = ctx.path(f"prog_{family}.ndjson")
    r = lib.tlc(ctx, MODULE_MC, cfg, tagged_out={"PROGRAM": progs}, timeout=1500, workers=min(lib.NCPU, 4))
    ls = sorted(lib.read_lines(progs))      # TLC's workers print in a nondeterministic order
    open(progs, "w").write("\n".join(ls) + ("\n" if ls else ""))
    ctx.cov["states"] += r["distinct"]
    ctx.cov["transitions"] += r["generated"]
    ctx.stage("mc-gen", family=family, distinct_states=r["distinct"], programs=r["counts"]["PROGRAM"], invariants=invs, wall_s=r["wall_s"])
    return progs, r["counts"]["PROGRAM"]


DESIGN_PLAN = [   # (finding, family, Fdev, invariant TLC must refute)
    ("FX07a", "verify", ["FX07a"], "SoundW"),
    ("FX07b", "verify", ["FX07b"], "SoundW"),
    ("FX07b", "verify", ["FX07b"], "CompleteW"),
    ("FX07a", "mime", ["FX07a"], "AuthenticW"),
    ("FX07f", "mime", ["FX07f"], "DefaultW"),
]


def design_level(ctx, kd):
    """TLC must refute the stated properties on the code-shaped variants; the counterexamples are replayed on the real code."""
    def one(item):
        fid, family, fdev, inv = item
        cfg = ctx.path(f"design_{fid}_{inv}_{family}.cfg")
        lib.write_cfg(cfg, mc_constants(family, False, fdev), "Init", "Next", invariants=[inv], constraints=["Constr"])
        r = lib.tlc(ctx, MODULE_MC, cfg, timeout=600, expect_violation=True, workers=1)
        ws = r["tagged"].get("WITNESS", [])
        if inv not in r["invariant_violated"] or not ws:
            raise lib.ToolError(f"the code-shaped model ({fdev}) does not refute {inv}")
        return r, ws[0]
    with ThreadPoolExecutor(max_workers=min(lib.NCPU, 5)) as ex:
        res = list(ex.map(one, DESIGN_PLAN))
    model, wit = [], []
    for (fid, family, fdev, inv), (r, w) in zip(DESIGN_PLAN, res):
        ctx.cov["states"] += r["distinct"]
        ctx.cov["transitions"] += r["generated"]
        model.append({"finding": fid, "family": family, "deviations_on": fdev, "refuted": w["inv"], "witness": w["program"]})
        wit.append(w["program"])
    p = ctx.path("prog_witness.ndjson")
    open(p, "w").write("".join(json.dumps(w) + "\n" for w in wit))
    trace = ctx.path("trace_witness.ndjson")
    lib.run_driver(DRV, ["--programs", p, "--out", trace])
    v = judge_and_classify(ctx, trace, "design-level witnesses", kd)
    seen = sorted({fid for _, fid in v["deviations"]})
    ctx.cov["design_level"] = {"code_shaped_refutations": model,
                               "witnesses_replayed": {"programs": len(wit), "deviations_on_real_code": seen, "violations": len(v["violations"])}}
    gone = sorted({fid for fid, _, _, _ in DESIGN_PLAN if fid in kd and fid not in seen})
    if gone:
        ctx.cov["known_findings_not_reproduced_by_witness"] = gone
        lib.log(f"[{PROP}] note: the witness of {gone} no longer deviates on the real code - is the finding fixed?")
    ctx.stage("mc-design", refuted=[m["refuted"] + "/" + "+".join(m["deviations_on"]) for m in model], witnesses=len(wit))
    return len(wit)


# --------------------------------------------------------------------------- programs that are not a TLC universe
def fault_programs(quick):
    out = []
    names = ["isn-k1-sha256", "ski-k2-sha512"] if quick else list(BASES)
    for n in names:
        for target in ("blob", "data"):
            for fault in ("flip", "trunc", "ext"):
                out.append({"kind": "fault", "level": "verify", "base": n, "cms": BASES[n], "data": 1, "target": target, "fault": fault})
    encs = ["cte", "bin"] if quick else ["cte", "bin", "tline"]
    for enc in encs:
        for cks in (["md5"] if quick else ["md5", "none"]):
            e = env(1, "version", "cms", BASES["isn-k1-sha256"], enc, "ds", cks)
            for fault in ("flip", "trunc", "ext"):
                out.append({"kind": "fault", "level": "mime", "base": "isn-k1-sha256", "env": e, "sd": "part", "target": "resp", "fault": fault})
    if not quick:
        e = env(1, "cdns", "cms", BASES["ski-k2-sha512"], "bin", "sd", "md5")
        for fault in ("flip", "trunc", "ext"):
            out.append({"kind": "fault", "level": "mime", "base": "ski-k2-sha512", "env": e, "sd": "part", "target": "resp", "fault": fault})
    return out


def fixture_programs():
    out = []
    for f in _load_fixtures():
        for data in (1, 2):
            out.append({"kind": "verify", "cms": f["cms"], "data": data, "blob": f["hex"], "src": "openssl: " + f["name"]})
    return out


def junk_key_programs():
    keys = ["a", "ab", "abc", "abcd", "ZZ", "0123456789ABCDEF0123456789ABCDEF", "z" * 32, "0123456789abcdef0123456789abcdef01234567",
            "", "../../x", "a?b", "a#b", "a b", "a%2fb", "äö"]
    ops = [{"op": "idx", "k": k} for k in keys] + [{"op": "idx", "k": k} for k in keys[:5]]
    return [{"kind": "cdn", "cache": c, "script": [200], "path": "tpr/wow", "ops": ops} for c in ("mem", "disk")]


def detect_programs():
    head = b"Content-Type: multipart/alternative; boundary=x\r\n\r\n"
    out = []
    for pad in (510 - len(head), 511 - len(head), 512 - len(head), 513 - len(head)):
        for ch in ("é", "€", "\U0001f600"):
            raw = head + b"a" * pad + (ch * 200).encode()
            out.append({"kind": "raw", "what": "detect", "hex": raw.hex(), "expect": "true", "novalid": True})
    out.append({"kind": "raw", "what": "detect", "hex": (b"Region!STRING:0|BuildConfig!HEX:16\n## seqn = 1\nus|" + b"ab" * 16 + b"\n").hex(),
                "expect": "false", "novalid": True})
    out.append({"kind": "raw", "what": "detect", "hex": (b"a" * 600 + head).hex(), "expect": "false", "novalid": True})
    return out


def random_programs(seed, quick):
    rng = random.Random(seed * 1000003 + 7)
    out = []
    n = 150 if quick else 5000
    for _ in range(n):
        r = rng.random()
        if r < 0.2:      # literal garbage, some of it DER-looking
            ln = rng.choice([0, 1, 2, 5, 16, 64, 300])
            b = bytes(rng.randrange(256) for _ in range(ln))
            if rng.random() < 0.5 and ln >= 2:
                b = bytes([0x30, rng.choice([0x80, 0x81, 0x82, 0x84, 0x89, 0xff, (ln - 2) & 0x7f])]) + b[2:]
            out.append({"kind": "raw", "what": "garbage", "hex": b.hex(), "expect": "any", "novalid": True})
        elif r < 0.3:    # deeply nested / oversized lengths
            depth = rng.choice([10, 100, 1000, 5000])
            b = b"\x30\x80" * depth if rng.random() < 0.5 else b"\x30\x84\x7f\xff\xff\xff" * depth
            out.append({"kind": "raw", "what": "nested", "hex": b.hex(), "expect": "any", "novalid": True})
        elif r < 0.65:   # a valid signature blob with a few bytes overwritten, possibly cut / extended
            base = rng.choice(list(BASES))
            p = {"kind": "raw", "what": "blob-edit", "cms": BASES[base], "expect": "any",
                 "edits": [[rng.randrange(4096), rng.randrange(256)] for _ in range(rng.choice([1, 1, 2, 3, 8]))]}
            if rng.random() < 0.3:
                p["cut"] = rng.randrange(4096)
            if rng.random() < 0.2:
                p["append"] = bytes(rng.randrange(256) for _ in range(rng.choice([1, 4, 100]))).hex()
            out.append(p)
        else:            # a valid response with a few bytes overwritten, possibly cut
            e = env(rng.choice([1, 2, 3]), rng.choice(["version", "cdns", "summary"]), "cms", BASES["isn-k1-sha256"],
                    rng.choice(["cte", "bin", "tline"]), rng.choice(["ds", "sd"]), rng.choice(["none", "md5", "sha256"]))
            p = {"kind": "raw", "what": "resp-edit", "env": e, "expect": "any",
                 "edits": [[rng.randrange(8192), rng.randrange(256)] for _ in range(rng.choice([1, 1, 2, 3, 8]))]}
            if rng.random() < 0.3:
                p["cut"] = rng.randrange(8192)
            out.append(p)
    return out


# --------------------------------------------------------------------------- self-tests
def selftest(ctx, traces, kd):
    """Binding self-test: corrupt one logged field / drop one event -> the monitor must flag exactly that."""
    cfg = t_cfg(ctx, kd)
    ls = []
    for name in ("verify", "mime", "ids", "req", "cdn", "extra"):
        # the whole MIME trace: the events of the remaining listed deviation (FX07f) sit beyond its first 1500 lines
        part = lib.read_lines(traces[name])[:(20000 if name == "mime" else 1500)]
        while part and not lib.is_new(part[-1]):
            part.pop()
        ls += part[:-1]

    def verdict(item):
        name, lines = item
        p = ctx.path(f"selftest_{name}.ndjson")
        open(p, "w").write("\n".join(lines) + "\n")
        return lib.tlc_trace(ctx, MODULE_T, cfg, p)

    base = verdict(("base", ls))
    dev_lines = {d[0] for d in base["deviations"]}

    def pick(pred, devs_too=False):
        return next(i for i, l in enumerate(ls) if (i + 1) not in base["violations"] and (devs_too or (i + 1) not in dev_lines)
                    and pred(json.loads(l)))

    edits = [
        # (a) an unverified signature reported as verified
        ("verified_flag", pick(lambda e: e["op"] == "verify" and e["res"].get("valid") is False and e["data"] != 0
                               and e["cms"]["econtent"] == 0 and not any(s["attrs"] for s in e["cms"]["signers"])),
         lambda e: e["res"].__setitem__("valid", True)),
        # (b) a response without signature part reported as signed
        ("signed_without_part", pick(lambda e: e["op"] == "mime_v1" and e["env"]["sig"] == "none" and e["res"]["class"] == "ok"),
         lambda e: e["res"].__setitem__("sig", "valid")),
        # (c) the data of a response replaced
        ("data_replaced", pick(lambda e: e["op"] == "mime_legacy" and e["res"]["class"] == "ok"),
         lambda e: e["res"].__setitem__("data_md5", "0" * 32)),
        # (d) the certificate command of another identifier
        ("other_command", pick(lambda e: e["op"] == "pem" and e["res"]["class"] == "ok" and e["id"] == "a1b2c3d4", devs_too=True),
         lambda e: e.__setitem__("cmds", [e["cmds"][0].replace("a1b2c3d4", "a1b2c3d5")])),
        # (e) a TACT request for another path
        ("other_path", pick(lambda e: e["op"] == "req" and e["client"] == "tact"),
         lambda e: e["reqs"][0].__setitem__("path", e["reqs"][0]["path"] + "x")),
        # (f) a cached index fetched again
        ("refetch", pick(lambda e: e["op"] == "idx" and e["reqs"] == [] and e["res"]["class"] == "ok"),
         lambda e: e.__setitem__("reqs", [{"method": "GET", "code": 200, "path": e["res"]["body"][5:]}])),
        # (g) one flipped signature bit still verifies
        ("flip_verifies", pick(lambda e: e["op"] == "fault" and e["fault"] == "flip" and e["target"] == "blob"),
         lambda e: e["codes"].__setitem__(8 * e["regions"]["sig"][0][0] + 3, 2)),
        # (h) an index answered with the data file's body
        ("index_data_alias", pick(lambda e: e["op"] == "idx" and e["res"]["class"] == "ok" and e["reqs"] != []),
         lambda e: e["res"].__setitem__("body", e["res"]["body"].replace(".index", ""))),
    ]
    edited = list(ls)
    for _, i, edit in edits:
        e = json.loads(edited[i])
        edit(e)
        edited[i] = json.dumps(e, separators=(",", ":"))
    # (i) a successful index download is dropped: the hit that follows it has no explanation
    def hit_after(i):
        if i + 1 >= len(ls) or lib.is_new(ls[i + 1]):
            return False
        a, b = json.loads(ls[i]), json.loads(ls[i + 1])
        return (a.get("op") == "idx" and b.get("op") == "idx" and a.get("k") == b.get("k") and a["res"]["class"] == "ok" and a["reqs"] != []
                and b["reqs"] == [] and b["res"]["class"] == "ok")
    ib = next(i for i in range(len(ls)) if '"op":"idx"' in ls[i] and hit_after(i))
    dropped = list(ls)
    del dropped[ib]
    with ThreadPoolExecutor(max_workers=2) as ex:
        ve, vb = list(ex.map(verdict, [("edited", edited), ("dropped", dropped)]))
    new = set(ve["violations"]) - set(base["violations"])
    res = {f"corrupt_{name}_flagged": (i + 1) in new for name, i, _ in edits}
    res["only_the_corrupted_events_flagged"] = len(ve["violations"]) == len(base["violations"]) + len(edits)
    res["drop_one_event_flagged"] = len(vb["violations"]) > len(base["violations"])
    ctx.cov["binding_selftest"] = res
    if not all(res.values()):
        raise lib.ToolError(f"binding self-test failed: {res}")
    # the deviation signatures are not vacuous: without them exactly the explained events are violations
    if kd:
        vn = lib.tlc_trace(ctx, MODULE_T, t_cfg(ctx, [], "t_sig_nodev.cfg"), ctx.path("selftest_base.ndjson"))
        explained = {d[0] for d in base["deviations"]}
        # (on /repo the sample must contain deviation events; a scratch tree that carries fixes may have none)
        ok = set(vn["violations"]) == explained | set(base["violations"]) and (len(explained) > 0 or lib.REPO != "/repo")
        ctx.cov["binding_selftest"]["deviations_rejected_when_not_listed"] = ok
        ctx.cov["binding_selftest"]["deviation_events_in_sample"] = len(explained)
        if not ok:
            raise lib.ToolError(f"signature self-test failed: explained={len(explained)} rejected={len(vn['violations'])}")
    else:
        ctx.cov["binding_selftest"]["deviations_rejected_when_not_listed"] = "no finding is listed as known"


def replay(ctx, kd):
    obj = json.load(open(ctx.replay))
    prog = obj["program"] if "program" in obj else obj
    p = ctx.path("replay_prog.ndjson")
    open(p, "w").write(json.dumps(prog) + "\n")
    trace = ctx.path("replay_trace.ndjson")
    lib.run_driver(DRV, ["--programs", p, "--out", trace])
    v = lib.judge(ctx, MODULE_T, t_cfg(ctx, kd), trace)
    for line in lib.read_lines(trace):
        e = json.loads(line)
        if e.get("op") == "new":
            e.pop("prog", None)
        if "codes" in e:
            e["codes"] = f"<{len(e['codes'])} codes: " + ", ".join(f"{c}x{e['codes'].count(c)}" for c in sorted(set(e["codes"]))) + ">"
        print(json.dumps(e))
    print(json.dumps({"events": v["events"], "violations": v["violations"], "deviations": v["deviations"]}))
    for ln in v["violations"]:
        print(f"VIOLATION property={PROP} replay={ctx.replay} (event {ln - 1} of the replayed run)")
    return 1 if v["violations"] else 0


# --------------------------------------------------------------------------- main
def run(ctx):
    kd = known_findings(ctx)
    lib.build([DRV])
    if ctx.replay:
        return replay(ctx, kd)
    quick = ctx.quick
    wide = not quick
    total = design_level(ctx, kd)
    depth = 3 if quick else 4
    traces = {}

    def family(name):
        progs, n = gen(ctx, name, wide, depth)
        trace = ctx.path(f"trace_{name}.ndjson")
        d = run_programs(ctx, progs, trace, shards=16 if name == "cdn" else 8)
        if d.get("programs") != n:
            raise lib.ToolError(f"driver executed {d.get('programs')} of {n} programs of family {name}")
        _, dn = lib.count_distinct(progs)
        return name, trace, n, dn, d

    # the families are independent: generate and run them side by side, judge one after the other (ctx is shared)
    with ThreadPoolExecutor(max_workers=3) as ex:
        results = list(ex.map(family, list(FAMILIES)))
    distinct = 0
    for name, trace, n, dn, d in results:
        ctx.stage("run", family=name, programs=d.get("programs"), events=d.get("events"), hangs=d.get("hangs"), wall_s=d["wall_s"])
        traces[name] = trace
        total += n
        distinct += dn
        ls = lib.read_lines(trace)
        s, e = lib.run_of_line(ls, max(1, len(ls) * 2 // 3))
        if len(ctx.cov["samples"]) < 6:
            sample = [json.loads(x) for x in ls[s:e]][:6]
            for x in sample:
                x.pop("prog", None)
            ctx.cov["samples"].append({"source": f"MC_Signature {name}", "trace": sample})
        judge_and_classify(ctx, trace, f"MC_Signature {name}", kd)
    # fault enumerations, fixtures, junk keys, detector inputs, seeded random damage
    extra = fault_programs(quick) + fixture_programs() + junk_key_programs() + detect_programs() + random_programs(ctx.seed, quick)
    p = ctx.path("prog_extra.ndjson")
    open(p, "w").write("".join(json.dumps(x) + "\n" for x in extra))
    trace = ctx.path("trace_extra.ndjson")
    d = lib.run_sharded(ctx, DRV, p, trace, shards=8)
    ctx.stage("run", source="faults+fixtures+random", programs=d.get("programs"), events=d.get("events"), hangs=d.get("hangs"), wall_s=d["wall_s"])
    if d.get("programs") != len(extra):
        raise lib.ToolError(f"driver executed {d.get('programs')} of {len(extra)} extra programs")
    traces["extra"] = trace
    _, dn = lib.count_distinct(p)
    total += len(extra)
    distinct += dn
    faults = {"runs": 0, "inputs": 0, "verified_outside_judged_regions": 0}
    for line in lib.read_lines(trace):
        if '"op":"fault"' in line:
            e = json.loads(line)
            faults["runs"] += 1
            faults["inputs"] += len(e["codes"])
            faults["verified_outside_judged_regions"] += sum(1 for c in e["codes"] if c == 2)
    ctx.cov["fault_enumeration"] = faults
    judge_and_classify(ctx, trace, f"faults, fixtures, random seed={ctx.seed}", kd, max_events=400)
    selftest(ctx, traces, kd)
    ctx.cov["actions_never_taken"] = sorted(k for k, n in ctx.cov.get("events_by_kind", {}).items() if n == 0)
    if ctx.cov["actions_never_taken"]:
        raise lib.ToolError(f"operations / answers never exercised on the real code: {ctx.cov['actions_never_taken']}")
    ctx.cov["traces_validated_against_impl"] = total
    ctx.cov["evaluations"] = total
    ctx.cov["distinct_nontrivial"] = distinct
    ctx.cov["exhaustive"] = True
    ctx.cov["exhaustive_scope"] = ("MC_Signature's universe: every CMS description (certificate sets of <= 2 of 5-6 certificates x 0-2 signers "
                                   "over signer identifier x digest x key x 7 signing modes x attached content) x data; the whole MIME "
                                   "decision table; every identifier string over an 8-character alphabet up to length 2 (3) x every "
                                   "scripted answer; every endpoint x client x status; every operation sequence of length D over 4 "
                                   "operations x 4 scripts x 2 caches; every single-bit flip, proper prefix and 5 extensions of each "
                                   "base case's blob, content and response.  The seeded random damage is not exhaustive.")
    ctx.cov["related_properties"] = ["C07", "C13"]
    ctx.assumptions += [
        "TLC, the CommunityModules JSON reader and the driver's recording (result classes, md5 of returned data, commands and request "
        "lines received by the loopback mocks) are trusted",
        "the driver's own encoders and signer denote the abstract descriptions faithfully: checked at start-up against the RustCrypto "
        "crates (SHA-2, PKCS#1 v1.5 signatures), once by hand against openssl 3.5.6 (cms -verify accepts the driver's detached, "
        "attribute-carrying and attached structures), and in every run by the real code accepting the undamaged base cases and by "
        "openssl-made fixtures being judged with the same descriptions",
        "cryptography is abstract in the specification: a flipped bit in the signature value, the modulus, the exponent or the content "
        "invalidates an RSA PKCS#1 v1.5 signature (true for the fixed test keys: deterministic)",
        "certificates are self-signed test certificates: no chain, trust or revocation is modelled (the code checks none)",
        "the mocks are plain TCP / HTTP on loopback addresses of their own; TLS, DNS and redirects are not exercised",
    ]
    return lib.finish(ctx, "model_checking",
                      rule="programs = the elements of MC_Signature's universes (one call or one operation sequence each), the design-level "
                           "counterexamples, one program per fault enumeration (thousands of damaged inputs each, counted in "
                           "fault_enumeration.inputs), openssl-made fixtures, seeded random damage; distinct = distinct program texts (md5)")
