"""C17 - the LRU tracker keeps recency order and its full capacity over any history.

spec/Lru.tla (property level) -> MC_Lru enumerates all programs up to a depth (binding G),
drv_lru executes them on the real LruManager, T_Lru judges every event (binding T).
"""
import json, os
from . import lib

MODULE_MC = "MC_Lru"
MODULE_T = "T_Lru"


def program_of(evs):
    if not evs:
        return None
    ops = []
    for e in evs[1:]:
        ops.append({k: v for k, v in e.items() if k not in ("res", "obs", "seq")})
    return {"cap": evs[0].get("cap"), "ops": ops}


def mc_and_run(ctx, family, cap, depth, kd):
    cfg = ctx.path(f"mc_{family}_{cap}.cfg")
    # family "recap": the directory is reopened by a tracker of another capacity (every capacity 1..3 but the first one)
    recaps = "{" + ", ".join(str(c) for c in (1, 2, 3) if c != cap) + "}" if family == "recap" else "{}"
    lib.write_cfg(cfg, {"Keys": "{a, b, c}" if family == "mem" else "{a, b}", "ZKeys": "{z}", "Cap": cap, "D": depth,
                        "Family": f'"{family}"', "ReCaps": recaps},
                  "MCInit", "MCNext", symmetry="Sym", constraints=["Constr"],
                  invariants=(["BoundedNow", "Distinct", "FilesFn", "TouchAllNow", "CapKeptNow", "SaveLoadNow", "Emit"] if family == "recap" else
                              ["Bounded", "Distinct", "FilesFn", "TouchAll", "CapKept", "SaveLoadId", "Emit"]))
    progs = ctx.path(f"prog_{family}_{cap}.ndjson")
    r = lib.tlc(ctx, MODULE_MC, cfg, tagged_out={"PROGRAM": progs}, timeout=1500, coverage=False)
    ctx.cov["states"] += r["distinct"]
    ctx.cov["transitions"] += r["generated"]
    n = r["counts"]["PROGRAM"]
    ctx.stage("mc", family=family, cap=cap, depth=depth, distinct_states=r["distinct"], programs=n, wall_s=r["wall_s"])
    trace = ctx.path(f"trace_{family}_{cap}.ndjson")
    d = lib.run_sharded(ctx, "drv_lru", progs, trace, shards=12)
    ctx.stage("run", family=family, cap=cap, programs=d.get("programs"), events=d.get("events"), wall_s=d["wall_s"])
    if d.get("programs") != n:
        raise lib.ToolError(f"driver executed {d.get('programs')} of {n} programs")
    return progs, trace, n


def judge_trace(ctx, trace, source, kd):
    cfg = ctx.path("t_lru.cfg")
    lib.write_cfg(cfg, {"KnownDeviations": lib.tla_set(kd), "Cap": 0}, "TInit", "TNext", invariants=["Done"])
    v = lib.judge(ctx, MODULE_T, cfg, trace)
    ctx.stage("judge", source=source, events=v["events"], violations=len(v["violations"]), deviations=len(v["deviations"]), wall_s=v["wall_s"])
    lib.classify_trace(ctx, v, trace, source, program_of=program_of)
    return v


def replay(ctx, kd):
    obj = json.load(open(ctx.replay))
    prog = obj["program"]
    p = ctx.path("replay_prog.ndjson")
    open(p, "w").write(json.dumps(prog) + "\n")
    trace = ctx.path("replay_trace.ndjson")
    lib.run_driver("drv_lru", ["--programs", p, "--out", trace])
    v = judge_trace(ctx, trace, "replay", kd)
    print(open(trace).read())
    print(json.dumps(v))
    return 1 if v["violations"] else 0


def selftest(ctx, trace, kd):
    """Binding self-test: corrupt one observation / drop one event -> the monitor must flag it."""
    lines = lib.read_lines(trace)[:4000]
    # (a) corrupt: reverse an observed order of length >= 2
    ia = next(i for i, l in enumerate(lines) if '"order":["' in l and len(json.loads(l)["obs"]["order"]) >= 2)
    e = json.loads(lines[ia]); e["obs"]["order"] = e["obs"]["order"][::-1]
    la = list(lines); la[ia] = json.dumps(e, separators=(",", ":"))
    pa = ctx.path("selftest_a.ndjson"); open(pa, "w").write("\n".join(la) + "\n")
    # (b) drop an event that is not a run boundary
    ib = next(i for i, l in enumerate(lines) if i > 50 and not lib.is_new(l) and not lib.is_new(lines[i + 1]))
    lb = list(lines); del lb[ib]
    pb = ctx.path("selftest_b.ndjson"); open(pb, "w").write("\n".join(lb) + "\n")
    cfg = ctx.path("t_lru.cfg")
    va = lib.tlc_trace(ctx, MODULE_T, cfg, pa)
    vb = lib.tlc_trace(ctx, MODULE_T, cfg, pb)
    base = lib.tlc_trace(ctx, MODULE_T, cfg, (lambda p: (open(p, "w").write("\n".join(lines) + "\n"), p)[1])(ctx.path("selftest_0.ndjson")))
    ok_a = (ia + 1) in va["violations"] and (ia + 1) not in base["violations"]
    ok_b = (ib + 1) in vb["violations"] and len(vb["violations"]) > len(base["violations"])
    res = {"corrupt_one_field_flagged": ok_a, "drop_one_event_flagged": ok_b}
    ctx.cov["binding_selftest"] = res
    if not (ok_a and ok_b):
        raise lib.ToolError(f"binding self-test failed: {res}")


def impl_model(ctx):
    """Code-shaped model LruImpl.tla (slots / free list / linked list / checkpoint file): TLC explores its COMPLETE state
    space (no depth bound) and checks that it refines the textbook operations of Lru.tla and never leaks a slot;
    the pinned (pre-fix) variants must be refuted (regenerates the F17a / F17b counterexamples, anti-vacuity)."""
    invs = ["TypeOK", "WalkTerminates", "WalkIsKeymap", "NoSlotLeaked", "FreeDisjoint"]
    props = ["RefinesTouch", "RefinesRemove", "RefinesEvict", "RefinesLoad", "RefinesReopen"]
    out = {}
    ALLC = "{1, 2, 3}"     # the directory is reopened by trackers of every capacity 1..3
    for cap, caps, variant, expect in [(1, "{}", "{}", False), (2, "{}", "{}", False), (3, "{}", "{}", False), (2, ALLC, "{}", False)] + \
                                      ([] if ctx.quick else [(4, "{}", "{}", False), (3, "{1, 2, 3, 4}", "{}", False)]) + \
                                      [(2, "{}", '{"evict_leaks"}', True), (2, "{}", '{"zero_is_empty"}', True), (2, ALLC, '{"load_adopts_size"}', True)]:
        cfg = ctx.path(f"lruimpl_{cap}_{len(out)}.cfg")
        lib.write_cfg(cfg, {"Cap": cap, "Caps": caps, "Keys": '{"a", "b", "c", "z"}', "ZKey": '"z"', "Variant": variant}, None, None,
                      specification="Spec", invariants=invs, properties=props)
        r = lib.tlc(ctx, "LruImpl", cfg, timeout=1500, workers=min(lib.NCPU, 8), expect_violation=True)
        refuted = bool(r["invariant_violated"]) or r["property_violated"]
        out[f"Cap={cap} Caps={caps} Variant={variant}"] = {"distinct_states": r["distinct"], "refuted": refuted}
        if not expect:
            ctx.cov["states"] += r["distinct"]
            ctx.cov["transitions"] += r["generated"]
        if refuted != expect:
            raise lib.ToolError(f"LruImpl Cap={cap} Caps={caps} Variant={variant}: refuted={refuted}, expected {expect} - the code-shaped model no longer "
                                "matches its specification (model or spec out of date)")
    ctx.cov["impl_model"] = out
    ctx.stage("impl-model", **{k.replace(" ", "_").replace(",", ""): v["distinct_states"] for k, v in out.items()})


def run(ctx):
    kd = lib.known_ids(ctx, "C17")
    lib.build(["drv_lru"])
    if ctx.replay:
        return replay(ctx, kd)
    if ctx.quick:
        plan = [("mem", 1, 4), ("mem", 2, 5), ("mem", 3, 5), ("disk", 1, 4), ("disk", 2, 4), ("recap", 1, 5), ("recap", 2, 5)]
        nrand, rlen = 300, 200
    else:
        plan = [("mem", 0, 4), ("mem", 1, 5), ("mem", 2, 6), ("mem", 3, 5), ("disk", 0, 4), ("disk", 1, 5), ("disk", 2, 5), ("disk", 3, 4),
                ("recap", 1, 6), ("recap", 2, 6), ("recap", 3, 6)]
        nrand, rlen = 3000, 300
    if os.environ.get("VERIF_C17_ONLY") == "recap":      # development aid
        plan = [p for p in plan if p[0] == "recap"]
        nrand = 50
    else:
        impl_model(ctx)
    total_programs = 0
    distinct = 0
    first_trace = None
    for family, cap, depth in plan:
        progs, trace, n = mc_and_run(ctx, family, cap, depth, kd)
        total_programs += n
        _, dn = lib.count_distinct(progs)
        distinct += dn
        if not ctx.cov["samples"] or family == "disk" and len(ctx.cov["samples"]) < 3:
            ls = lib.read_lines(trace)
            s, e = lib.run_of_line(ls, min(len(ls), 2000))
            ctx.cov["samples"].append({"source": f"MC_Lru {family} cap={cap}", "trace": [json.loads(x) for x in ls[s:e]]})
        judge_trace(ctx, trace, f"MC_Lru family={family} cap={cap} depth={depth}", kd)
        if first_trace is None and cap >= 2:
            first_trace = trace
            selftest(ctx, trace, kd)
        else:
            os.remove(trace)
        os.remove(progs)
    # long random histories, larger capacities
    trace = ctx.path("trace_random.ndjson")
    dump = ctx.path("prog_random.ndjson")
    d = lib.run_driver("drv_lru", ["--random", nrand, "--len", rlen, "--out", trace, "--dump-programs", dump], env={"VERIF_SEED": ctx.seed})
    ctx.stage("run", source="random", programs=d.get("programs"), events=d.get("events"), wall_s=d["wall_s"])
    _, dn = lib.count_distinct(dump)
    judge_trace(ctx, trace, f"random seed={ctx.seed}", kd)
    total_programs += nrand
    distinct += dn
    ctx.cov["traces_validated_against_impl"] = total_programs
    ctx.cov["evaluations"] = total_programs
    ctx.cov["distinct_nontrivial"] = distinct
    ctx.cov["exhaustive"] = True
    ctx.cov["exhaustive_scope"] = "all operation sequences of the listed depth per (family, capacity), modulo permutation of the ordinary keys; the random tier is not exhaustive"
    ctx.assumptions += ["TLC, the CommunityModules Json reader and the driver's projection (for_each_entry / contains / len / directory listing) are trusted",
                        "capacities > 3 and histories longer than the depth bound are covered by seeded random programs only"]
    return lib.finish(ctx, "model_checking",
                      rule="programs = complete operation sequences of length D over the family's alphabet enumerated by TLC from Lru.tla (history variable, symmetry on ordinary keys) plus seeded random programs; distinct = distinct program texts (md5), every program has >= 4 operations so all are non-trivial")
