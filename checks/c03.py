"""C03 - content resolution finds exactly what was indexed.

spec/Resolve.tla (map model + capacity arithmetic of the formats + code-shaped model of the paged structures)
 -> MC_Resolve "design": Insert/Build/Lookup checked exhaustively on small constants (and the model-level witnesses
    of F03b / F03c regenerated with Defects)
 -> MC_Resolve "gen": one program <kind, configuration, population, key layout, probes> per boundary population of
    every configuration (binding G)
 -> drv_resolve builds, serialises, parses and queries the real structures
 -> T_Resolve judges every lookup flavour of every probe against the map (binding T).
"""
import glob, json, os, random
from concurrent.futures import ThreadPoolExecutor
from . import lib

MODULE_MC = "MC_Resolve"
MODULE_T = "T_Resolve"
DRV = "drv_resolve"
ALL_KINDS = ["aidx", "agroup", "enc", "root", "chain", "tvfs"]
STAT_KEYS = ("runs", "lookups", "flavours", "hits", "refusals", "open")


# --------------------------------------------------------------------------- known findings
def known(ctx):
    """findings.d/F03*.json is the source KNOWN_FINDINGS.json is generated from (bin/mkmanifest); reading it
    directly keeps the check independent of when that ran."""
    ids = set(lib.known_ids(ctx, "C03"))
    listed = {f["id"] for f in ctx.known.get("findings", [])}
    for p in sorted(glob.glob(os.path.join(lib.ROOT, "findings.d", "F03*.json"))):
        f = json.load(open(p))
        if f.get("property") != "C03":
            continue
        if f.get("status", "known") == "known":
            ids.add(f["id"])
            if f["id"] not in listed:
                ctx.known.setdefault("findings", []).append(f)
        else:
            ids.discard(f["id"])
    assume = os.environ.get("VERIF_C03_ASSUME_FIXED", "")      # development aid: judge a patched tree strictly
    for fid in assume.replace(",", " ").split():
        ids.discard(fid)
    return sorted(ids)


def program_of(evs):
    if not evs:
        return None
    return {k: v for k, v in evs[0].items() if k != "op"}


def slim(ev, cap=12):
    if isinstance(ev, dict):
        return {k: slim(v, cap) for k, v in ev.items()}
    if isinstance(ev, list):
        return [slim(x, cap) for x in ev[:cap]] + ([f"... {len(ev) - cap} more"] if len(ev) > cap else [])
    return ev


# --------------------------------------------------------------------------- stages
def design_mc(ctx):
    """Part 2 of Resolve.tla on small constants; then the witnesses of the model-level findings."""
    cfg = ctx.path("mc_design.cfg")
    consts = {"Tier": '"quick"', "Kinds": "{}", "Defects": "{}"}
    lib.write_cfg(cfg, consts, "DInit", "DNext", invariants=["BuildTotal", "Stored", "ResOK", "AllKeys"])
    r = lib.tlc(ctx, MODULE_MC, cfg, timeout=1500, coverage=not ctx.quick)
    ctx.cov["states"] += r["distinct"]
    ctx.cov["transitions"] += r["generated"]
    if not ctx.quick:
        never = [a for a in r.get("actions_never_taken", []) if a.split("!")[-1] in ("Insert", "Build", "Lookup", "DNext")]
        ctx.cov["actions_never_taken"] = never
    ctx.stage("mc_design", distinct_states=r["distinct"], generated=r["generated"], depth=r.get("depth"), wall_s=r["wall_s"])
    wit = {}
    for fid, inv in (("F03b", "BuildTotal"), ("F03c", "Stored")):
        c2 = ctx.path(f"mc_design_{fid}.cfg")
        lib.write_cfg(c2, dict(consts, Defects='{"%s"}' % fid), "DInit", "DNext", invariants=[inv])
        w = lib.tlc(ctx, MODULE_MC, c2, timeout=900, expect_violation=True)
        wit[fid] = {"invariant": inv, "refuted": inv in w["invariant_violated"]}
        if not wit[fid]["refuted"]:
            raise lib.ToolError(f"model witness of {fid}: TLC did not refute {inv} with Defects = {{{fid}}}")
    c3 = ctx.path("mc_merge.cfg")
    lib.write_cfg(c3, consts, "MInit", "GNext", invariants=["MergeInv"])
    m = lib.tlc(ctx, MODULE_MC, c3, timeout=900)
    ctx.cov["states"] += m["distinct"]
    ctx.cov["transitions"] += m["generated"]
    ctx.stage("mc_merge", distinct_states=m["distinct"], wall_s=m["wall_s"])
    ctx.cov["model_witness"] = wit
    ctx.stage("mc_witness", **{k: v["refuted"] for k, v in wit.items()})


def gen_programs(ctx, kinds, tier):
    cfg = ctx.path("mc_gen.cfg")
    lib.write_cfg(cfg, {"Tier": f'"{tier}"', "Kinds": lib.tla_set(kinds), "Defects": "{}"}, "GInit", "GNext", invariants=["Emit"])
    progs = ctx.path("programs.ndjson")
    r = lib.tlc(ctx, MODULE_MC, cfg, tagged_out={"PROGRAM": progs}, timeout=1500)
    n = r["counts"]["PROGRAM"]
    ctx.cov["states"] += r["distinct"]
    ctx.cov["transitions"] += r["generated"]
    ctx.stage("mc_gen", tier=tier, programs=n, distinct_states=r["distinct"], wall_s=r["wall_s"])
    if n != r["distinct"]:
        raise lib.ToolError(f"MC_Resolve printed {n} programs for {r['distinct']} initial states")
    # TLC prints in worker order: sort for determinism, then interleave kinds so that shards are balanced
    lines = sorted(lib.read_lines(progs))
    random.Random(ctx.seed).shuffle(lines)
    open(progs, "w").write("\n".join(lines) + "\n")
    return progs, n


# --------------------------------------------------------------------------- seeded programs (same schema as MC_Resolve's)
def probe_list(rng, n, lay, k=10):
    if n == 0:
        return [] if lay == "ends" else [1]
    ranks = {0, n - 1} | {rng.randrange(n) for _ in range(k)}
    s = {a for r in ranks for a in (2 * r - 1, 2 * r, 2 * r + 1) if 0 <= a <= 2 * n - 1 and not (lay == "ends" and a == 2 * n - 1)}
    out = sorted(s)
    rng.shuffle(out)
    return out


def random_programs(ctx, count):
    """Populations that are NOT page boundaries: random sizes up to three pages, random configuration."""
    rng = random.Random(ctx.seed * 7919 + 3)
    lays, ords, vps = ["spread", "prefix", "ends"], ["asc", "desc", "rot"], ["lo", "hi"]
    progs = []
    for i in range(count):
        kind = ALL_KINDS[i % len(ALL_KINDS)]
        lay, ord_, vp = rng.choice(lays), rng.choice(ords), rng.choice(vps)
        if kind == "aidx":
            ks, ow = rng.randint(1, 16), rng.choice([4, 5, 6])
            cap = 4096 // (ks + 4 + ow)
            n = min(rng.randint(0, 3 * cap), 128 if ks == 1 else 32768)
            p = {"kind": kind, "ks": ks, "ow": ow, "n": n, "lay": lay, "vp": vp, "ord": ord_,
                 "ser": rng.choice(["builder", "builder", "build"]), "probes": probe_list(rng, n, lay)}
        elif kind == "agroup":
            n = rng.randint(0, 700)
            path = rng.choice(["builder", "merged"])
            p = {"kind": kind, "n": n, "srcs": rng.randint(1, 5), "path": path, "dup": rng.choice([0, 0, 1, 2, 5]), "lay": lay, "vp": vp, "ord": ord_,
                 "probes": probe_list(rng, n, lay)}
        elif kind == "enc":
            kbc, kbe, nek = rng.choice([1, 2, 4]), rng.choice([1, 2, 4]), rng.choice([1, 1, 2, 3, 5])
            n = rng.randint(0, 3 * (1024 * kbc // (22 + 16 * nek)))
            m = rng.randint(0, 3 * (1024 * kbe // 25))
            p = {"kind": kind, "kbc": kbc, "kbe": kbe, "nek": nek, "n": n, "m": m, "lay": lay, "vp": vp, "ord": ord_,
                 "ser": rng.choice(["raw", "raw", "blte"]), "probes": probe_list(rng, n, lay), "eprobes": probe_list(rng, m, lay)}
        elif kind in ("root", "chain"):
            n = rng.randint(0 if kind == "root" else 1, 260)
            rl = rng.choice(["dense", "gap", "ends"])
            p = {"kind": kind, "ver": rng.randint(1, 4), "n": n, "named": n if kind == "chain" else rng.randint(0, n), "lay": rl,
                 "blocks": rng.choice([1, 2, 3]), "style": rng.choice(["norm", "raw"]), "nnh": rng.choice(["flag", "plain"]), "ord": ord_, "probes": probe_list(rng, n, rl)}
            if kind == "chain":
                p.update({"vp": vp, "kbc": rng.choice([1, 4]), "kbe": 1})
        else:
            n = rng.randint(0, 400)
            nest = rng.choice([0, 0, 3, 9])
            flags = rng.randint(0, 7)
            p = {"kind": kind, "flags": flags, "shape": rng.choice(["flat", "deep", "wide", "pfx", "sep"]), "n": n,
                 "namelen": rng.choice([0, 0, 0, 40, 254]), "nest": nest if flags & 2 else 0,
                 "estlen": rng.randint(7, 30) if (flags & 2 and nest) else 0, "ord": ord_, "probes": probe_list(rng, n, "flat")}
        progs.append(p)
    path = ctx.path("programs_random.ndjson")
    open(path, "w").write("\n".join(json.dumps(p, separators=(",", ":")) for p in progs) + "\n")
    return path, len(progs)


def write_tcfg(ctx, kd):
    cfg = ctx.path("t_resolve.cfg")
    lib.write_cfg(cfg, {"KnownDeviations": lib.tla_set(kd), "Defects": "{}"}, "TInit", "TNext", invariants=["Done"])
    return cfg


def judge_trace(ctx, trace, source, kd, totals):
    cfg = write_tcfg(ctx, kd)
    with open(trace) as f:
        n = sum(1 for _ in f)
    max_events = max(2000, n // (2 * lib.NCPU) + 1)
    v = lib.judge(ctx, MODULE_T, cfg, trace, max_events=max_events, heap="2g")
    for k in STAT_KEYS:
        totals[k] = totals.get(k, 0) + v.get(k, 0)
    ctx.stage("judge", source=source, events=v["events"], violations=len(v["violations"]), deviations=len(v["deviations"]),
              wall_s=v["wall_s"], **{k: v.get(k, 0) for k in STAT_KEYS if v.get(k, 0)})
    lib.classify_trace(ctx, v, trace, source, program_of=program_of)
    if v.get("open", 0):
        raise lib.ToolError("a run of the trace has no end event (driver died?)")
    return v


def execute(ctx, progs, n, source, kd, totals, name="trace"):
    trace = ctx.path(f"{name}.ndjson")
    d = lib.run_sharded(ctx, DRV, progs, trace, shards=min(lib.NCPU, 12), timeout=1500)
    ctx.stage("run", source=source, programs=d.get("programs"), events=d.get("events"), hangs=d.get("hangs"), wall_s=d["wall_s"])
    if d.get("programs") != n:
        raise lib.ToolError(f"driver executed {d.get('programs')} of {n} programs")
    v = judge_trace(ctx, trace, source, kd, totals)
    return trace, v


def replay(ctx, kd):
    obj = json.load(open(ctx.replay))
    prog = obj.get("program") or obj.get("witness", {}).get("program")
    if prog is None:
        raise lib.ToolError("replay file has no program")
    p = ctx.path("replay_prog.ndjson")
    open(p, "w").write(json.dumps(prog) + "\n")
    trace = ctx.path("replay_trace.ndjson")
    lib.run_driver(DRV, ["--programs", p, "--out", trace])
    totals = {}
    v = judge_trace(ctx, trace, "replay", kd, totals)
    print(open(trace).read())
    print(json.dumps({k: v[k] for k in ("events", "violations", "deviations")}))
    return 1 if v["violations"] else 0


def selftest(ctx, trace, kd):
    """Binding self-test: corrupt one logged result / drop one event -> the monitor must flag exactly that."""
    lines = lib.read_lines(trace)[:6000]
    # cut at a run boundary
    while lines and '"op":"end"' not in lines[-1]:
        lines.pop()
    cfg = write_tcfg(ctx, kd)
    p0 = ctx.path("selftest_0.ndjson")
    open(p0, "w").write("\n".join(lines) + "\n")
    base = lib.tlc_trace(ctx, MODULE_T, cfg, p0)
    flagged = set(base["violations"]) | {d[0] for d in base["deviations"]}
    # (a) a present key answered by one flavour with the value of another key
    ia = None
    for i, l in enumerate(lines):
        if '"op":"lookup"' in l and (i + 1) not in flagged:
            e = json.loads(l)
            fls = [f for f, v in e["r"].items() if v]
            if fls:
                ia = i
                f = sorted(fls)[0]
                e["r"][f] = [e["r"][f][0] + "0"]
                break
    if ia is None:
        raise lib.ToolError("self-test: no conforming lookup with a hit in the sample")
    la = list(lines)
    la[ia] = json.dumps(e, separators=(",", ":"))
    pa = ctx.path("selftest_a.ndjson")
    open(pa, "w").write("\n".join(la) + "\n")
    # (a') an absent key answered with something
    iz = next(i for i, l in enumerate(lines) if '"op":"lookup"' in l and (i + 1) not in flagged and i > ia
              and all(not v for v in json.loads(l)["r"].values()))
    ez = json.loads(lines[iz])
    fz = sorted(ez["r"])[0]
    ez["r"][fz] = ["1:7"]
    lz = list(lines)
    lz[iz] = json.dumps(ez, separators=(",", ":"))
    pz = ctx.path("selftest_z.ndjson")
    open(pz, "w").write("\n".join(lz) + "\n")
    # (b) drop a lookup event
    ib = next(i for i, l in enumerate(lines) if i > 40 and '"op":"lookup"' in l and (i + 1) not in flagged)
    lb = list(lines)
    del lb[ib]
    pb = ctx.path("selftest_b.ndjson")
    open(pb, "w").write("\n".join(lb) + "\n")
    with ThreadPoolExecutor(max_workers=3) as ex:
        va, vz, vb = list(ex.map(lambda q: lib.tlc_trace(ctx, MODULE_T, cfg, q), [pa, pz, pb]))
    res = {"corrupt_hit_flagged": va["violations"] == sorted(set(base["violations"]) | {ia + 1}),
           "invented_hit_flagged": vz["violations"] == sorted(set(base["violations"]) | {iz + 1}),
           "drop_one_event_flagged": len(vb["violations"]) > len(base["violations"])}
    ctx.cov["binding_selftest"] = res
    ctx.stage("selftest", **res)
    if not all(res.values()):
        raise lib.ToolError(f"binding self-test failed: {res}")


def run(ctx):
    kd = known(ctx)
    lib.build([DRV])
    if ctx.replay:
        return replay(ctx, kd)
    totals = {}
    design_mc(ctx)
    tier = "quick" if ctx.quick else "thorough"
    progs, n = gen_programs(ctx, ALL_KINDS, tier)
    _, distinct = lib.count_distinct(progs)
    per_kind = {}
    nontrivial = 0
    for line in lib.read_lines(progs):
        p = json.loads(line)
        per_kind[p["kind"]] = per_kind.get(p["kind"], 0) + 1
        if p["n"] > 0 and p["probes"]:
            nontrivial += 1
    trace, v = execute(ctx, progs, n, f"MC_Resolve tier={tier}", kd, totals)
    ls = lib.read_lines(trace)
    for frac in (0.1, 0.35, 0.6, 0.85):
        s, e = lib.run_of_line(ls, max(1, int(len(ls) * frac)))
        ctx.cov["samples"].append({"source": f"MC_Resolve tier={tier}", "trace": [slim(json.loads(x)) for x in ls[s:e]][:6]})
    selftest(ctx, trace, kd)
    rprogs, rn = random_programs(ctx, 300 if ctx.quick else 4000)
    _, rdistinct = lib.count_distinct(rprogs)
    rnontrivial = sum(1 for line in lib.read_lines(rprogs) if json.loads(line)["n"] > 0 and json.loads(line)["probes"])
    execute(ctx, rprogs, rn, f"seeded seed={ctx.seed}", kd, totals, name="trace_random")
    if totals.get("runs") != n + rn:
        raise lib.ToolError(f"monitor saw {totals.get('runs')} runs for {n + rn} programs")
    if not totals.get("hits") or totals.get("hits") == totals.get("lookups"):
        raise lib.ToolError("vacuous run: positive and negative probes must both occur")
    ctx.cov["programs_by_kind"] = per_kind
    ctx.cov["lookup_events"] = totals.get("lookups", 0)
    ctx.cov["flavour_results_judged"] = totals.get("flavours", 0)
    ctx.cov["present_key_probes"] = totals.get("hits", 0)
    ctx.cov["absent_key_probes"] = totals.get("lookups", 0) - totals.get("hits", 0)
    ctx.cov["refused_builds"] = totals.get("refusals", 0)
    ctx.cov["traces_validated_against_impl"] = n + rn
    ctx.cov["programs_enumerated_by_tlc"] = n
    ctx.cov["programs_seeded"] = rn
    ctx.cov["evaluations"] = totals.get("flavours", 0)
    ctx.cov["distinct_nontrivial"] = min(distinct, nontrivial) + min(rdistinct, rnontrivial)
    ctx.cov["exhaustive"] = True
    ctx.cov["exhaustive_scope"] = ("design level: every map over 6 keys x 2 values, every listed small configuration, every lookup; "
                                   "conformance: every boundary population {0,1,2,P-1,P,P+1,2P,2P+1} of every listed configuration x "
                                   "3 key layouts, probed at every page edge with both neighbours - populations are enumerated, not all key sets")
    ctx.assumptions += [
        "TLC, the CommunityModules Json reader and SequencesExt!SetToSortSeq are trusted",
        "the driver's concretisation (abstract key -> key bytes / FileDataID / path, abstract key -> inserted value, result -> text) is "
        "trusted; it checks injectivity and order preservation of the key embedding for every program before building",
        "keys of a population are the even abstract numbers, probes the keys next to page boundaries and their odd neighbours: "
        "arbitrary (random) key sets are not enumerated",
        "an empty structure may be refused by builder or parser (counted in refused_builds, not judged)",
        "duplicate keys, zero encoding keys per content key and paths that are both file and directory are outside the statement",
    ]
    return lib.finish(ctx, "model_checking",
                      rule="a run = one program <kind, configuration, population size, key layout, probes> printed by TLC from MC_Resolve "
                           "(one initial state each) and executed on the real code; evaluations = flavour results judged by T_Resolve "
                           "(each lookup event carries every flavour of the API for one key); distinct = distinct program texts (md5); "
                           "non-trivial = population and probe list not empty")
