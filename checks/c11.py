"""C11 - concurrent cache use is linearizable and keeps its books.

CacheConc.tla (code-shaped model of MemoryCache, one action per stretch between sched points) is model-checked
(Books, NoLostPut) and enumerates schedules; drv_conc replays every schedule on the real MemoryCache with a
controller parking threads at the `verif-hooks` sched points; the recorded invocation/response history (+ final
sequential probes) of every run is judged by the linearizability monitor T_Lin (sequential spec Lin.tla).
DiskCache (and random unscheduled MemoryCache programs) are driven with seeded timing perturbation at the same
sched points and judged by the same monitor.
"""
import json, os, re
from concurrent.futures import ThreadPoolExecutor
from . import lib

FIXED = '{"get_remove_if", "clear_accounting", "put_count_first", "cleanup_live"}'
ALL_OPS = '{"get", "contains", "put", "put_exp", "remove", "clear"}'
OPS5 = '{"get", "put", "put_exp", "remove", "clear"}'
INIT3 = '{"none", "live", "exp"}'


def families(quick):
    f = [dict(name="A_2x1_1key_all", Tasks="{1, 2}", Keys="{1}", n=1, MaxPre=99, InitKinds=INIT3, OpNames=ALL_OPS),
         dict(name="D_2x1_2keys", Tasks="{1, 2}", Keys="{1, 2}", n=1, MaxPre=99, InitKinds='{"live", "exp"}', OpNames=OPS5)]
    if quick:
        f += [dict(name="B_2x2_1key_pre1", Tasks="{1, 2}", Keys="{1}", n=2, MaxPre=1, InitKinds=INIT3, OpNames=OPS5),
              dict(name="C_3x1_1key_pre1", Tasks="{1, 2, 3}", Keys="{1}", n=1, MaxPre=1, InitKinds=INIT3, OpNames=OPS5)]
    else:
        f += [dict(name="B_2x2_1key_pre3", Tasks="{1, 2}", Keys="{1}", n=2, MaxPre=3, InitKinds=INIT3, OpNames=OPS5),
              dict(name="C_3x1_1key_pre3", Tasks="{1, 2, 3}", Keys="{1}", n=1, MaxPre=3, InitKinds=INIT3, OpNames=OPS5),
              dict(name="E_2x3_1key_pre1", Tasks="{1, 2}", Keys="{1}", n=3, MaxPre=1, InitKinds='{"none", "exp"}', OpNames='{"get", "put", "put_exp", "remove"}'),
              dict(name="F_2x2_2keys_pre1", Tasks="{1, 2}", Keys="{1, 2}", n=2, MaxPre=1, InitKinds='{"live", "exp"}', OpNames='{"get", "put", "remove", "clear"}')]
    return f


def sweep_families(quick):
    """DiskCache::new_with_cleanup: task 1 plays the background cleanup task (one "sweep" = one tick)."""
    ops = '{"get", "put", "put_exp", "remove", "clear", "sweep"}'
    f = [dict(name="S_sweep2_vs_2ops_1key", Tasks="{1, 2}", Keys="{1}", n=2, MaxPre=2 if quick else 99, InitKinds=INIT3, OpNames=ops, SweepTasks="{1}"),
         dict(name="S_sweep1_vs_1op_2keys", Tasks="{1, 2}", Keys="{1, 2}", n=1, MaxPre=99, InitKinds='{"live", "exp"}', OpNames=ops, SweepTasks="{1}")]
    if not quick:
        f.append(dict(name="S_sweep1_vs_2x1_1key", Tasks="{1, 2, 3}", Keys="{1}", n=1, MaxPre=99, InitKinds=INIT3, OpNames=ops, SweepTasks="{1}"))
    return f


def judge_lin(ctx, trace, kd, chunk=6000):
    """Returns (n_runs, strict_ok:set, relaxed_ok:dict run->list, states, transitions). Run numbers are 1-based lines of `trace`."""
    lines = lib.read_lines(trace)
    cfg = ctx.path("t_lin_" + os.path.basename(trace).replace(".ndjson", "") + ".cfg")     # one per trace: batches run side by side
    lib.write_cfg(cfg, {"KnownDeviations": lib.tla_set(kd)}, "TInit", "TNext", invariants=["Emit", "Count"])
    parts = []
    for i in range(0, len(lines), chunk):
        p = f"{trace}.c{i}"
        open(p, "w").write("\n".join(lines[i:i + chunk]) + "\n")
        parts.append((i, p))

    def one(part):
        off, p = part
        r = lib.tlc(ctx, "T_Lin", cfg, workers=2, timeout=1500, env={"TRACE": p}, heap="4g")
        n = r["tagged"].get("RUNS", [{"n": -1}])[-1]["n"]
        os.remove(p)
        return off, n, r["tagged"].get("LINOK", []), r["distinct"], r["generated"]

    with ThreadPoolExecutor(max_workers=max(1, lib.NCPU // 2)) as ex:
        res = list(ex.map(one, parts))
    strict, relaxed, states, trans, total = set(), {}, 0, 0, 0
    for off, n, oks, d, g in res:
        total += n
        states += d
        trans += g
        for o in oks:
            if o["relax"]:
                relaxed.setdefault(off + o["run"], sorted(o["relax"]))
            else:
                strict.add(off + o["run"])
    if total != len(lines):
        raise lib.ToolError(f"T_Lin read {total} of {len(lines)} runs")
    return len(lines), strict, relaxed, states, trans


def classify(ctx, trace, source, n, strict, relaxed, max_reports=4):
    lines = None
    bad = [i for i in range(1, n + 1) if i not in strict]
    reported = 0
    for i in bad:
        if i in relaxed:
            for fid in relaxed[i]:
                lib.note_known(ctx, fid)
                ctx.cov["deviations_observed"][fid] = ctx.cov["deviations_observed"].get(fid, 0) + 1
            continue
        if lines is None:
            lines = lib.read_lines(trace)
        run = json.loads(lines[i - 1])
        if reported < max_reports:
            lib.report_violation(ctx, f"{source}: run {i} is not linearizable w.r.t. Lin.tla (or an operation failed / books are off at quiescence)",
                                 {"property": "C11", "source": source, "program": {k: run[k] for k in ("init", "progs", "sched", "target") if k in run},
                                  "history": run["ops"], "followed_schedule": run.get("followed"),
                                  "explanation": "TLC found no order of the operations, consistent with real-time order, in which the sequential cache specification produces these results"})
        reported += 1
    return len(bad), reported


MODELS = {"mem": dict(module="MC_CacheConc", variant=FIXED, invariants=["Books", "NeverNegative", "Emit"], properties=["NoLostPut"]),
          "disk": dict(module="MC_DiskConc", variant="{}", invariants=["Books", "NeverNegative", "IndexMatchesFile", "Emit"],
                       properties=["NoLostPut", "NoExpiredServed"])}
MODELS["diskc"] = MODELS["disk"]
MODELS["memc"] = dict(MODELS["mem"], invariants=["Books", "NeverNegative", "SweepClean", "Emit"])


def mem_family(ctx, fam, kd, target="mem"):
    M = MODELS[target]
    fam = dict(fam, name=f"{target}_{fam['name']}")
    cfg = ctx.path(f"mc_{fam['name']}.cfg")
    consts = {"Tasks": fam["Tasks"], "Keys": fam["Keys"], "MaxOps": fam["n"], "OpsPerTask": fam["n"], "Variant": M["variant"],
              "MaxPre": fam["MaxPre"], "InitKinds": fam["InitKinds"], "OpNames": fam["OpNames"]}
    consts["SweepTasks"] = fam.get("SweepTasks", "{}")
    lib.write_cfg(cfg, consts,
                  "MCInit", "MCNext", invariants=M["invariants"], properties=M["properties"], constraints=["PreBound"])
    progs = ctx.path(f"sched_{fam['name']}.ndjson")
    r = lib.tlc(ctx, M["module"], cfg, tagged_out={"PROGRAM": progs}, timeout=1500, workers=min(lib.NCPU, 12))
    n = r["counts"]["PROGRAM"]
    ctx.cov["states"] += r["distinct"]
    ctx.cov["transitions"] += r["generated"]
    ctx.stage("mc", family=fam["name"], distinct_states=r["distinct"], schedules=n, wall_s=r["wall_s"])
    trace = ctx.path(f"trace_{fam['name']}.ndjson")
    d = lib.run_sharded(ctx, "drv_conc", progs, trace, extra_args=["--target", target], shards=12)
    if d.get("programs") != n:
        raise lib.ToolError(f"drv_conc executed {d.get('programs')} of {n} schedules")
    followed = sum(1 for l in open(trace) if '"followed":true' in l)
    agree = 0
    for l in open(trace):
        run = json.loads(l)
        m = run.get("model")
        if m and run.get("followed"):
            finals = [o for o in run["ops"] if o["t"] == 0 and o["i"] >= 100]
            gets = [o["rv"] for o in finals if o["op"] == "get"]
            # the model's final map holds ids (0 = absent; an expired entry reads as absent)
            size = next(o["rv"] for o in finals if o["op"] == "size")
            agree += int(len(gets) == len(m["map"]) and size == sum(1 for g in gets if g != 0))
    ctx.stage("run", family=fam["name"], schedules=n, followed=followed, hangs=d.get("hangs", 0), wall_s=d["wall_s"])
    nr, strict, relaxed, st, tr = judge_lin(ctx, trace, kd)
    bad, _ = classify(ctx, trace, f"{M['module']} {fam['name']}", nr, strict, relaxed)
    ctx.stage("judge", family=fam["name"], runs=nr, linearizable=len(strict), not_linearizable=bad, monitor_states=st)
    ctx.cov["monitor_states"] = ctx.cov.get("monitor_states", 0) + st
    ctx.cov["schedules_followed_exactly"] = ctx.cov.get("schedules_followed_exactly", 0) + followed
    if not ctx.cov["samples"]:
        ctx.cov["samples"].append(json.loads(lib.read_lines(trace)[min(n - 1, 333)]))
    return n, trace


def pinned_designs(ctx):
    """Model level only, informational: the pinned (pre-fix) designs must be refuted by TLC - this regenerates the
    counterexamples of F11a/F11c/F11d and shows the invariants are not vacuous."""
    out = {}
    base = dict(Tasks="{1, 2}", Keys="{1}", MaxOps=1, OpsPerTask=1, MaxPre=99, InitKinds=INIT3, OpNames=ALL_OPS, SweepTasks="{}")
    sweep_ops = '{"get", "put", "put_exp", "remove", "clear", "sweep"}'
    for module, variant, invs in [("MC_CacheConc", "{}", ["Books"]), ("MC_CacheConc", '{"get_remove_if", "clear_accounting"}', ["NeverNegative"]),
                                  ("MC_CacheConc", '{"get_remove_if", "clear_accounting", "put_count_first"}', ["SweepClean"]),
                                  ("MC_DiskConc", '{"expired_blind"}', ["Books"]), ("MC_DiskConc", '{"publish_split"}', ["IndexMatchesFile"]),
                                  ("MC_DiskConc", '{"no_recheck"}', ["Books"]), ("MC_DiskConc", '{"cleanup_late_count"}', ["NeverNegative"])]:
        cfg = ctx.path(f"pinned_{module}_{len(out)}.cfg")
        c = dict(base, Variant=variant)
        if "cleanup" in variant or "SweepClean" in invs:
            c.update(SweepTasks="{1}", OpNames=sweep_ops)
        if "SweepClean" in invs:
            c.update(Tasks="{1}")      # the cleanup task alone: a tick must leave no expired entry behind
        lib.write_cfg(cfg, c, "MCInit", "MCNext", invariants=invs)
        r = lib.tlc(ctx, module, cfg, timeout=600, workers=4, expect_violation=True)
        out[f"{module} Variant={variant}"] = r["invariant_violated"]
    ctx.cov["pinned_designs_refuted_on_model"] = out
    ctx.stage("pinned-designs", refuted=sum(1 for v in out.values() if v), of=len(out))
    if not all(out.values()):
        raise lib.ToolError(f"a pinned design was NOT refuted by TLC (vacuous invariant?): {out}")


def layered_model(ctx):
    """LayeredConc.tla (MultiLayerCacheImpl: one key, two layers, one action per call into a layer): the current design
    must satisfy NoSpuriousMiss / NoStaleRead / Settled / PutKeepsKey on every interleaving of three operations; the
    earlier designs (F11h) and the seeded put-order change must be refuted (anti-vacuity)."""
    out = {}
    for variant, expect in [("{}", False), ('{"no_second_look"}', True), ('{"remove_top_down"}', True), ('{"put_invalidates_first"}', True)]:
        cfg = ctx.path(f"layered_{len(out)}.cfg")
        lib.write_cfg(cfg, {"Tasks": "{1, 2, 3}", "Variant": variant, "InitKinds": '{"none", "l1", "l2"}'}, None, None, specification="Spec",
                      invariants=["NoSpuriousMiss", "NoStaleRead", "Settled"], properties=["PutKeepsKey"])
        r = lib.tlc(ctx, "LayeredConc", cfg, timeout=600, workers=4, expect_violation=True)
        refuted = bool(r["invariant_violated"]) or r["property_violated"]
        out[f"Variant={variant}"] = {"distinct_states": r["distinct"], "refuted": refuted}
        if not expect:
            ctx.cov["states"] += r["distinct"]
            ctx.cov["transitions"] += r["generated"]
        if refuted != expect:
            raise lib.ToolError(f"LayeredConc Variant={variant}: refuted={refuted}, expected {expect}")
    ctx.cov["layered_model"] = out
    ctx.stage("layered-model", **{k: v["distinct_states"] for k, v in out.items()})


def random_compute(ctx, target, n, tasks, ops, keys, kd, tag):
    """driver + monitor for one batch of seeded random programs (no reporting: may run in a worker thread)"""
    trace = ctx.path(f"trace_{target}_{tag}.ndjson")
    d = lib.run_driver("drv_conc", ["--target", target, "--random", n, "--tasks", tasks, "--ops", ops, "--keys", keys, "--out", trace],
                       env={"VERIF_SEED": ctx.seed + hash(tag) % 1000})
    return (target, tasks, ops, keys, trace, d) + judge_lin(ctx, trace, kd)


def random_report(ctx, job):
    target, tasks, ops, keys, trace, d, nr, strict, relaxed, st, tr = job
    bad, _ = classify(ctx, trace, f"random {target} {tasks}x{ops} keys={keys} seed={ctx.seed}", nr, strict, relaxed)
    ctx.stage("random", target=target, tasks=tasks, ops=ops, keys=keys, runs=nr, linearizable=len(strict), known_deviation=len(relaxed), not_linearizable=bad, hangs=d.get("hangs", 0))
    ctx.cov["monitor_states"] = ctx.cov.get("monitor_states", 0) + st
    if len(ctx.cov["samples"]) < 3:
        ctx.cov["samples"].append(json.loads(lib.read_lines(trace)[0]))
    return nr


def random_runs(ctx, target, n, tasks, ops, keys, kd, tag):
    return random_report(ctx, random_compute(ctx, target, n, tasks, ops, keys, kd, tag))


def random_batch(ctx, jobs, kd):
    """several batches side by side (each is one driver process + chunked monitor runs); verdicts are reported from
    the calling thread, in the order of `jobs`"""
    with ThreadPoolExecutor(max_workers=3) as ex:
        futs = [ex.submit(random_compute, ctx, *j[:5], kd, j[5]) for j in jobs]
        return sum(random_report(ctx, f.result()) for f in futs)


def selftest(ctx, trace, kd):
    """Corrupt one logged result / drop one operation in runs the monitor accepts: exactly those runs must flip."""
    lines = lib.read_lines(trace)[:300]
    p0 = ctx.path("selftest0.ndjson"); open(p0, "w").write("\n".join(lines) + "\n")
    _, base, _, _, _ = judge_lin(ctx, p0, kd)
    ia = next(i for i in sorted(base) if i >= 5)
    a = json.loads(lines[ia - 1]); [o for o in a["ops"] if o["op"] == "size"][0]["rv"] += 1; lines[ia - 1] = json.dumps(a)
    ib = next(i for i in sorted(base) if i > ia and any(o["op"] == "put" and o["t"] > 0 for o in json.loads(lines[i - 1])["ops"])
              and any(o["op"] == "get" and o["t"] == 0 and o["rv"] > 1 for o in json.loads(lines[i - 1])["ops"]))
    b = json.loads(lines[ib - 1]); fin = [o for o in b["ops"] if o["op"] == "get" and o["t"] == 0 and o["rv"] > 1][0]
    b["ops"] = [o for o in b["ops"] if not (o["op"] == "put" and o["id"] == fin["rv"])]; lines[ib - 1] = json.dumps(b)
    p = ctx.path("selftest.ndjson"); open(p, "w").write("\n".join(lines) + "\n")
    nr, strict, relaxed, _, _ = judge_lin(ctx, p, kd)
    res = {"corrupt_one_field_flagged": ia not in strict, "drop_one_event_flagged": ib not in strict,
           "untouched_runs_unchanged": strict == base - {ia, ib}}
    ctx.cov["binding_selftest"] = res
    if not all(res.values()):
        raise lib.ToolError(f"binding self-test failed: {res}")


def replay(ctx, kd):
    obj = json.load(open(ctx.replay))
    prog = obj["program"]
    p = ctx.path("replay_prog.ndjson")
    open(p, "w").write(json.dumps({k: v for k, v in prog.items() if k != "target"}) + "\n")
    trace = ctx.path("replay_trace.ndjson")
    bad_total = 0
    for _ in range(1 if "sched" in prog else 200):
        lib.run_driver("drv_conc", ["--target", prog.get("target", "mem"), "--programs", p, "--out", trace])
        nr, strict, relaxed, _, _ = judge_lin(ctx, trace, kd)
        bad_total += nr - len(strict) - len(relaxed)
        if bad_total:
            break
    print(open(trace).read())
    print("not linearizable" if bad_total else "linearizable (on this attempt)")
    return 1 if bad_total else 0


def run(ctx):
    kd = lib.known_ids(ctx, "C11")
    lib.build(["drv_conc"])
    if ctx.replay:
        return replay(ctx, kd)
    total = 0
    first = None
    if os.environ.get("VERIF_C11_ONLY") == "sweep":      # development aid: only the cleanup-task stages
        for target in ([] if os.environ.get("VERIF_C11_TARGETS") else ["memc", "diskc"]):
            for fam in sweep_families(ctx.quick):
                total += mem_family(ctx, fam, kd, target=target)[0]
        pinned_designs(ctx)
        layered_model(ctx)
        for target in (os.environ.get("VERIF_C11_TARGETS") or "memc diskc").split():
            total += random_runs(ctx, target, 1500, 3, 3, 2, kd, f"s332{target}")
            total += random_runs(ctx, target, 150, 4, 20, 2, kd, f"stress_{target}2")
        ctx.cov["traces_validated_against_impl"] = total
        return lib.finish(ctx, "model_checking", rule="development run: cleanup-task stages only")
    for fam in families(ctx.quick):
        n, trace = mem_family(ctx, fam, kd)
        total += n
        if first is None:
            first = trace
            selftest(ctx, trace, kd)
    for fam in families(ctx.quick):
        if fam["name"].startswith(("A_", "D_", "B_")):
            n, trace = mem_family(ctx, fam, kd, target="disk")
            total += n
    for target in ("memc", "diskc"):
        for fam in sweep_families(ctx.quick):
            n, trace = mem_family(ctx, fam, kd, target=target)
            total += n
    pinned_designs(ctx)
    layered_model(ctx)
    nrand = 3000 if ctx.quick else 12000
    # DynamicContainer (write/read/query/remove + close/reopen probe) goes through the same monitor.
    # Long histories on real parallel threads (no schedule): windows that lie between sched points are only
    # reachable this way; 4 tasks x 20 operations.
    nstress = 150 if ctx.quick else 700
    jobs = [("mem", nrand, 3, 3, 2, "m332"), ("mem", nrand, 2, 3, 1, "m231"), ("disk", nrand, 2, 2, 2, "d222"), ("disk", nrand // 2, 3, 2, 1, "d321"),
            ("diskc", nrand // 2, 3, 3, 2, "s332"), ("memc", nrand // 2, 3, 3, 2, "c332"),
            ("ml", nrand // 2, 3, 3, 2, "l332"), ("ml", nrand // 4, 2, 3, 1, "l231"), ("proto", nrand // 4, 3, 3, 2, "p332"), ("protod", nrand // 4, 3, 3, 2, "q332"), ("dyn", nrand // 2, 3, 2, 2, "y322"), ("dyn", nrand // 4, 2, 3, 1, "y231")]
    jobs += [(target, nstress, 4, 20, keys, f"stress_{target}{keys}")
             for target, keys in [("mem", 2), ("disk", 1), ("disk", 2), ("diskc", 2), ("memc", 2), ("ml", 2), ("proto", 2), ("protod", 1), ("dyn", 2), ("dyn", 3)]]
    total += random_batch(ctx, jobs, kd)
    ctx.cov["traces_validated_against_impl"] = total
    ctx.cov["evaluations"] = total
    ctx.cov["distinct_nontrivial"] = total
    ctx.cov["exhaustive"] = True
    ctx.cov["exhaustive_scope"] = "MemoryCache: every interleaving (families A, D) / every schedule with <= MaxPre pre-emptions (B, C, E, F) at sched-point granularity; random unscheduled runs are not exhaustive"
    ctx.assumptions += ["interleavings are explored at the granularity of the verif-hooks sched points (between accesses to shared state); DashMap, std::sync::RwLock and atomics are trusted to be linearizable themselves",
                        "clear() on several keys is judged per key (DashMap clears shard by shard)",
                        "real-time order is taken from one atomic counter stamped before each call and after each return"]
    return lib.finish(ctx, "model_checking",
                      rule="one case = one (initial state, per-task programs, schedule) executed on the real cache and judged by T_Lin; schedules enumerated by TLC from CacheConc.tla are pairwise distinct by construction; random runs are counted as generated")
