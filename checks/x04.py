"""X04 - the typed / content-addressed cache layer above the basic caches (growth of the specification).

spec/TypedCache.tla (EXTENDS Cache.tla: typed keys, counters, wrappers as translations into the cache core, decision tables)
  -> MC_TypedCache (a) design level: refutes the stated properties on the code-shaped variants (string collisions,
     stale cached string, record_put panic, unjustified CacheFull) and prints the counterexamples, which are replayed on
     the real code; (b) binding G: enumerates the programs of every family
  -> drv_typedcache executes them on the real cascette-cache types
  -> T_TypedCache judges every recorded event (binding T; decision tables: binding E).
"""
import glob, json, os, random, threading
from concurrent.futures import ThreadPoolExecutor
from . import lib

PROP = "X04"
MODULE_MC = "MC_TypedCache"
MODULE_T = "T_TypedCache"
DRV = "drv_typedcache"
LOCK = threading.Lock()      # the families run as parallel pipelines; ctx is shared
ALL_KT = ["ribbit", "config", "index", "manifest", "range", "root", "encoding", "block", "blte", "content"]


def tla_strs(xs):
    return "{" + ", ".join('"%s"' % x for x in xs) + "}"


# --------------------------------------------------------------------------- findings
def known_findings(ctx):
    """Known (not fixed) findings of this check: findings.d/FX04*.json is the source; nothing is written."""
    ids = set(lib.known_ids(ctx, PROP))
    have = {f["id"] for f in ctx.known.get("findings", [])}
    for p in sorted(glob.glob(os.path.join(lib.ROOT, "findings.d", "FX04*.json"))):
        f = json.load(open(p))
        if f.get("property") == PROP:
            if f.get("status", "known") == "known":
                ids.add(f["id"])
            else:
                ids.discard(f["id"])
            if f["id"] not in have:
                ctx.known.setdefault("findings", []).append(f)
    # development aid (like VERIF_REPO): judge a scratch worktree that carries a proposed fix as if the finding were
    # already recorded as fixed, e.g. VERIF_X04_KNOWN=FX04a,FX04b.  Registered commands never set it.
    if "VERIF_X04_KNOWN" in os.environ and lib.REPO != "/repo":
        ids = {x for x in os.environ["VERIF_X04_KNOWN"].split(",") if x}
    return sorted(ids)


# --------------------------------------------------------------------------- judge
def t_cfg(ctx, kd, name="t_typed.cfg"):
    cfg = ctx.path(name)
    lib.write_cfg(cfg, {"KnownDeviations": lib.tla_set(kd)}, "TInit", "TNext", invariants=["Done"])
    return cfg


def judge(ctx, trace, kd, max_events=15000, cfg=None):
    """Like lib.judge; T_TypedCache reports deviations as [first line, finding, count] (constant-size monitor state)."""
    cfg = cfg or t_cfg(ctx, kd)
    chunks = lib.split_trace(trace, trace + ".part", lib.is_new, max_events)
    offs, o = [], 0
    for _, n in chunks:
        offs.append(o)
        o += n
    with ThreadPoolExecutor(max_workers=min(lib.NCPU, 16)) as ex:
        vs = list(ex.map(lambda i: lib.tlc_trace(ctx, MODULE_T, cfg, chunks[i][0], timeout=1500), range(len(chunks))))
    v = {"events": 0, "violations": [], "nviol": 0, "deviations": [], "devcount": {}, "wall_s": 0.0, "chunks": len(chunks)}
    for i, x in enumerate(vs):
        v["events"] += x["events"]
        v["nviol"] += x["nviol"]
        v["violations"] += [ln + offs[i] for ln in x["violations"]]
        for first, fid, n in x["deviations"]:
            v["deviations"].append([first + offs[i], fid])
            v["devcount"][fid] = v["devcount"].get(fid, 0) + n
        v["wall_s"] = max(v["wall_s"], x["wall_s"])
    if v["events"] != o:
        raise lib.ToolError(f"monitor consumed {v['events']} of {o} events")
    for p, _ in chunks:
        os.remove(p)
    return v


PROG_FIELDS = ("op", "s", "t", "f", "i", "v", "n", "hit", "hits", "c", "d", "age", "as", "a", "o", "l", "r", "p", "e", "h",
               "strat", "ent", "size", "bytes", "en", "maxe")


def program_of(evs):
    if not evs or evs[0].get("op") != "new":
        return None
    new = evs[0]
    ops = [{k: e[k] for k in PROG_FIELDS if k in e} for e in evs[1:] if e.get("op") != "hang"]
    prog = {"kind": new["kind"], "cfg": new["cfg"], "keys": new.get("keys", []), "ops": ops}
    for k in ("cs", "as"):
        if k in new:
            prog[k] = new[k]
    return prog


MARKS = {  # operations / answers that must have been exercised on the real code
    "keys:obs": '"op":"obs"', "keys:set": '"op":"set"', "keys:clone": '"op":"clone"', "keys:put": '"op":"put"',
    "keys:get": '"op":"get"', "keys:contains": '"op":"contains"', "keys:remove": '"op":"remove"',
    "met:get": '"op":"mget"', "met:put": '"op":"mput"', "met:remove": '"op":"mrem"', "met:evict": '"op":"mevi"',
    "met:expire": '"op":"mexp"', "met:batch": '"op":"mbatch"', "met:reset": '"op":"mreset"',
    "blk:put_block": '"op":"putb"', "blk:get_block": '"op":"getb"', "blk:metadata": '"op":"meta"', "blk:evict_old": '"op":"evold"',
    "cac:put_validated": '"op":"putv"', "cac:get_validated": '"op":"getv"', "cdn:get_with_fallback": '"op":"getf"',
    "arc:put_range": '"op":"putr"', "arc:get_range": '"op":"getr"', "arc:is_range_cached": '"op":"isc"', "arc:overlap": '"op":"ovl"',
    "res:cache_root": '"op":"croot"', "res:resolve": '"op":"res"', "res:cache_encoding": '"op":"cenc"',
    "res:resolve_encoding": '"op":"rese"', "res:chain": '"op":"chain"', "res:fallback": '"op":"fb"', "cdn:fetch_config": '"op":"fcfg"',
    "inv:should_invalidate": '"op":"sinv"', "inv:get_ttl": '"op":"gttl"', "inv:warming_validate": '"op":"wval"',
    "tick": '"op":"tick"', "probe": '"op":"probe"',
    "answer:hit": '"hit":true', "answer:miss": '"hit":false', "answer:full": '"err":"full"', "answer:validation": '"err":"validation"',
    "answer:network": '"err":"network"', "answer:some": '"some":"', "answer:none": '"none":true', "answer:true": '"b":true',
    "answer:false": '"b":false',
}


def histogram(ctx, trace):
    local = {k: 0 for k in MARKS}
    with open(trace) as f:
        for line in f:
            for k, m in MARKS.items():
                if m in line:
                    local[k] += 1
    with LOCK:
        h = ctx.cov.setdefault("events_by_kind", {k: 0 for k in MARKS})
        for k, n in local.items():
            h[k] += n


def judge_and_classify(ctx, trace, source, kd):
    histogram(ctx, trace)
    v = judge(ctx, trace, kd)
    with LOCK:
        ctx.stage("judge", source=source, events=v["events"], violations=v["nviol"], deviations=dict(v["devcount"]), wall_s=v["wall_s"])
        for fid, n in v["devcount"].items():
            lib.note_known(ctx, fid, n)
            ctx.cov["deviations_observed"][fid] = ctx.cov["deviations_observed"].get(fid, 0) + n
        lib.classify_trace(ctx, {"violations": v["violations"], "deviations": []}, trace, source, program_of=program_of)
    return v


def run_programs(ctx, progs, trace, shards):
    d = lib.run_sharded(ctx, DRV, progs, trace, shards=shards)
    if d.get("hangs"):
        lib.log(f"[{PROP}] {d['hangs']} program(s) hung (recorded as hang events)")
    return d


# --------------------------------------------------------------------------- TLC stages
WIDE = False        # set by run(): thorough tier


def mc_constants(family, depth, kt=(), backs=()):
    return {"Family": '"%s"' % family, "D": depth, "Wide": "TRUE" if WIDE else "FALSE", "KT": tla_strs(kt), "Backs": tla_strs(backs)}


def add_states(ctx, r):
    with LOCK:
        ctx.cov["states"] += r["distinct"]
        ctx.cov["transitions"] += r["generated"]


def gen(ctx, label, family, depth, init, next_, invariants, kt=(), backs=()):
    cfg = ctx.path(f"gen_{label}.cfg")
    lib.write_cfg(cfg, mc_constants(family, depth, kt, backs), init, next_, invariants=invariants, constraints=["Constr"])
    progs = ctx.path(f"prog_{label}.ndjson")
    r = lib.tlc(ctx, MODULE_MC, cfg, tagged_out={"PROGRAM": progs}, timeout=1500, workers=min(lib.NCPU, 4))
    add_states(ctx, r)
    # TLC's workers print in a nondeterministic order: sort, so that traces (and the self-test samples) are reproducible
    ls = sorted(lib.read_lines(progs))
    open(progs, "w").write("\n".join(ls) + ("\n" if ls else ""))
    return progs, r


def gen_run_judge(ctx, label, family, depth, kd, init="GenInit", next_="GenNext", invariants=("Emit",), kt=(), backs=(), shards=8):
    progs, r = gen(ctx, label, family, depth, init, next_, list(invariants), kt, backs)
    n = r["counts"]["PROGRAM"]
    extra = {}
    if "COLLISION" in r["tagged"]:
        by = {}
        for c in r["tagged"]["COLLISION"]:
            by.setdefault(c["kt"], []).append([c["a"], c["b"], c["name"]])
        ctx.cov.setdefault("design_level", {})["as_is_string_collisions"] = {
            "refuted_K1_for": sorted(by), "holds_for": sorted(set(kt) - set(by)),
            "colliding_ordered_pairs": {k: len(v) for k, v in by.items()}, "example": {k: v[0] for k, v in by.items()}}
        extra["collisions"] = sum(len(v) for v in by.values())
    ctx.stage("mc-gen", family=label, depth=depth, distinct_states=r["distinct"], programs=n, wall_s=r["wall_s"], **extra)
    trace = ctx.path(f"trace_{label}.ndjson")
    d = run_programs(ctx, progs, trace, shards)
    ctx.stage("run", family=label, programs=d.get("programs"), events=d.get("events"), hangs=d.get("hangs"), wall_s=d["wall_s"])
    if d.get("programs") != n:
        raise lib.ToolError(f"driver executed {d.get('programs')} of {n} programs")
    _, dn = lib.count_distinct(progs)
    os.remove(progs)
    ls = lib.read_lines(trace)
    s, e = lib.run_of_line(ls, max(1, len(ls) * 2 // 3))
    with LOCK:
        if len(ctx.cov["samples"]) < 6:
            ctx.cov["samples"].append({"source": f"MC_TypedCache {label} D={depth}", "trace": [json.loads(x) for x in ls[s:e]][:14]})
    del ls
    judge_and_classify(ctx, trace, f"MC_TypedCache {label} D={depth}", kd)
    return n, dn, trace


def design_level(ctx, kd):
    """TLC must refute each stated property on the code-shaped variant whose finding is still listed; the counterexamples
    (WITNESS programs) are replayed on the real code."""
    plan = [("FX04b", "keymut", 3, "WStale", ["ribbit"], ["disk"]),
            ("FX04c", "met", 3, "WPanic", [], []),
            ("FX04e", "blklim", 3, "WFull", [], [])]
    wit, model = [], {}
    for fid, family, depth, inv, kt, backs in plan:
        cfg = ctx.path("design.cfg")
        lib.write_cfg(cfg, mc_constants(family, depth, kt, backs), "GenInit", "GenNext", invariants=[inv], constraints=["Constr"])
        r = lib.tlc(ctx, MODULE_MC, cfg, timeout=600, expect_violation=True, workers=1)
        add_states(ctx, r)
        ws = r["tagged"].get("WITNESS", [])
        model[fid] = {"invariant": ws[0]["inv"] if ws else inv, "refuted": inv in r["invariant_violated"], "depth": r.get("depth"),
                      "witness_ops": ws[0]["program"]["ops"] if ws else None}
        if not model[fid]["refuted"] or not ws:
            raise lib.ToolError(f"the code-shaped model does not refute {inv}")
        wit.append(ws[0]["program"])
    ctx.cov.setdefault("design_level", {})["code_shaped_refutations"] = model
    p = ctx.path("prog_witness.ndjson")
    open(p, "w").write("".join(json.dumps(w) + "\n" for w in wit))
    trace = ctx.path("trace_witness.ndjson")
    lib.run_driver(DRV, ["--programs", p, "--out", trace])
    v = judge_and_classify(ctx, trace, "design-level witnesses", kd)
    ctx.cov["design_level"]["witnesses_replayed"] = {"programs": len(wit), "deviations_on_real_code": v["devcount"], "violations": v["nviol"]}
    gone = sorted(f for f in model if f in kd and f not in v["devcount"])
    if gone:
        ctx.cov["known_findings_not_reproduced_by_witness"] = gone
        lib.log(f"[{PROP}] note: the witness of {gone} no longer deviates on the real code - is the finding fixed?")
    ctx.stage("mc-design", refuted={k: m["refuted"] for k, m in model.items()}, witnesses=len(wit))
    return len(wit)


# --------------------------------------------------------------------------- seeded random programs
STR_POOL = ["a", "b", "a:b", "b:c", "c", "", ":", "a:", ":a", "x%3Ay", "us", "eu", "wow", "products/wow"]
CK_POOL = ["c1", "c2", "c3"]
NUM_POOL = ["0", "1", "2", "7", "4294967295"]
FIELDS = {  # per type: field kinds in declaration order
    "ribbit": ["s", "s", "os"], "config": ["s", "s"], "index": ["s", "s"], "manifest": ["s", "ck", "os"],
    "range": ["s", "u64", "u32"], "root": ["ck", "b", "ou8"], "encoding": ["ck", "ou32", "b"], "block": ["ck", "u32", "b"],
    "blte": ["ck", "ou32"], "content": ["ck"]}


def rnd_field(rng, kind):
    if kind == "s":
        return rng.choice(STR_POOL)
    if kind == "os":
        return [] if rng.random() < 0.4 else [rng.choice(STR_POOL + ["1" * 32, "2" * 32])]
    if kind == "ck":
        return rng.choice(CK_POOL)
    if kind == "b":
        return rng.random() < 0.5
    if kind == "u64":
        return rng.choice(NUM_POOL + ["18446744073709551615"])
    if kind == "u32":
        return rng.choice(NUM_POOL)
    if kind == "ou32":
        return [] if rng.random() < 0.4 else [rng.choice(NUM_POOL)]
    if kind == "ou8":
        return [] if rng.random() < 0.4 else [rng.choice(["0", "1", "255"])]
    raise ValueError(kind)


def rnd_keys(rng, length):
    kt = rng.choice(ALL_KT)
    back = rng.choice(["mem", "disk", "disk", "diskflat"])
    kinds = FIELDS[kt]
    cur = {1: [rnd_field(rng, k) for k in kinds]}
    seen = [list(cur[1])]
    ops = [{"op": "mk", "s": 1, "f": list(cur[1])}]

    def note(f):
        if f not in seen:
            seen.append(list(f))
    while len(ops) < length:
        r = rng.random()
        s = rng.choice(sorted(cur))
        if r < 0.12 and len(cur) < 3:
            t = len(cur) + 1
            f = [rnd_field(rng, k) for k in kinds]
            cur[t] = f
            note(f)
            ops.append({"op": "mk", "s": t, "f": list(f)})
        elif r < 0.22 and len(cur) < 3:
            t = len(cur) + 1
            cur[t] = list(cur[s])
            ops.append({"op": "clone", "s": s, "t": t})
        elif r < 0.42:
            i = rng.randrange(len(kinds))
            v = rnd_field(rng, kinds[i])
            cur[s][i] = v
            note(cur[s])
            ops.append({"op": "set", "s": s, "i": i + 1, "v": v})
        elif r < 0.55:
            ops.append({"op": "obs"})
        elif r < 0.75:
            ops.append({"op": "put", "s": s, "n": rng.randrange(0, 9)})
        elif r < 0.9:
            ops.append({"op": "get", "s": s})
        elif r < 0.95:
            ops.append({"op": "contains", "s": s})
        else:
            ops.append({"op": "remove", "s": s})
    ops += [{"op": "obs"}, {"op": "probe"}]
    return {"kind": "keys", "cfg": {"kt": kt, "back": "disk" if back == "diskflat" else back, "subdirs": back != "diskflat"},
            "keys": seen, "ops": ops}


def rnd_met(rng, length):
    ops = []
    for _ in range(length):
        r = rng.random()
        n = rng.choice([0, 1, 2, 5, 100, 1000, 1 << 20, (1 << 20) + 7])
        if r < 0.3:
            ops.append({"op": "mget", "hit": rng.random() < 0.5})
        elif r < 0.55:
            ops.append({"op": "mput", "n": n})
        elif r < 0.7:
            ops.append({"op": rng.choice(["mrem", "mevi", "mexp"]), "n": n if rng.random() < 0.8 else n + 1})
        elif r < 0.8:
            ops.append({"op": "mbatch", "hits": [rng.random() < 0.5 for _ in range(rng.randrange(0, 5))]})
        elif r < 0.84:
            ops.append({"op": "mreset"})
        else:   # a balanced removal: take out what an earlier put brought in
            puts = [o["n"] for o in ops if o["op"] == "mput"]
            ops.append({"op": rng.choice(["mrem", "mevi", "mexp"]), "n": rng.choice(puts) if puts else 0})
    return {"kind": "met", "cfg": {"k": "met"}, "keys": [], "ops": ops}


def rnd_blk(rng, length):
    cfg = {"maxe": rng.choice([100, 100, 2, 3]), "dttl": rng.choice(["long", "long", "short"]), "maxb": rng.randrange(1, 5),
           "shared": rng.random() < 0.4, "urls": rng.choice([1, 1, 0])}
    cs = ["x", "y", "m"]
    keys = [[c, i, d] for c in ("x", "y") for i in range(4) for d in (False, True)]
    ops = []
    while len(ops) < length:
        r = rng.random()
        c, i, d = rng.choice(keys)
        if r < 0.35:
            ops.append({"op": "putb", "c": c, "i": i, "d": d, "n": rng.randrange(0, 12)})
        elif r < 0.5:
            ops.append({"op": "getb", "c": c, "i": i, "d": d})
        elif r < 0.56:
            ops.append({"op": "meta", "c": c})
        elif r < 0.61:
            ops.append({"op": "evold", "age": rng.choice(["zero", "huge"])})
        elif r < 0.71:
            ops.append({"op": "putv", "c": rng.choice(cs), "as": rng.choice(cs)})
            if rng.random() < 0.7:
                ops[-1]["as"] = ops[-1]["c"]
        elif r < 0.8:
            ops.append({"op": "getv", "c": rng.choice(cs)})
        elif r < 0.88:
            ops.append({"op": "getf", "c": rng.choice(cs)})
        elif r < 0.93 and cfg["dttl"] == "short":
            ops.append({"op": "tick"})
        else:
            ops.append({"op": "probe"})
    ops.append({"op": "probe"})
    return {"kind": "blk", "cfg": cfg, "keys": keys, "cs": cs, "ops": ops}


def rnd_arc(rng, length):
    cfg = {"maxe": rng.choice([100, 100, 2, 3]), "dttl": rng.choice(["long", "long", "short"]), "maxr": rng.randrange(1, 5),
           "urls": rng.choice([1, 1, 0])}
    keys = [[a, o, l] for a in ("a", "b") for (o, l) in ((0, 4), (2, 4), (4, 4), (8, 2), (-1, 1), (-1, 0), (0, 0), (1000000, 16))]
    ops = []
    while len(ops) < length:
        r = rng.random()
        a, o, l = rng.choice(keys)
        if r < 0.3:
            ops.append({"op": "putr", "a": a, "o": o, "l": l, "n": rng.randrange(0, 12)})
        elif r < 0.45:
            ops.append({"op": "getr", "a": a, "o": o, "l": l})
        elif r < 0.55:
            ops.append({"op": "isc", "a": a, "o": o, "l": l})
        elif r < 0.68:
            ops.append({"op": "ovl", "a": a, "o": o, "l": rng.choice([l, 0, 1, 3, 100])})
        elif r < 0.8:
            ops.append({"op": "getf", "a": a, "o": o, "l": l})
        elif r < 0.85:
            ops.append({"op": "meta", "a": a})
        elif r < 0.92 and cfg["dttl"] == "short":
            ops.append({"op": "tick"})
        else:
            ops.append({"op": "probe"})
    ops.append({"op": "probe"})
    return {"kind": "arc", "cfg": cfg, "keys": keys, "as": ["a", "b"], "ops": ops}


def rnd_res(rng, length):
    cfg = {"maxroots": rng.choice([100, 100, 1]), "urls": rng.choice([1, 1, 0])}
    roots, encs, paths, cks = ["r1", "r2", "rj"], ["e1", "e2", "ej"], ["p1", "p2", "p3"], ["c1", "c2", "c3"]
    ops = []
    for _ in range(length):
        r = rng.random()
        if r < 0.2:
            x = rng.choice(roots)
            ops.append({"op": "croot", "r": x, "as": x if rng.random() < 0.75 else rng.choice(roots)})
        elif r < 0.4:
            ops.append({"op": "res", "r": rng.choice(roots), "p": rng.choice(paths)})
        elif r < 0.5:
            x = rng.choice(encs)
            ops.append({"op": "cenc", "e": x, "as": x if rng.random() < 0.75 else rng.choice(encs)})
        elif r < 0.62:
            ops.append({"op": "rese", "e": rng.choice(encs), "c": rng.choice(cks)})
        elif r < 0.72:
            ops.append({"op": "chain", "r": rng.choice(roots), "e": rng.choice(encs), "p": rng.choice(paths)})
        elif r < 0.95:
            ops.append({"op": "fb", "r": rng.choice(roots), "p": rng.choice(paths)})
        else:
            ops.append({"op": "fcfg", "h": rng.choice(["abcd1234", "abc", "", "ab", "0123456789abcdef0123456789abcdef"])})
    return {"kind": "res", "cfg": cfg, "keys": [], "ops": ops}


def random_programs(seed, quick):
    rng = random.Random(seed * 1000003 + 4)
    plan = [(rnd_keys, 400 if quick else 4000, 14), (rnd_met, 200 if quick else 2000, 60), (rnd_blk, 150 if quick else 1500, 24),
            (rnd_arc, 150 if quick else 1500, 24), (rnd_res, 200 if quick else 2000, 14)]
    out = []
    for f, n, length in plan:
        for _ in range(n):
            out.append(f(rng, length if quick else length + rng.randrange(0, length)))
    rng.shuffle(out)
    return out


# --------------------------------------------------------------------------- self-tests
def head(path, n):
    ls = lib.read_lines(path)[:n]
    if len(ls) == n:          # cut at a run boundary
        while ls and not lib.is_new(ls[-1]):
            ls.pop()
        ls.pop()
    return ls


def selftest(ctx, traces, kd):
    """Binding self-test: corrupt one logged field / drop one event -> the monitor must flag exactly that.
    One sample (heads of four families' traces), three monitor runs: as recorded, four fields corrupted, one event dropped."""
    cfg = t_cfg(ctx, kd)
    parts = [head(traces["blklim"], 2500), head(traces["met"], 2500), head(traces["pairs"], 2500), lib.read_lines(traces["inv"])]
    ls = [l for p in parts for l in p]
    off = [0, len(parts[0]), len(parts[0]) + len(parts[1]), len(parts[0]) + len(parts[1]) + len(parts[2]), len(ls)]

    def verdict(item):
        name, lines = item
        p = ctx.path(f"selftest_{name}.ndjson")
        open(p, "w").write("\n".join(lines) + "\n")
        return lib.tlc_trace(ctx, MODULE_T, cfg, p)

    base = verdict(("base", ls))

    def pick(part, start, pred):
        return next(i for i in range(off[part] + start, off[part + 1] - 1)
                    if (i + 1) not in base["violations"] and pred(i, ls[i]))

    def flip_eq(e):
        for t in e["res"]["eq"]:
            if t[2] is False:
                t[2] = True
                break

    # (a) the bytes returned by a get_block hit are replaced by other bytes of the same length
    ia = pick(0, 40, lambda i, l: '"op":"getb"' in l and '"hit":true' in l)
    # (c) counters: one hit too many in a snapshot
    ic = pick(1, 40, lambda i, l: '"op":"mget"' in l and '"outcome"' not in l)
    # (d) keys: == reported TRUE for two objects with different fields
    idd = pick(2, 40, lambda i, l: '"op":"obs"' in l and ',false]' in l)
    # (e) decision table: one answer negated
    ie = pick(3, 0, lambda i, l: '"op":"sinv"' in l)
    # (b) an event that is not a run boundary is dropped
    ib = pick(0, 60, lambda i, l: not lib.is_new(l) and not lib.is_new(ls[i + 1]))
    edited = list(ls)
    for i, edit in ((ia, lambda e: e["res"].__setitem__("h", "0" * 32)),
                    (ic, lambda e: e["snap"].__setitem__("hits", e["snap"]["hits"] + 1)),
                    (idd, flip_eq),
                    (ie, lambda e: e["res"].__setitem__("b", not e["res"]["b"]))):
        e = json.loads(edited[i])
        edit(e)
        edited[i] = json.dumps(e, separators=(",", ":"))
    dropped = list(ls)
    del dropped[ib]
    with ThreadPoolExecutor(max_workers=2) as ex:
        ve, vb = list(ex.map(verdict, [("edited", edited), ("dropped", dropped)]))
    new = set(ve["violations"]) - set(base["violations"])
    res = {"corrupt_returned_block_flagged": (ia + 1) in new, "corrupt_counter_flagged": (ic + 1) in new,
           "corrupt_eq_flagged": (idd + 1) in new, "corrupt_decision_flagged": (ie + 1) in new,
           "only_the_corrupted_events_flagged": ve["nviol"] == base["nviol"] + 4,
           "drop_one_event_flagged": (ib + 1) in vb["violations"] and vb["nviol"] > base["nviol"]}
    ctx.cov["binding_selftest"] = res
    if not all(res.values()):
        raise lib.ToolError(f"binding self-test failed: {res}")


def selftest_signatures(ctx, traces, kd):
    """The deviation signatures are not vacuous: with KnownDeviations = {} the monitor rejects exactly the events they explained."""
    if not kd:
        ctx.cov["binding_selftest"]["deviations_rejected_when_not_listed"] = "no finding is listed as known"
        return
    cfg_kd, cfg_no = t_cfg(ctx, kd), t_cfg(ctx, [], "t_typed_nodev.cfg")
    samples = {"wrappers": [l for n in ("blklim", "arc", "res", "met") for l in head(traces[n], 2500)],
               "keys": head(traces["keymut"], 3000)}
    jobs = []
    for name, ls in samples.items():
        p = ctx.path(f"selftest_sig_{name}.ndjson")
        open(p, "w").write("\n".join(ls) + "\n")
        jobs += [(cfg_kd, p), (cfg_no, p)]
    with ThreadPoolExecutor(max_workers=min(lib.NCPU, 4)) as ex:
        w_kd, w_no, k_kd, k_no = list(ex.map(lambda j: lib.tlc_trace(ctx, MODULE_T, j[0], j[1]), jobs))
    explained_w = sum(d[2] for d in w_kd["deviations"])
    explained_k = sum(d[2] for d in k_kd["deviations"])
    # an event explained by two findings at once is ONE violation without them; in a key run an unexplained event also
    # leaves the keys untainted, so later events of the run are rejected too (there: only "something is rejected")
    ok = (w_kd["nviol"] == 0 and k_kd["nviol"] == 0 and 0 < w_no["nviol"] <= explained_w and (k_no["nviol"] > 0) == (explained_k > 0)
          and explained_k > 0)
    ctx.cov["binding_selftest"]["deviations_rejected_when_not_listed"] = ok
    ctx.cov["binding_selftest"]["deviation_events_in_sample"] = w_no["nviol"] + k_no["nviol"]
    if not ok:
        raise lib.ToolError(f"signature self-test failed: wrappers explained={explained_w} rejected={w_no['nviol']} (listed: {w_kd['nviol']}); "
                            f"keys explained={explained_k} rejected={k_no['nviol']} (listed: {k_kd['nviol']})")


def replay(ctx, kd):
    obj = json.load(open(ctx.replay))
    prog = obj["program"] if "program" in obj else obj
    p = ctx.path("replay_prog.ndjson")
    open(p, "w").write(json.dumps(prog) + "\n")
    trace = ctx.path("replay_trace.ndjson")
    lib.run_driver(DRV, ["--programs", p, "--out", trace])
    v = judge(ctx, trace, kd)
    print(open(trace).read())
    print(json.dumps({k: v[k] for k in ("events", "violations", "nviol", "devcount")}))
    for ln in v["violations"]:
        print(f"VIOLATION property={PROP} replay={ctx.replay} (event {ln - 1} of the replayed run)")
    return 1 if v["violations"] else 0


# --------------------------------------------------------------------------- main
def run(ctx):
    kd = known_findings(ctx)
    lib.build([DRV])
    if ctx.replay:
        return replay(ctx, kd)
    quick = ctx.quick
    global WIDE
    WIDE = not quick
    total = distinct = 0
    total += design_level(ctx, kd)
    dq = {"met": 3, "blklim": 3, "blkcac": 3, "arc": 3, "res": 3, "keymut": 3}
    dt = {"met": 5, "blklim": 4, "blkcac": 4, "arc": 4, "res": 4, "keymut": 4}
    depth = dq if quick else dt
    pair_backs = ["none", "mem", "disk"] if quick else ["none", "mem", "disk", "diskflat"]
    plan = [
        ("pairs", dict(family="pairs", depth=0, init="PairInit", next_="PairNext", invariants=("EmitPair", "EmitCollision"),
                       kt=ALL_KT, backs=pair_backs)),
        ("keymut", dict(family="keymut", depth=depth["keymut"], kt=ALL_KT, backs=["disk"] if quick else ["mem", "disk"])),
        ("met", dict(family="met", depth=depth["met"])),
        ("blklim", dict(family="blklim", depth=depth["blklim"], shards=16)),
        ("blkcac", dict(family="blkcac", depth=depth["blkcac"], shards=16)),
        ("arc", dict(family="arc", depth=depth["arc"], shards=16)),
        ("res", dict(family="res", depth=depth["res"])),
        ("inv", dict(family="inv", depth=0, init="InvInit", next_="InvNext", invariants=("EmitInv",))),
    ]
    traces = {}
    # the families are independent pipelines: run them side by side (each is itself sharded / chunked)
    with ThreadPoolExecutor(max_workers=3 if lib.NCPU <= 4 else 4) as ex:
        futs = {label: ex.submit(gen_run_judge, ctx, label, kd=kd, **kw) for label, kw in plan}
        for label, f in futs.items():
            n, dn, trace = f.result()
            total += n
            distinct += dn
            traces[label] = trace
    selftest(ctx, traces, kd)
    selftest_signatures(ctx, traces, kd)
    for t in traces.values():
        os.remove(t)
    # seeded random programs: longer histories, larger limits, more keys / contents / ranges
    progs = random_programs(ctx.seed, quick)
    p = ctx.path("prog_random.ndjson")
    open(p, "w").write("".join(json.dumps(x) + "\n" for x in progs))
    trace = ctx.path("trace_random.ndjson")
    d = run_programs(ctx, p, trace, shards=16)
    ctx.stage("run", source="random", programs=d.get("programs"), events=d.get("events"), hangs=d.get("hangs"), wall_s=d["wall_s"])
    if d.get("programs") != len(progs):
        raise lib.ToolError(f"driver executed {d.get('programs')} of {len(progs)} random programs")
    _, dn = lib.count_distinct(p)
    judge_and_classify(ctx, trace, f"random seed={ctx.seed}", kd)
    total += len(progs)
    distinct += dn
    ctx.cov["actions_never_taken"] = sorted(k for k, n in ctx.cov.get("events_by_kind", {}).items() if n == 0)
    if ctx.cov["actions_never_taken"]:
        raise lib.ToolError(f"operations / answers never exercised on the real code: {ctx.cov['actions_never_taken']}")
    ctx.cov["traces_validated_against_impl"] = total
    ctx.cov["evaluations"] = total
    ctx.cov["distinct_nontrivial"] = distinct
    ctx.cov["exhaustive"] = True
    ctx.cov["exhaustive_scope"] = ("per family: every operation sequence of length 1..D over the family's alphabet for every configuration of "
                                   "its grid (MC_TypedCache); every ordered pair of keys of every type's field universe with two fixed "
                                   "scripts per backend; the whole decision table of PART I; the random tier is not exhaustive")
    ctx.cov["related_properties"] = ["C10", "C12", "C07"]
    ctx.assumptions += [
        "TLC, the CommunityModules JSON reader and the driver's recording (results, md5 of returned bytes, counters read back) are trusted",
        "time is logical as in C10: a 1 h TTL never ends during a run, a 2 ms TTL has ended after a 10 ms sleep and may or may not have ended before it",
        "a roomy inner cache (max_entries >= 100, 1 h TTL) is required to keep every value; a tiny one (1-3 entries) may miss at any time",
        "the CDN backend is cdn.rs's own mock client (the only backend the crate has): it answers every content request with one fixed blob, every "
        "range request with zero bytes, and fails iff no CDN url is configured",
        "u64::MAX is the only offset above 2^30 that is exercised (TLC integers are 32-bit; it is logged as -1)",
    ]
    return lib.finish(ctx, "model_checking",
                      rule="programs = operation sequences enumerated by TLC per family and configuration (all lengths 1..D), all ordered key pairs, "
                           "the decision table, the design-level counterexamples, plus seeded random programs; distinct = distinct program texts "
                           "(md5); every program has >= 1 operation; key / wrapper programs end with an observation of every key of the program")
