"""C06 - a crash at any point of a save leaves old or new state, never a broken one.

Pipeline (DESIGN.md section 5, C06):
  MC_CrashSave   TLC checks the code-shaped protocol models of spec/CrashSave.tla over spec/lib/FS.tla
                 (Recover in {Old, New} for every crash instant x admissible disk state; refuted for
                 the LRU checkpoint and the compaction journal = candidate findings) and enumerates
                 the operation histories (cases) that lead to the save under study.
  drv_crash history   (under strace) builds every history with the real API and performs the real save
                 once; the system calls between the two markers are the events that drive FS.tla.
  T_CrashFS      TLC steps FS.tla through the recorded calls and emits every crash scenario
                 <position, per-file outcome> as a post-crash directory (binding G from a real trace).
  drv_crash recover   builds every directory byte-exactly and runs the REAL recovery on it.
  T_CrashJudge   TLC judges every recovery: did not fail, projection in {Old, New} per object, a later
                 save + reload works; leftover temporary files are part of the directories.
"""
import json, os, re, shutil, subprocess, time, hashlib
from concurrent.futures import ThreadPoolExecutor
from . import lib

MODULE_MC = "MC_CrashSave"
MODULE_FS = "T_CrashFS"
MODULE_J = "T_CrashJudge"

TRACED = ("openat,open,creat,write,pwrite64,writev,pwritev,pwritev2,fsync,fdatasync,sync_file_range,ftruncate,truncate,"
          "fallocate,rename,renameat,renameat2,unlink,unlinkat,rmdir,mkdir,mkdirat,link,linkat,symlink,symlinkat,"
          "copy_file_range,sendfile")
UNSUPPORTED = {"sync_file_range", "fallocate", "link", "linkat", "symlink", "symlinkat", "copy_file_range", "sendfile",
               "pwritev2"}


class Inconclusive(lib.ToolError):
    pass


# --------------------------------------------------------------------------- strace log -> FS events
HEXRUN = re.compile(r'((?:\\x[0-9a-f]{2})+)')
SB_RE = re.compile(r'/c06-h\d+/([^/]+)/sb(?:/(.*))?$')


def unhex(s):
    """bytes of a strace -xx string body (only \\xNN escapes)"""
    return bytes.fromhex(s.replace("\\x", ""))


def split_args(s):
    out, depth, cur, inq = [], 0, [], False
    for ch in s:
        if inq:
            cur.append(ch)
            if ch == '"':
                inq = False
            continue
        if ch == '"':
            inq = True
            cur.append(ch)
        elif ch in "([{<":
            depth += 1
            cur.append(ch)
        elif ch in ")]}>":
            depth -= 1
            cur.append(ch)
        elif ch == "," and depth == 0:
            out.append("".join(cur).strip())
            cur = []
        else:
            cur.append(ch)
    if cur:
        out.append("".join(cur).strip())
    return out


def arg_str(a):
    """a quoted strace string argument -> bytes (None if it is not a complete string literal)"""
    m = re.fullmatch(r'"((?:\\x[0-9a-f]{2})*)"', a)
    return unhex(m.group(1)) if m else None


def arg_fd(a):
    """'9<\\x2f..>' -> (9, '/path') ; 'AT_FDCWD<..>' -> ('AT_FDCWD', path)"""
    m = re.fullmatch(r'(\w+)<((?:\\x[0-9a-f]{2})*)>', a)
    if not m:
        return None, None
    return m.group(1), unhex(m.group(2)).decode("utf-8", "surrogateescape")


CALL_RE = re.compile(r'^(\d+)\s+(\w+)\((.*)\)\s+=\s+(-?\d+|\?)(.*)$')


def strace_calls(path):
    """yield (pid, syscall, [args], ret, ret_annotation) in completion order; unfinished/resumed merged"""
    pending = {}
    with open(path, errors="surrogateescape") as f:
        for line in f:
            line = line.rstrip("\n")
            m = re.match(r'^(\d+)\s+(.*)$', line)
            if not m:
                continue
            pid, rest = m.group(1), m.group(2)
            if rest.startswith("+++") or rest.startswith("---"):
                continue
            if rest.endswith("<unfinished ...>"):
                pending[pid] = rest[: -len("<unfinished ...>")].rstrip()
                continue
            mr = re.match(r'^<\.\.\. (\w+) resumed>(.*)$', rest)
            if mr:
                head = pending.pop(pid, None)
                if head is None:
                    raise Inconclusive(f"strace: resumed call without a start: {line[:120]}")
                rest = head + mr.group(2)
            mc = CALL_RE.match(pid + " " + rest)
            if not mc:
                raise Inconclusive(f"strace: cannot parse line: {line[:160]}")
            ret = mc.group(4)
            yield pid, mc.group(2), split_args(mc.group(3)), (None if ret == "?" else int(ret)), mc.group(5)


def sandbox_of(p):
    """absolute path -> (case id, name relative to the sandbox or '' for the sandbox itself) or None"""
    m = SB_RE.search(p)
    if not m:
        return None
    return m.group(1), (m.group(2) or "")


def listing(root):
    files, dirs = [], []
    for base, ds, fs in os.walk(root):
        rel = os.path.relpath(base, root)
        for d in sorted(ds):
            dirs.append(os.path.normpath(os.path.join(rel, d)))
        for f in sorted(fs):
            n = os.path.normpath(os.path.join(rel, f))
            files.append({"name": n, "len": os.path.getsize(os.path.join(root, n))})
    return sorted(files, key=lambda x: x["name"]), sorted(dirs)


class CaseLog:
    def __init__(self, cid, pre_root):
        self.id = cid
        self.files, self.dirs = listing(pre_root)
        self.size = {f["name"]: f["len"] for f in self.files}
        self.isdir = set(self.dirs) | {""}
        self.events = []
        self.writes = {}

    def ev(self, **kw):
        self.events.append(kw)
        return len(self.events)


def parse_strace(log_path, ctx_dir):
    """-> {case id: CaseLog} with the events between the BEGIN and END markers of each case"""
    cases = {}
    cur = None           # CaseLog being recorded
    fds = {}             # fd -> dict(path, pos, append, case, name, dir)

    def resolve(dfd_arg, path_bytes):
        p = path_bytes.decode("utf-8", "surrogateescape")
        if p.startswith("/"):
            return os.path.normpath(p)
        _, base = arg_fd(dfd_arg)
        if base is None:
            raise Inconclusive(f"strace: relative path {p!r} without a resolvable directory")
        return os.path.normpath(os.path.join(base, p))

    for pid, sc, a, ret, tail in strace_calls(log_path):
        # ---- markers
        if sc == "unlink" and a and (arg_str(a[0]) or b"").endswith(b"__C06_BEGIN__"):
            sb = sandbox_of(arg_str(a[0]).decode())
            cur = CaseLog(sb[0], os.path.join(ctx_dir, sb[0], "pre"))
            cases[cur.id] = cur
            continue
        if sc == "unlink" and a and (arg_str(a[0]) or b"").endswith(b"__C06_END__"):
            cur.closed = True
            cur = None
            continue
        if ret is None or ret < 0:
            continue
        # ---- opens are tracked everywhere (fd table), recorded only inside the window
        if sc in ("openat", "open", "creat"):
            if sc == "openat":
                p, flags = resolve(a[0], arg_str(a[1])), a[2]
            elif sc == "open":
                p, flags = resolve("", arg_str(a[0])), a[1]
            else:
                p, flags = resolve("", arg_str(a[0])), "O_WRONLY|O_CREAT|O_TRUNC"
            sb = sandbox_of(p)
            if not sb:
                fds.pop(ret, None)
                continue
            fl = set(flags.split("|"))
            isdir = "O_DIRECTORY" in fl or (cur is not None and sb[0] == cur.id and sb[1] in cur.isdir)
            fds[ret] = {"case": sb[0], "append": "O_APPEND" in fl, "pos": 0, "dir": isdir,
                        "known": cur is not None and sb[0] == cur.id}
            if cur is None or sb[0] != cur.id or isdir:
                continue
            wr = bool(fl & {"O_WRONLY", "O_RDWR", "O_CREAT", "O_TRUNC"})
            if not wr:
                continue
            name = sb[1]
            creat, trunc = "O_CREAT" in fl, "O_TRUNC" in fl
            if "O_TMPFILE" in fl:
                raise Inconclusive("strace: O_TMPFILE is not modelled")
            if name not in cur.size:
                if not creat:
                    raise Inconclusive(f"strace: open of unknown file {name}")
                cur.size[name] = 0
            elif trunc:
                cur.size[name] = 0
            cur.ev(op="open", name=name, creat=creat, trunc=trunc)
            continue
        if cur is None:
            continue
        # ---- everything below: inside the window of case `cur`
        if sc in UNSUPPORTED:
            if any(sandbox_of(arg_fd(x)[1] or "") or (arg_str(x) and sandbox_of(arg_str(x).decode("utf-8", "replace"))) for x in a):
                raise Inconclusive(f"strace: system call {sc} on the sandbox is not modelled")
            continue
        if sc in ("write", "pwrite64", "writev", "pwritev"):
            fd, p = arg_fd(a[0])
            sb = sandbox_of(p or "")
            if not sb or sb[0] != cur.id:
                continue
            if p.endswith(" (deleted)"):
                continue    # an unlinked file is unreachable after a crash
            name = sb[1]
            fdi = fds.get(int(fd))
            if sc in ("write", "pwrite64"):
                data = arg_str(a[1])
            else:
                parts = re.findall(r'iov_base="((?:\\x[0-9a-f]{2})*)"', a[1])
                data = b"".join(unhex(x) for x in parts) if parts else None
            if data is None:
                raise Inconclusive(f"strace: cannot read the data of a {sc} on {name}")
            data = data[:ret]
            if len(data) != ret:
                raise Inconclusive(f"strace: {sc} on {name} returned {ret} but {len(data)} bytes were logged")
            if sc in ("pwrite64", "pwritev"):
                off = int(a[3])
            else:
                if fdi is None or not fdi["known"]:
                    raise Inconclusive(f"strace: write through a descriptor opened before the save ({name})")
                off = cur.size[name] if fdi["append"] else fdi["pos"]
                fdi["pos"] = off + ret
            if name not in cur.size:
                raise Inconclusive(f"strace: write to unknown file {name}")
            cur.size[name] = max(cur.size[name], off + ret)
            if ret > 0:
                idx = cur.ev(op="write", name=name, off=off, len=ret)
                cur.events[-1]["src"] = f"w{idx}"
                cur.writes[str(idx)] = data.hex()
            continue
        if sc in ("fsync", "fdatasync"):
            fd, p = arg_fd(a[0])
            sb = sandbox_of(p or "")
            if not sb or sb[0] != cur.id or p.endswith(" (deleted)"):
                continue
            if sb[1] in cur.isdir:
                cur.ev(op="dirsync", name=sb[1])
            else:
                cur.ev(op="fsync", name=sb[1])
            continue
        if sc in ("ftruncate", "truncate"):
            if sc == "ftruncate":
                _, p = arg_fd(a[0])
            else:
                p = resolve("", arg_str(a[0]))
            sb = sandbox_of(p or "")
            if not sb or sb[0] != cur.id:
                continue
            n = int(a[1])
            cur.size[sb[1]] = n
            cur.ev(op="trunc", name=sb[1], len=n)
            continue
        if sc in ("rename", "renameat", "renameat2"):
            if sc == "rename":
                src, dst = resolve("", arg_str(a[0])), resolve("", arg_str(a[1]))
            else:
                src, dst = resolve(a[0], arg_str(a[1])), resolve(a[2], arg_str(a[3]))
                if sc == "renameat2" and a[4] not in ("0", "0x0"):
                    raise Inconclusive(f"strace: renameat2 flags {a[4]} are not modelled")
            s1, s2 = sandbox_of(src), sandbox_of(dst)
            if not s1 and not s2:
                continue
            if not (s1 and s2 and s1[0] == cur.id and s2[0] == cur.id):
                raise Inconclusive("strace: rename across the sandbox boundary")
            if s1[1] in cur.isdir:
                raise Inconclusive("strace: rename of a directory is not modelled")
            cur.size[s2[1]] = cur.size.pop(s1[1])
            cur.ev(op="rename", **{"from": s1[1], "to": s2[1]})
            continue
        if sc in ("unlink", "unlinkat", "rmdir"):
            if sc == "unlinkat":
                p = resolve(a[0], arg_str(a[1]))
                isrm = "AT_REMOVEDIR" in a[2]
            else:
                p = resolve("", arg_str(a[0]))
                isrm = sc == "rmdir"
            sb = sandbox_of(p)
            if not sb or sb[0] != cur.id:
                continue
            if isrm:
                cur.isdir.discard(sb[1])
                cur.ev(op="rmdir", name=sb[1])
            else:
                cur.size.pop(sb[1], None)
                cur.ev(op="unlink", name=sb[1])
            continue
        if sc in ("mkdir", "mkdirat"):
            p = resolve("", arg_str(a[0])) if sc == "mkdir" else resolve(a[0], arg_str(a[1]))
            sb = sandbox_of(p)
            if not sb or sb[0] != cur.id:
                continue
            cur.isdir.add(sb[1])
            cur.ev(op="mkdir", name=sb[1])
            continue
    for c in cases.values():
        if not getattr(c, "closed", False):
            raise Inconclusive(f"strace: no END marker for case {c.id}")
    return cases
