"""C06 - a crash at any point of a save leaves old or new state, never a broken one.

Pipeline (DESIGN.md section 5, C06):
  MC_CrashSave   TLC checks the code-shaped protocol models of spec/CrashSave.tla over spec/lib/FS.tla
                 (Recover in {Old, New} for every crash instant x admissible disk state; refuted for
                 the LRU checkpoint and the compaction journal = candidate findings) and enumerates
                 the operation histories (cases) that lead to the save under study.
  drv_crash history   (under strace) builds every history with the real API and performs the real save
                 once; the system calls between the two markers are the events that drive FS.tla.
  T_CrashFS      TLC steps FS.tla through the recorded calls and emits every crash scenario
                 <position, per-file outcome> as a post-crash directory (binding G from a real trace).
  drv_crash recover   builds every directory byte-exactly and runs the REAL recovery on it.
  T_CrashJudge   TLC judges every recovery: did not fail, projection in {Old, New} per object, a later
                 save + reload works; leftover temporary files are part of the directories.
"""
import json, os, re, shutil, subprocess, time, hashlib
from concurrent.futures import ThreadPoolExecutor
from . import lib

MODULE_MC = "MC_CrashSave"
MODULE_FS = "T_CrashFS"
MODULE_J = "T_CrashJudge"

TRACED = ("openat,open,creat,write,pwrite64,writev,pwritev,pwritev2,fsync,fdatasync,sync_file_range,ftruncate,truncate,"
          "fallocate,rename,renameat,renameat2,unlink,unlinkat,rmdir,mkdir,mkdirat,link,linkat,symlink,symlinkat,"
          "copy_file_range,sendfile,utimensat,futimesat,utimes,utime")
UNSUPPORTED = {"sync_file_range", "fallocate", "link", "linkat", "symlink", "symlinkat", "copy_file_range", "sendfile",
               "pwritev2", "utime"}


class Inconclusive(lib.ToolError):
    pass


def scratch_root():
    """all scenario / sandbox directories of this run live below one directory in /dev/shm (removed at the end)"""
    base = "/dev/shm" if os.path.isdir("/dev/shm") else "/tmp"
    return os.path.join(base, f"c06.{os.getpid()}")


# --------------------------------------------------------------------------- strace log -> FS events
HEXRUN = re.compile(r'((?:\\x[0-9a-f]{2})+)')
SB_RE = re.compile(r'/c06-h\d+/([^/]+)/sb(?:/(.*))?$')


def unhex(s):
    """bytes of a strace -xx string body (only \\xNN escapes)"""
    return bytes.fromhex(s.replace("\\x", ""))


def split_args(s):
    out, depth, cur, inq = [], 0, [], False
    for ch in s:
        if inq:
            cur.append(ch)
            if ch == '"':
                inq = False
            continue
        if ch == '"':
            inq = True
            cur.append(ch)
        elif ch in "([{<":
            depth += 1
            cur.append(ch)
        elif ch in ")]}>":
            depth -= 1
            cur.append(ch)
        elif ch == "," and depth == 0:
            out.append("".join(cur).strip())
            cur = []
        else:
            cur.append(ch)
    if cur:
        out.append("".join(cur).strip())
    return out


def arg_str(a):
    """a quoted strace string argument -> bytes (None if it is not a complete string literal)"""
    m = re.fullmatch(r'"((?:\\x[0-9a-f]{2})*)"', a)
    return unhex(m.group(1)) if m else None


def arg_fd(a):
    """'9<\\x2f..>' -> (9, '/path') ; 'AT_FDCWD<..>' -> ('AT_FDCWD', path)"""
    m = re.fullmatch(r'(\w+)<((?:\\x[0-9a-f]{2})*)>', a)
    if not m:
        return None, None
    return m.group(1), unhex(m.group(2)).decode("utf-8", "surrogateescape")


CALL_RE = re.compile(r'^(\d+)\s+(\w+)\((.*)\)\s+=\s+(-?\d+|\?)(.*)$')


def strace_calls(path):
    """yield (pid, syscall, [args], ret, ret_annotation) in completion order; unfinished/resumed merged"""
    pending = {}
    with open(path, errors="surrogateescape") as f:
        for line in f:
            line = line.rstrip("\n")
            m = re.match(r'^(\d+)\s+(.*)$', line)
            if not m:
                continue
            pid, rest = m.group(1), m.group(2)
            if rest.startswith("+++") or rest.startswith("---"):
                continue
            if rest.endswith("<unfinished ...>"):
                pending[pid] = rest[: -len("<unfinished ...>")].rstrip()
                continue
            mr = re.match(r'^<\.\.\. (\w+) resumed>(.*)$', rest)
            if mr:
                head = pending.pop(pid, None)
                if head is None:
                    raise Inconclusive(f"strace: resumed call without a start: {line[:120]}")
                rest = head + mr.group(2)
            mc = CALL_RE.match(pid + " " + rest)
            if not mc:
                raise Inconclusive(f"strace: cannot parse line: {line[:160]}")
            ret = mc.group(4)
            yield pid, mc.group(2), split_args(mc.group(3)), (None if ret == "?" else int(ret)), mc.group(5)


def sandbox_of(p):
    """absolute path -> (case id, name relative to the sandbox or '' for the sandbox itself) or None"""
    m = SB_RE.search(p)
    if not m:
        return None
    return m.group(1), (m.group(2) or "")


def listing(root):
    files, dirs = [], []
    for base, ds, fs in os.walk(root):
        rel = os.path.relpath(base, root)
        for d in sorted(ds):
            dirs.append(os.path.normpath(os.path.join(rel, d)))
        for f in sorted(fs):
            n = os.path.normpath(os.path.join(rel, f))
            files.append({"name": n, "len": os.path.getsize(os.path.join(root, n))})
    return sorted(files, key=lambda x: x["name"]), sorted(dirs)


class CaseLog:
    def __init__(self, cid, pre_root):
        self.id = cid
        self.files, self.dirs = listing(pre_root)
        self.size = {f["name"]: f["len"] for f in self.files}
        self.isdir = set(self.dirs) | {""}
        self.events = []
        self.writes = {}
        self.utimes = {}      # event index -> [sec, nsec] set by an utimensat call

    def ev(self, **kw):
        self.events.append(kw)
        return len(self.events)


def parse_strace(log_path, ctx_dir):
    """-> {case id: CaseLog} with the events between the BEGIN and END markers of each case"""
    cases = {}
    cur = None           # CaseLog being recorded
    fds = {}             # fd -> dict(path, pos, append, case, name, dir)

    def resolve(dfd_arg, path_bytes):
        p = path_bytes.decode("utf-8", "surrogateescape")
        if p.startswith("/"):
            return os.path.normpath(p)
        _, base = arg_fd(dfd_arg)
        if base is None:
            raise Inconclusive(f"strace: relative path {p!r} without a resolvable directory")
        return os.path.normpath(os.path.join(base, p))

    for pid, sc, a, ret, tail in strace_calls(log_path):
        # ---- markers
        if sc == "unlink" and a and (arg_str(a[0]) or b"").endswith(b"__C06_BEGIN__"):
            sb = sandbox_of(arg_str(a[0]).decode())
            cur = CaseLog(sb[0], os.path.join(ctx_dir, sb[0], "pre"))
            cases[cur.id] = cur
            continue
        if sc == "unlink" and a and (arg_str(a[0]) or b"").endswith(b"__C06_END__"):
            cur.closed = True
            cur = None
            continue
        if ret is None or ret < 0:
            continue
        # ---- opens are tracked everywhere (fd table), recorded only inside the window
        if sc in ("openat", "open", "creat"):
            if sc == "openat":
                p, flags = resolve(a[0], arg_str(a[1])), a[2]
            elif sc == "open":
                p, flags = resolve("", arg_str(a[0])), a[1]
            else:
                p, flags = resolve("", arg_str(a[0])), "O_WRONLY|O_CREAT|O_TRUNC"
            sb = sandbox_of(p)
            if not sb:
                fds.pop(ret, None)
                continue
            fl = set(flags.split("|"))
            isdir = "O_DIRECTORY" in fl or (cur is not None and sb[0] == cur.id and sb[1] in cur.isdir)
            fds[ret] = {"case": sb[0], "append": "O_APPEND" in fl, "pos": 0, "dir": isdir,
                        "known": cur is not None and sb[0] == cur.id}
            if cur is None or sb[0] != cur.id or isdir:
                continue
            wr = bool(fl & {"O_WRONLY", "O_RDWR", "O_CREAT", "O_TRUNC"})
            if not wr:
                continue
            name = sb[1]
            creat, trunc = "O_CREAT" in fl, "O_TRUNC" in fl
            if "O_TMPFILE" in fl:
                raise Inconclusive("strace: O_TMPFILE is not modelled")
            if name not in cur.size:
                if not creat:
                    raise Inconclusive(f"strace: open of unknown file {name}")
                cur.size[name] = 0
            elif trunc:
                cur.size[name] = 0
            cur.ev(op="open", name=name, creat=creat, trunc=trunc)
            continue
        if cur is None:
            continue
        # ---- everything below: inside the window of case `cur`
        if sc in UNSUPPORTED:
            if any(sandbox_of(arg_fd(x)[1] or "") or (arg_str(x) and sandbox_of(arg_str(x).decode("utf-8", "replace"))) for x in a):
                raise Inconclusive(f"strace: system call {sc} on the sandbox is not modelled")
            continue
        if sc in ("write", "pwrite64", "writev", "pwritev"):
            fd, p = arg_fd(a[0])
            sb = sandbox_of(p or "")
            if not sb or sb[0] != cur.id:
                continue
            if p.endswith(" (deleted)"):
                continue    # an unlinked file is unreachable after a crash
            name = sb[1]
            fdi = fds.get(int(fd))
            if sc in ("write", "pwrite64"):
                data = arg_str(a[1])
            else:
                parts = re.findall(r'iov_base="((?:\\x[0-9a-f]{2})*)"', a[1])
                data = b"".join(unhex(x) for x in parts) if parts else None
            if data is None:
                raise Inconclusive(f"strace: cannot read the data of a {sc} on {name}")
            data = data[:ret]
            if len(data) != ret:
                raise Inconclusive(f"strace: {sc} on {name} returned {ret} but {len(data)} bytes were logged")
            if sc in ("pwrite64", "pwritev"):
                off = int(a[3])
            else:
                if fdi is None or not fdi["known"]:
                    raise Inconclusive(f"strace: write through a descriptor opened before the save ({name})")
                off = cur.size[name] if fdi["append"] else fdi["pos"]
                fdi["pos"] = off + ret
            if name not in cur.size:
                raise Inconclusive(f"strace: write to unknown file {name}")
            cur.size[name] = max(cur.size[name], off + ret)
            if ret > 0:
                idx = cur.ev(op="write", name=name, off=off, len=ret)
                cur.events[-1]["src"] = f"w{idx}"
                cur.writes[str(idx)] = data.hex()
            continue
        if sc in ("fsync", "fdatasync"):
            fd, p = arg_fd(a[0])
            sb = sandbox_of(p or "")
            if not sb or sb[0] != cur.id or p.endswith(" (deleted)"):
                continue
            if sb[1] in cur.isdir:
                cur.ev(op="dirsync", name=sb[1])
            else:
                cur.ev(op="fsync", name=sb[1])
            continue
        if sc in ("utimensat", "futimesat", "utimes"):
            # modification time = data for DiskCache (expiry); tag "t<event>", the value goes to events.json
            if sc == "utimes":
                p, times = resolve("", arg_str(a[0])), a[1]
            else:
                _, p = arg_fd(a[0])
                if a[1] != "NULL":
                    p = resolve(a[0], arg_str(a[1]))
                times = a[2]
            sb = sandbox_of(p or "")
            if not sb or sb[0] != cur.id or (p or "").endswith(" (deleted)") or sb[1] in cur.isdir:
                continue
            toks = re.findall(r'UTIME_OMIT|UTIME_NOW|\{tv_sec=-?\d+, tv_[nu]sec=\d+\}', times)
            if times == "NULL":
                cur.ev(op="utime", name=sb[1], src="now")
            elif len(toks) != 2:
                raise Inconclusive(f"strace: cannot read the times of {sc} on {sb[1]}: {times[:80]}")
            elif toks[1] == "UTIME_OMIT":
                pass
            elif toks[1] == "UTIME_NOW":
                cur.ev(op="utime", name=sb[1], src="now")
            else:
                m = re.match(r'\{tv_sec=(-?\d+), tv_([nu])sec=(\d+)\}', toks[1])
                idx = cur.ev(op="utime", name=sb[1])
                cur.events[-1]["src"] = f"t{idx}"
                cur.utimes[str(idx)] = [int(m.group(1)), int(m.group(3)) * (1000 if m.group(2) == "u" else 1)]
            continue
        if sc in ("ftruncate", "truncate"):
            if sc == "ftruncate":
                _, p = arg_fd(a[0])
            else:
                p = resolve("", arg_str(a[0]))
            sb = sandbox_of(p or "")
            if not sb or sb[0] != cur.id:
                continue
            n = int(a[1])
            cur.size[sb[1]] = n
            cur.ev(op="trunc", name=sb[1], len=n)
            continue
        if sc in ("rename", "renameat", "renameat2"):
            if sc == "rename":
                src, dst = resolve("", arg_str(a[0])), resolve("", arg_str(a[1]))
            else:
                src, dst = resolve(a[0], arg_str(a[1])), resolve(a[2], arg_str(a[3]))
                if sc == "renameat2" and a[4] not in ("0", "0x0"):
                    raise Inconclusive(f"strace: renameat2 flags {a[4]} are not modelled")
            s1, s2 = sandbox_of(src), sandbox_of(dst)
            if not s1 and not s2:
                continue
            if not (s1 and s2 and s1[0] == cur.id and s2[0] == cur.id):
                raise Inconclusive("strace: rename across the sandbox boundary")
            if s1[1] in cur.isdir:
                raise Inconclusive("strace: rename of a directory is not modelled")
            cur.size[s2[1]] = cur.size.pop(s1[1])
            cur.ev(op="rename", **{"from": s1[1], "to": s2[1]})
            continue
        if sc in ("unlink", "unlinkat", "rmdir"):
            if sc == "unlinkat":
                p = resolve(a[0], arg_str(a[1]))
                isrm = "AT_REMOVEDIR" in a[2]
            else:
                p = resolve("", arg_str(a[0]))
                isrm = sc == "rmdir"
            sb = sandbox_of(p)
            if not sb or sb[0] != cur.id:
                continue
            if isrm:
                cur.isdir.discard(sb[1])
                cur.ev(op="rmdir", name=sb[1])
            else:
                cur.size.pop(sb[1], None)
                cur.ev(op="unlink", name=sb[1])
            continue
        if sc in ("mkdir", "mkdirat"):
            p = resolve("", arg_str(a[0])) if sc == "mkdir" else resolve(a[0], arg_str(a[1]))
            sb = sandbox_of(p)
            if not sb or sb[0] != cur.id:
                continue
            cur.isdir.add(sb[1])
            cur.ev(op="mkdir", name=sb[1])
            continue
    for c in cases.values():
        if not getattr(c, "closed", False):
            raise Inconclusive(f"strace: no END marker for case {c.id}")
    return cases


# --------------------------------------------------------------------------- findings
PROP = "C06"


def known_findings(ctx):
    """findings.d/F06*.json is the source of KNOWN_FINDINGS.json (bin/mkmanifest); read it directly so that the
    check does not depend on the generated file being fresh."""
    import glob
    ids = set(lib.known_ids(ctx, PROP))
    have = {f["id"] for f in ctx.known.get("findings", [])}
    fixed = " ".join(ctx.known.get("fixed", []))
    for p in sorted(glob.glob(os.path.join(lib.ROOT, "findings.d", "F06*.json"))):
        f = json.load(open(p))
        if f.get("property") == PROP and f.get("status", "known") == "known" and f["what"] not in fixed:
            ids.add(f["id"])
            if f["id"] not in have:
                ctx.known.setdefault("findings", []).append(f)
    # development aid (like VERIF_REPO): judge a scratch worktree that carries a proposed fix as if the finding
    # were already recorded as fixed, e.g. VERIF_C06_KNOWN=F06b.  Registered commands never set it.
    if "VERIF_C06_KNOWN" in os.environ and lib.REPO != "/repo":
        ids = {x for x in os.environ["VERIF_C06_KNOWN"].split(",") if x}
    return sorted(ids)


# --------------------------------------------------------------------------- stage 1: models + cases
MODEL_ROUTINES = [("index", False), ("res", False), ("disk", False), ("lru_fixed", False), ("journal_fixed", False),
                  ("lru", True), ("lru_inplace", True), ("journal", True), ("journal_save", True),
                  ("disk_nosync", True)]   # (routine, refutation expected)
FS_CONSTS = {"FineLimit": 4096, "SampleSeed": 1, "SampleN": 8}


def model_check(ctx):
    """TLC on the protocol models: Recover in {Old, New} for every crash instant x disk state."""
    res = {}
    shapes = {}

    def one(rt):
        routine, expect = rt
        cfg = ctx.path(f"mc_{routine}.cfg")
        lib.write_cfg(cfg, dict(FS_CONSTS, Routine=f'"{routine}"', MaxSaves=3, Strict="FALSE", D=0),
                      "MCInit", "MCNext", invariants=["OldOrNew", "ShapeOut"])
        r = lib.tlc(ctx, MODULE_MC, cfg, workers=1, timeout=600, expect_violation=True, heap="2g")
        return routine, expect, r

    with ThreadPoolExecutor(max_workers=lib.NCPU) as ex:
        for routine, expect, r in ex.map(one, MODEL_ROUTINES):
            refuted = "OldOrNew" in r["invariant_violated"]
            ctx.cov["states"] += r["distinct"]
            ctx.cov["transitions"] += r["generated"]
            res[routine] = {"refuted": refuted, "expected_refuted": expect, "distinct_states": r["distinct"]}
            for p in r["tagged"].get("PROTOCOL", []):
                shapes.setdefault(routine, {}).setdefault(p["save"], []).append(p["steps"])
            if refuted:
                # the counterexample is a candidate only; keep its last lines for the evidence file
                m = re.search(r"Error: Invariant OldOrNew is violated\..*?(?=\n\d+ states generated)", r["text"], re.S)
                res[routine]["counterexample_tail"] = (m.group(0) if m else "")[-1500:]
            if refuted != expect:
                # a model that disagrees with its documented expectation is a modelling problem, not a verdict
                res[routine]["unexpected"] = True
    ctx.stage("model", **{k: ("refuted" if v["refuted"] else "holds") for k, v in res.items()})
    ctx.cov["model_level"] = res
    return shapes


def gen_cases(ctx, plan):
    """TLC enumerates the histories; plan: [(routine, depth, maxsaves, params-list[, tag])]"""
    cases = []
    plan = [(it + (it[0],))[:5] for it in plan]

    def one(item):
        routine, depth, maxsaves, _, tag = item
        cfg = ctx.path(f"gen_{tag}.cfg")
        lib.write_cfg(cfg, dict(FS_CONSTS, Routine=f'"{routine}"', MaxSaves=maxsaves, Strict="FALSE", D=depth),
                      "GInit", "GNext", invariants=["EmitCase"])
        out = ctx.path(f"cases_{tag}.ndjson")
        r = lib.tlc(ctx, MODULE_MC, cfg, workers=1, timeout=600, tagged_out={"PROGRAM": out}, heap="2g")
        return item, out, r

    with ThreadPoolExecutor(max_workers=lib.NCPU) as ex:
        for (routine, depth, maxsaves, params, tag), out, r in ex.map(one, plan):
            ctx.cov["states"] += r["distinct"]
            ctx.cov["transitions"] += r["generated"]
            progs = sorted(set(lib.read_lines(out)))
            k = 0
            for line in progs:
                p = json.loads(line)
                for par in params:
                    k += 1
                    cases.append(dict(p, id=f"{tag}-{k:05d}", **par))
            ctx.stage("cases", routine=routine, tag=tag, depth=depth, max_saves=maxsaves, params=params, histories=len(progs), cases=k, wall_s=r["wall_s"])
    return cases


# --------------------------------------------------------------------------- stage 2: histories under strace
def run_histories(ctx, cases, ctxdir, tag="h"):
    """drv_crash history under strace, sharded; -> {case id: CaseLog}"""
    shards = max(1, min(lib.NCPU, len(cases) // 8 + 1))
    per = (len(cases) + shards - 1) // shards
    jobs = []
    for i in range(shards):
        chunk = cases[i * per:(i + 1) * per]
        if not chunk:
            continue
        cp = ctx.path(f"{tag}_cases_{i}.ndjson")
        open(cp, "w").write("\n".join(json.dumps(c) for c in chunk) + "\n")
        jobs.append((cp, ctx.path(f"{tag}_strace_{i}.log")))

    def one(job):
        cp, lp = job
        cmd = ["strace", "-f", "-y", "-xx", "-s", "4000000", "-e", "trace=" + TRACED, "-o", lp,
               lib.bin_path("drv_crash"), "history", "--cases", cp, "--ctx", ctxdir]
        try:
            r = subprocess.run(cmd, stdout=subprocess.PIPE, stderr=subprocess.PIPE, text=True, timeout=1500,
                               env=dict(os.environ, C06_SCRATCH=scratch_root()))
        except subprocess.TimeoutExpired:
            raise lib.ToolError("drv_crash history timed out")
        if r.returncode != 0:
            lib.log(r.stderr[-3000:])
            raise lib.ToolError(f"drv_crash history (under strace) exited {r.returncode}")
        logs = parse_strace(lp, ctxdir)
        os.remove(lp)
        return logs

    t = time.time()
    allc = {}
    with ThreadPoolExecutor(max_workers=len(jobs)) as ex:
        for logs in ex.map(one, jobs):
            allc.update(logs)
    missing = [c["id"] for c in cases if c["id"] not in allc]
    if missing:
        raise Inconclusive(f"no system-call window recorded for cases {missing[:5]}")
    for cid, c in allc.items():
        json.dump({"writes": c.writes, "utimes": c.utimes}, open(os.path.join(ctxdir, cid, "events.json"), "w"))
    ctx.stage("history", cases=len(allc), fs_events=sum(len(c.events) for c in allc.values()), wall_s=round(time.time() - t, 2))
    return allc


# --------------------------------------------------------------------------- stage 3: scenarios (T_CrashFS)
def gen_scenarios(ctx, cases, logs, strict, fs_consts, tag):
    """one TLC run per chunk of cases; -> path of the scenario file (sorted by case), counts"""
    ids = [c["id"] for c in cases]
    nchunks = max(1, min(lib.NCPU, len(ids) // 6 + 1))
    per = (len(ids) + nchunks - 1) // nchunks
    jobs = []
    for i in range(nchunks):
        chunk = ids[i * per:(i + 1) * per]
        if not chunk:
            continue
        tp = ctx.path(f"{tag}_fs_{i}.ndjson")
        with open(tp, "w") as f:
            for cid in chunk:
                c = logs[cid]
                f.write(json.dumps({"op": "new", "case": cid, "files": c.files, "dirs": c.dirs}) + "\n")
                for e in c.events:
                    f.write(json.dumps(e) + "\n")
        jobs.append((i, tp))
    cfg = ctx.path(f"{tag}_fs.cfg")
    lib.write_cfg(cfg, dict(fs_consts, Strict="TRUE" if strict else "FALSE"), "TInit", "TNext", invariants=["Emit", "Fin"], view="View")

    def one(job):
        i, tp = job
        out = ctx.path(f"{tag}_scn_{i}.ndjson")
        r = lib.tlc(ctx, MODULE_FS, cfg, workers=2, timeout=1500, env={"TRACE": tp}, tagged_out={"SCENARIO": out}, heap="3g")
        fin = r["tagged"].get("FSDONE")
        if not fin:
            lib.log(r["text"][-3000:])
            raise lib.ToolError("T_CrashFS did not reach the end of the trace")
        if fin[-1]["bad"]:
            lines = lib.read_lines(tp)
            raise Inconclusive(f"T_CrashFS could not apply events: {[lines[k - 1] for k in fin[-1]['bad'][:3]]}")
        # every crash state must have been printed: distinct states = the chain of Len(trace)+1 stepping states + crash states
        if r["counts"]["SCENARIO"] != r["distinct"] - (fin[-1]["events"] + 1):
            raise lib.ToolError(f"T_CrashFS: {r['counts']['SCENARIO']} SCENARIO lines for {r['distinct'] - fin[-1]['events'] - 1} crash states")
        return out, r

    t = time.time()
    total = ctx.path(f"{tag}_scenarios.ndjson")
    gen = dist = n = 0
    with ThreadPoolExecutor(max_workers=max(1, lib.NCPU // 2)) as ex, open(total, "w") as tf:
        for out, r in ex.map(one, jobs):
            gen += r["generated"]
            dist += r["distinct"]
            lines = lib.read_lines(out)
            lines.sort(key=lambda s: (json.loads(s)["case"], json.loads(s)["pos"], hashlib.md5(s.encode()).hexdigest()))
            n += len(lines)
            tf.write("\n".join(lines) + ("\n" if lines else ""))
            os.remove(out)
    ctx.cov["states"] += dist
    ctx.cov["transitions"] += gen
    ctx.stage("scenarios", mode="dirops_prefix" if strict else "c06", crash_states_generated=gen, distinct_states=dist, scenarios=n,
              wall_s=round(time.time() - t, 2))
    return total, n, gen


# --------------------------------------------------------------------------- stage 4+5: recover, judge
def run_recover(ctx, scn_path, ctxdir, trace):
    d = lib.run_sharded(ctx, "drv_crash", scn_path, trace, extra_args=["--ctx", ctxdir], shards=lib.NCPU,
                        prog_flag="--scenarios", out_flag="--out", env={"C06_SCRATCH": scratch_root()})
    return d


def judge_trace(ctx, trace, source, kd):
    cfg = ctx.path("t_judge.cfg")
    lib.write_cfg(cfg, {"KnownDeviations": lib.tla_set(kd)}, "TInit", "TNext", invariants=["Done"])
    v = lib.judge(ctx, MODULE_J, cfg, trace, max_events=max(2000, sum(1 for _ in open(trace)) // (2 * lib.NCPU)))
    ctx.stage("judge", source=source, events=v["events"], violations=len(v["violations"]),
              deviations={f: v.get("dev_" + f, 0) for f in ("F06a", "F06b", "F06d")},
              rec_old=v.get("rec_old", 0), rec_new=v.get("rec_new", 0), rec_same=v.get("rec_same", 0),
              strict_nonconforming=v.get("strict_nonconforming", 0), wall_s=v["wall_s"])
    return v


# --------------------------------------------------------------------------- shapes (model vs observed; informational)
def _units(steps):
    """split a step list at every open/mkdir that follows a non-open step; normalise file names by first appearance"""
    units, cur = [], []
    for s in steps:
        if s.split(":")[0] in ("open", "mkdir") and cur and cur[-1].split(":")[0] not in ("open", "mkdir"):
            units.append(cur)
            cur = []
        if cur and s.startswith("write:") and cur[-1] == s:
            continue
        cur.append(s)
    if cur:
        units.append(cur)
    out = set()
    for u in units:
        names = {}

        def nm(x):
            return names.setdefault(x, f"f{len(names) + 1}")
        norm = []
        for s in u:
            op, rest = s.split(":", 1)
            if op == "rename":
                a, b = rest.split(">")
                norm.append(f"rename:{nm(a)}>{nm(b)}")
            else:
                norm.append(f"{op}:{nm(rest)}")
        out.add(" ".join(norm))
    return out


def observed_steps(clog):
    st = []
    for e in clog.events:
        if e["op"] == "rename":
            st.append(f"rename:{e['from']}>{e['to']}")
        else:
            st.append(f"{e['op']}:{e.get('name', '')}")
    return st


def compare_shapes(ctx, shapes, cases, logs):
    model_units = {}
    for routine, per_save in shapes.items():
        # lru_fixed / journal_fixed: the shapes after fixes/F06a.patch / fixes/F06b.patch
        drv = "lru" if routine.startswith("lru") else "journal" if routine.startswith("journal") else routine
        if routine == "disk_nosync":
            continue      # not a shape the code may have
        for variants in per_save.values():
            for steps in variants:
                model_units.setdefault(drv, set()).update(_units(steps))
    mism = {}
    for c in cases:
        obs = _units(observed_steps(logs[c["id"]]))
        extra = obs - model_units.get(c["routine"], set())
        for u in extra:
            mism.setdefault(c["routine"], {}).setdefault(u, c["id"])
    ctx.cov["model_shape_mismatch"] = {r: [{"unit": u, "first_case": cid} for u, cid in sorted(m.items())][:8] for r, m in mism.items()}
    ctx.stage("shapes", routines_with_unmodelled_step_sequences=sorted(mism))


# --------------------------------------------------------------------------- classification / replay
def classify(ctx, v, trace, source, max_reports=5):
    for fid in ("F06a", "F06b", "F06d"):
        k = v.get("dev_" + fid, 0)
        if k:
            lib.note_known(ctx, fid, k)
            ctx.cov["deviations_observed"][fid] = ctx.cov["deviations_observed"].get(fid, 0) + k
    if not v["violations"]:
        return
    lines = lib.read_lines(trace)
    seen = set()
    for ln in v["violations"]:
        s, e = lib.run_of_line(lines, ln)
        hdr = json.loads(lines[s])
        if hdr.get("case") in seen:
            continue
        seen.add(hdr.get("case"))
        if len(seen) > max_reports:
            break
        ev = json.loads(lines[ln - 1])
        if ev.get("op") == "new":
            what = (f"{source}: case {hdr.get('case')} ops={hdr.get('ops')} stage={hdr.get('stage')}: the COMPLETED save does not show the state it was asked to "
                    f"persist: reopening shows ok={hdr['new'].get('ok')} {hdr['new'].get('proj')}, in memory {hdr.get('mem_new')} "
                    f"(before the save call {hdr.get('mem_pre')}), on disk before {hdr['old'].get('proj')}, save={hdr.get('save')}")
            lib.report_violation(ctx, what, {
                "property": PROP, "source": source, "program": {"case": hdr.get("def")}, "scenario": {"pos": "end", "mode": "c06"},
                "header": hdr, "offending_event": ev,
                "explanation": "after the completed save (every byte arrived) the real recovery does not show the new state"})
            continue
        what = (f"{source}: case {hdr.get('case')} ops={hdr.get('ops')}: crash at position {ev.get('pos')} with "
                f"{[(f['name'], f['cls'], f['len']) for f in ev.get('disk', [])]} recovered to ok={ev.get('res', {}).get('ok')} "
                f"proj={ev.get('res', {}).get('proj')} (old={hdr.get('old', {}).get('proj')}, new={hdr.get('new', {}).get('proj')}), "
                f"resave={ev.get('resave')}")
        lib.report_violation(ctx, what, {
            "property": PROP, "source": source, "program": {"case": hdr.get("def")},
            "scenario": {"pos": ev.get("pos"), "mode": ev.get("mode"), "dirs": ev.get("dirs"), "disk": ev.get("disk")},
            "header": hdr, "offending_event": ev,
            "explanation": "the real recovery on this post-crash directory failed, or showed a state that is neither the complete "
                           "old nor the complete new one for some object, or the store could not be saved and reloaded afterwards; "
                           "no listed deviation explains it"})
    ctx.cov["violating_cases"] = ctx.cov.get("violating_cases", 0) + len(seen)
    # all violating cases by routine (the VIOLATION lines above are capped)
    per = {}
    for ln in v["violations"]:
        s, _ = lib.run_of_line(lines, ln)
        h = json.loads(lines[s])
        per.setdefault(h.get("routine"), set()).add(h.get("case"))
    ctx.cov["violating_cases_by_routine"] = {r: len(c) for r, c in per.items()}
    ctx.stage("violations", scenarios=len(v["violations"]), cases_by_routine=ctx.cov["violating_cases_by_routine"])


def window_signature(case, clog, ctxdir):
    """Two cases with the same routine parameters, byte-identical directories before and after the save and the same
    recorded calls (names, offsets, data) have the same crash scenarios and - recovery being a function of the
    directory - the same recoveries: scenarios are generated and recovered once per signature."""
    h = hashlib.md5()
    h.update(json.dumps([case["routine"], {k: v for k, v in case.items() if k not in ("id", "ops", "routine", "base")}], sort_keys=True).encode())
    for sub in ("pre", "post"):
        root = os.path.join(ctxdir, case["id"], sub)
        files, dirs = listing(root)
        h.update(json.dumps([sub, dirs]).encode())
        for f in files:
            h.update(f["name"].encode() + b"\0")
            with open(os.path.join(root, f["name"]), "rb") as fh:
                h.update(hashlib.md5(fh.read()).digest())
    h.update(json.dumps(clog.events, sort_keys=True).encode())
    h.update(json.dumps(clog.writes, sort_keys=True).encode())
    return h.hexdigest()


def pipeline(ctx, cases, kd, tag, fs_consts, strict=False, source="cases", ctxdir=None):
    """cases -> (verdict, trace path, number of scenarios)"""
    ctxdir = ctxdir or ctx.path(f"{tag}_ctx")
    os.makedirs(ctxdir, exist_ok=True)
    logs = run_histories(ctx, cases, ctxdir, tag=tag)
    reps, seen = [], {}
    ctx.c06_sig = getattr(ctx, "c06_sig", {})
    for c in cases:
        sig = window_signature(c, logs[c["id"]], ctxdir)
        ctx.c06_sig[c["id"]] = sig
        if sig in seen:
            seen[sig].append(c["id"])
        else:
            seen[sig] = [c["id"]]
            reps.append(c)
    ctx.stage("windows", cases=len(cases), distinct_save_windows=len(reps))
    ctx.c06_reps = getattr(ctx, "c06_reps", {})
    ctx.c06_reps[tag] = reps
    ctx.cov.setdefault("distinct_save_windows", {})[tag] = len(reps)
    scn, n, gen = gen_scenarios(ctx, reps, logs, strict, fs_consts, tag)
    trace = ctx.path(f"{tag}_trace.ndjson")
    d = run_recover(ctx, scn, ctxdir, trace)
    ctx.stage("recover", scenarios=d.get("programs"), events=d.get("events"), hangs=d.get("hangs"), wall_s=d["wall_s"])
    if d.get("programs") != n:
        raise lib.ToolError(f"driver executed {d.get('programs')} of {n} scenarios")
    v = judge_trace(ctx, trace, source, kd)
    return v, trace, scn, n, gen, logs, ctxdir


def stage2_cases(ctx, base_cases, logs, plan2, seed, max_per_routine):
    """Two-stage histories: start from post-crash directories of first-stage saves (leftover temporary files and all).
    base_cases: representatives of first-stage save windows; plan2: {routine: [op sequences ending in a save]}.
    The directories come from T_CrashFS in coarse mode (every position x {full, zeros, stale, a few prefix lengths})."""
    coarse = dict(FS_CONSTS, FineLimit=0, SampleN=1, SampleSeed=seed)
    scn, n, _ = gen_scenarios(ctx, base_cases, logs, False, coarse, "b")
    by_id = {c["id"]: c for c in base_cases}
    seen, per = set(), {}
    for line in lib.read_lines(scn):
        sc = json.loads(line)
        if sc["pos"] == 0 or not any(f["born"] or f["cls"] != "durable" for f in sc["files"]):
            continue      # the directory before the save: that is a longer first-stage history
        base = by_id[sc["case"]]
        par = {k: v for k, v in base.items() if k not in ("id", "ops", "routine")}
        # one directory per (position, outcome class of every file): of the prefix outcomes the empty one and one other
        desc = json.dumps([base["routine"], par, base["ops"], sc["pos"],
                           sorted((re.sub(r"\.\d+\.\d+\.tmp$", ".N.tmp", f["name"]), f["cls"], f["len"] == 0, f["mt"]) for f in sc["files"])])
        h = hashlib.md5(desc.encode()).hexdigest()
        if h in seen:
            continue
        seen.add(h)
        per.setdefault(base["routine"], []).append((h, base, par, sc))
    cases2 = []
    for routine, items in sorted(per.items()):
        items.sort(key=lambda x: hashlib.md5((x[0] + str(seed)).encode()).hexdigest())     # seeded choice when capped
        combos = [(it, ops) for it in items for ops in plan2.get(routine, [])]
        cap = max_per_routine.get(routine, 200) if isinstance(max_per_routine, dict) else max_per_routine
        if len(combos) > cap:
            # keep every base directory at least once (with a seeded choice of its second history), then fill up
            first, rest = {}, []
            for c in sorted(combos, key=lambda c: hashlib.md5((c[0][0] + "/".join(c[1]) + str(seed)).encode()).hexdigest()):
                if c[0][0] in first:
                    rest.append(c)
                else:
                    first[c[0][0]] = c
            combos = (list(first.values()) + rest)[:cap]
        for k, ((h, base, par, sc), ops) in enumerate(combos):
            cases2.append(dict(par, id=f"{routine}2-{k + 1:05d}", routine=routine, ops=ops,
                               base={"def": base, "scn": {"pos": sc["pos"], "dirs": sc["dirs"], "files": sc["files"]}}))
        ctx.stage("stage2", routine=routine, base_directories=len(items), second_histories=len(plan2.get(routine, [])),
                  cases=sum(1 for c in cases2 if c["routine"] == routine))
    return cases2


def replay(ctx, kd):
    obj = json.load(open(ctx.replay))
    case = dict(obj["program"]["case"])
    case.setdefault("id", "replay-1")
    consts = dict(FS_CONSTS)
    ctxdir = ctx.path("rp_ctx")
    os.makedirs(ctxdir, exist_ok=True)
    if "base" in case:
        # second-stage case: its start directory is built from the first-stage case's recorded calls
        run_histories(ctx, [case["base"]["def"]], ctxdir, tag="rpb")
    v, trace, scn, n, gen, logs, _ = pipeline(ctx, [case], kd, "rp", consts, strict=(obj.get("scenario", {}).get("mode") == "dirops_prefix"),
                                              source="replay", ctxdir=ctxdir)
    lines = lib.read_lines(trace)
    print(lines[0])
    for ln in v["violations"][:10]:
        print("VIOLATING " + lines[ln - 1])
    for ln, fid in v["deviations"][:10]:
        print(f"DEVIATION {fid} " + lines[ln - 1])
    print(json.dumps(v))
    for fid in ("F06a", "F06b", "F06d"):
        if v.get("dev_" + fid, 0):
            f = next((x for x in ctx.known.get("findings", []) if x["id"] == fid), None)
            print(f"KNOWN-FINDING: property={PROP} {fid}: {f['what'] if f else fid} (observed {v['dev_' + fid]}x)")
    if obj.get("scenario", {}).get("mode") == "dirops_prefix":
        return 0
    return 1 if v["violations"] else 0


# --------------------------------------------------------------------------- binding self-test
def selftest(ctx, trace, kd, cases, logs, ctxdir, fs_consts):
    lines = lib.read_lines(trace)
    # a run of a routine without deviations, short enough
    s = next(i for i, l in enumerate(lines) if lib.is_new(l) and json.loads(l)["routine"] in ("disk", "index", "res")
             and json.loads(l)["old"]["proj"] != json.loads(l)["new"]["proj"])
    e = s + 1
    while e < len(lines) and not lib.is_new(lines[e]) and e - s < 400:
        e += 1
    base = lines[s:e]
    p0 = ctx.path("st_0.ndjson"); open(p0, "w").write("\n".join(base) + "\n")
    cfg = ctx.path("t_judge.cfg")
    v0 = lib.tlc_trace(ctx, MODULE_J, cfg, p0)
    # (a) corrupt one recorded projection
    ia = next(i for i in range(1, len(base)) if json.loads(base[i])["res"]["ok"])
    ea = json.loads(base[ia])
    ea["res"]["proj"] = {k: v + "#" for k, v in ea["res"]["proj"].items()} or {"ghost": "x"}
    la = list(base); la[ia] = json.dumps(ea, separators=(",", ":"))
    pa = ctx.path("st_a.ndjson"); open(pa, "w").write("\n".join(la) + "\n")
    va = lib.tlc_trace(ctx, MODULE_J, cfg, pa)
    # (b) drop one event
    ib = min(len(base) - 2, max(1, len(base) // 2))
    lb = list(base); del lb[ib]
    pb = ctx.path("st_b.ndjson"); open(pb, "w").write("\n".join(lb) + "\n")
    vb = lib.tlc_trace(ctx, MODULE_J, cfg, pb)
    ok_a = (ia + 1) in va["violations"] and (ia + 1) not in v0["violations"]
    ok_b = (ib + 1) in vb["violations"] and len(vb["violations"]) > len(v0["violations"])
    # (c) binding G: remove the fsync calls from a recorded residency / index trace -> the scenarios that FS.tla then
    #     admits (torn file under its final name) must be judged violations when the REAL loaders see them
    cand = [c for c in cases if c["routine"] in ("res", "index") and sum(1 for o in c["ops"] if o in ("save", "flush")) >= 2
            and any(x["op"] == "fsync" for x in logs[c["id"]].events) and any(f["len"] > 0 for f in logs[c["id"]].files)]
    ok_c = None
    if cand:
        c = dict(cand[len(cand) // 2])
        clog = logs[c["id"]]
        keep = clog.events
        clog.events = [x for x in keep if x["op"] != "fsync"]
        try:
            scn, n, gen = gen_scenarios(ctx, [c], {c["id"]: clog}, False, fs_consts, "stc")
        finally:
            clog.events = keep
        tr = ctx.path("stc_trace.ndjson")
        run_recover(ctx, scn, ctxdir, tr)
        vc = lib.judge(ctx, MODULE_J, cfg, tr, max_events=40000)
        ok_c = len(vc["violations"]) > 0
    res = {"corrupt_one_field_flagged": ok_a, "drop_one_event_flagged": ok_b, "trace_without_fsync_yields_violations": ok_c}
    ctx.cov["binding_selftest"] = res
    if not (ok_a and ok_b and ok_c is not False):
        raise lib.ToolError(f"binding self-test failed: {res}")


# --------------------------------------------------------------------------- main
def scenario_stats(scn_path, cases):
    by_id = {c["id"]: c for c in cases}
    seen = set()
    nontrivial = 0
    per_routine = {}
    with open(scn_path) as f:
        for line in f:
            s = json.loads(line)
            c = by_id[s["case"]]
            desc = json.dumps([c["routine"], c["ops"], {k: v for k, v in c.items() if k not in ("id", "routine", "ops")},
                               sorted((re.sub(r"\.\d+\.\d+\.tmp$", ".N.tmp", x["name"]), x["cls"], x["len"], json.dumps(x["parts"])) for x in s["files"]),
                               sorted(s["dirs"])])
            h = hashlib.md5(desc.encode()).digest()
            if h in seen:
                continue
            seen.add(h)
            nt = s["pos"] > 0 and any(x["born"] or x["cls"] != "durable" for x in s["files"])
            if nt:
                nontrivial += 1
            r = per_routine.setdefault(c["routine"], {"scenarios": 0, "nontrivial": 0})
            r["scenarios"] += 1
            r["nontrivial"] += int(nt)
    return len(seen), nontrivial, per_routine


def run(ctx):
    os.makedirs(scratch_root(), exist_ok=True)
    try:
        return run_(ctx)
    finally:
        shutil.rmtree(scratch_root(), ignore_errors=True)


def run_(ctx):
    kd = known_findings(ctx)
    ctx.stage("build", wall_s=round(lib.build(["drv_crash"]), 2))
    if ctx.replay:
        return replay(ctx, kd)
    consts = dict(FS_CONSTS, SampleSeed=ctx.seed % 100000)
    if ctx.quick:
        plan = [("lru", 4, 3, [{"cap": 4}]),
                ("index", 3, 3, [{}]),
                ("res", 4, 3, [{"nb": 1}, {"nb": 2}]),
                ("res", 3, 3, [{"nb": 1, "direct": True}], "resdirect"),
                ("disk", 3, 3, [{"subdirs": s_, "bg": b_} for s_ in (True, False) for b_ in (False, True)]),
                ("journal", 4, 3, [{}])]
        nstrict = 2
        base_depth, max2 = 3, {"res": 600, "journal": 200, "lru": 250, "index": 150, "disk": 200}
        consts2 = dict(consts, FineLimit=0, SampleN=2)
    else:
        consts["SampleN"] = 40
        consts["FineLimit"] = 16384
        plan = [("lru", 5, 3, [{"cap": 4}, {"cap": 1}, {"cap": 60}]),
                ("index", 4, 3, [{}]),
                ("res", 5, 3, [{"nb": 1}, {"nb": 2}, {"nb": 3}]),
                ("res", 4, 3, [{"nb": 2, "direct": True}], "resdirect"),
                ("disk", 4, 3, [{"subdirs": s_, "bg": b_} for s_ in (True, False) for b_ in (False, True)]),
                ("journal", 5, 3, [{}])]
        base_depth, max2 = 4, {"res": 1500, "journal": 600, "lru": 1000, "index": 400, "disk": 800}
        consts2 = dict(consts, FineLimit=512, SampleN=6)
        nstrict = 6
    shapes = model_check(ctx)
    cases = gen_cases(ctx, plan)
    v, trace, scn, n, gen, logs, ctxdir = pipeline(ctx, cases, kd, "c", consts, source=f"MC_CrashSave histories x T_CrashFS scenarios seed={ctx.seed}")
    compare_shapes(ctx, shapes, cases, logs)
    classify(ctx, v, trace, "crash scenarios")
    distinct, nontrivial, per_routine = scenario_stats(scn, cases)
    # ---- two-stage histories: a second save on top of a post-crash directory of the first
    ops2 = {}
    for c2 in gen_cases(ctx, [(r, 2, 3, [{}], r + "_second") for r in ("lru", "index", "res", "disk", "journal")]):
        if not {"fill", "addf", "fresh"} & set(c2["ops"]):
            ops2.setdefault(c2["routine"], []).append(c2["ops"])
    base_cases, bsig = [], set()
    for c in sorted(cases, key=lambda c: (len(c["ops"]), c["id"])):      # the shortest history of every distinct short save window
        if len(c["ops"]) <= base_depth and "fill" not in c["ops"] and ctx.c06_sig[c["id"]] not in bsig:
            bsig.add(ctx.c06_sig[c["id"]])
            base_cases.append(c)
    cases2 = stage2_cases(ctx, base_cases, logs, ops2, ctx.seed, max2)
    v2, trace2, scn2, n2, gen2, logs2, _ = pipeline(ctx, cases2, kd, "t", consts2, source="two-stage histories", ctxdir=ctxdir)
    classify(ctx, v2, trace2, "two-stage crash scenarios")
    d2, nt2, pr2 = scenario_stats(scn2, cases2)
    ctx.cov["two_stage"] = {"base_save_windows": len(base_cases), "cases": len(cases2), "distinct_save_windows": ctx.cov["distinct_save_windows"].get("t"),
                            "scenarios": n2, "nontrivial": nt2, "per_routine": pr2,
                            "recovered_as": {"old": v2.get("rec_old", 0), "new": v2.get("rec_new", 0), "old_equals_new": v2.get("rec_same", 0)}}
    n, gen, distinct, nontrivial = n + n2, gen + gen2, distinct + d2, nontrivial + nt2
    cases_all = cases + cases2
    # samples: one non-trivial scenario per routine with what the real recovery showed
    lines = lib.read_lines(trace)
    seen_r = set()
    hdr = None
    for l in lines:
        e = json.loads(l)
        if e["op"] == "new":
            hdr = e
            continue
        if hdr["routine"] in seen_r or e["pos"] == 0 or all(f["cls"] == "durable" for f in e["disk"]) \
                or hdr["old"]["proj"] == hdr["new"]["proj"] or len(hdr["ops"]) < 3:
            continue
        seen_r.add(hdr["routine"])
        ctx.cov["samples"].append({"case": hdr["def"], "crash_position": e["pos"],
                                   "post_crash_directory": [{k: f[k] for k in ("name", "cls", "len", "vlen", "dlen")} for f in e["disk"]],
                                   "recovered": e["res"], "old": hdr["old"]["proj"], "new": hdr["new"]["proj"], "resave": e["resave"]})
    ctx.cov["roundtrip_mismatch_cases"] = sum(1 for l in lines if lib.is_new(l) and not json.loads(l)["roundtrip_same"])
    # informational: the save + reload that follows a recovery succeeded but did not show what was in memory (not judged)
    rs, hdr = {}, None
    for l in lines:
        if lib.is_new(l):
            hdr = json.loads(l)
        elif '"same":false' in l and hdr is not None:
            rs[hdr["routine"]] = rs.get(hdr["routine"], 0) + 1
    ctx.cov["resave_reload_differs_informational"] = rs
    if rs.get("journal") and "F06c" in kd:
        lib.note_known(ctx, "F06c", rs["journal"])
    finish_args = dict(n=n, nontrivial=nontrivial, distinct=distinct, gen=gen, per_routine=per_routine, v=v, cases=cases_all, consts=consts)
    if ctx.violations:
        # the verdict is in: no self-test / informational stage on a tree that violates the property
        return finish(ctx, **finish_args)
    selftest(ctx, trace, kd, cases, logs, ctxdir, consts)
    # informational: the stricter crash model (only a prefix of the directory operations is durable)
    by_r = {}
    for c in cases:
        by_r.setdefault(c["routine"], []).append(c)
    sub = []
    for r, cs in sorted(by_r.items()):
        cs = sorted(cs, key=lambda c: (-len(c["ops"]), c["id"]))
        sub += cs[:nstrict]
    sub = [dict(c, id="s" + c["id"]) for c in sub]
    coarse = dict(consts, FineLimit=0, SampleN=2)
    vs, _, _, ns, _, _, _ = pipeline(ctx, sub, kd, "s", coarse, strict=True, source="DirOpsPrefix (informational)")
    ctx.cov["dirops_prefix_informational"] = {"cases": len(sub), "scenarios": ns, "nonconforming": vs.get("strict_nonconforming", 0),
                                              "note": "stricter crash model than the property states; never a violation"}
    if vs["violations"]:
        raise lib.ToolError("the informational run reported hard violations (sequence gap?)")
    return finish(ctx, **finish_args)


def write_witnesses(ctx, trace):
    """development aid (C06_WRITE_WITNESS=1): store one replayable witness per known finding under replay/"""
    lines = lib.read_lines(trace)
    hdr = None
    best = {}
    for l in lines:
        e = json.loads(l)
        if e["op"] == "new":
            hdr = e
            continue
        if e["op"] != "recover":
            continue
        if hdr["routine"] == "lru" and not e["res"]["ok"] and hdr["old"]["proj"] != hdr["new"]["proj"] \
                and '"len":0' not in hdr["old"]["proj"]["lru"]:
            top = max(e["disk"], key=lambda f: f["gen"])
            score = (hdr["ops"][-3:] == ["mut", "bump", "save"], len(e["disk"]) == 1, top["cls"] == "prefix", -abs(top["len"] - top["vlen"] // 2))
            if "F06a" not in best or score > best["F06a"][0]:
                best["F06a"] = (score, hdr, e)
        if hdr["routine"] == "journal" and e["res"]["ok"] and e["res"]["proj"] not in (hdr["old"]["proj"], hdr["new"]["proj"]):
            fid = "F06d" if hdr["ops"][-1] == "wsave" else "F06b"
            score = (hdr["ops"] == ["rec", "rec", "wsave"], -len(hdr["ops"]), e["disk"][0]["len"] == 0)
            if fid not in best or score > best[fid][0]:
                best[fid] = (score, hdr, e)
    for fid, (_, h, e) in best.items():
        lib.save_replay(ctx, f"{fid}_witness", {
            "property": PROP, "finding": fid, "program": {"case": h["def"]},
            "scenario": {"pos": e["pos"], "mode": e["mode"], "dirs": e["dirs"], "disk": e["disk"]},
            "header": h, "offending_event": e,
            "explanation": "witness of a known finding: the real recovery on this post-crash directory (derived by T_CrashFS from the real "
                           "system calls of the save) fails or shows a state that is neither old nor new; only the listed deviation explains it"})


def finish(ctx, n, nontrivial, distinct, gen, per_routine, v, cases, consts):
    if os.environ.get("C06_WRITE_WITNESS") and os.path.exists(ctx.path("c_trace.ndjson")):
        write_witnesses(ctx, ctx.path("c_trace.ndjson"))
    if os.environ.get("VERIF_KEEP") and os.path.exists(ctx.path("c_trace.ndjson")):   # development aid: lib.finish removes the work dir
        os.makedirs("/tmp/c06", exist_ok=True)
        shutil.copy(ctx.path("c_trace.ndjson"), "/tmp/c06/last_trace.ndjson")
    ctx.cov["traces_validated_against_impl"] = len(cases)
    ctx.cov["evaluations"] = n
    ctx.cov["distinct_nontrivial"] = nontrivial
    ctx.cov["distinct_scenarios"] = distinct
    ctx.cov["crash_instant_x_outcome_pairs"] = gen
    ctx.cov["per_routine"] = per_routine
    ctx.cov["recovered_as"] = {"old": v.get("rec_old", 0), "new_or_per_object_mix_of_old_and_new": v.get("rec_new", 0), "old_equals_new": v.get("rec_same", 0)}
    ctx.cov["exhaustive"] = True
    ctx.cov["exhaustive_scope"] = ("every history over the driver alphabet up to the listed depth (<= 3 saves) per routine; per history every position "
                                   "of the recorded system-call sequence x every outcome of the un-synced files: every prefix length for files "
                                   f"<= {consts['FineLimit']} bytes, write boundaries +-1 and {consts['SampleN']} seeded lengths per write above, zero-fill, stale bytes")
    ctx.assumptions += ["strace reports the save's system calls completely and in order; the sandbox state before the save is durable",
                        "the crash model is the one the property names: directory operations that were executed have happened; un-synced content is a "
                        "prefix of the un-synced operations, zero-filled, or stale (per file; several un-synced files: every outcome of one x {full, zeros, stale} of the others)",
                        "Old / New are what the same recovery code shows on the directory before the save / after the completed save",
                        "TLC, the CommunityModules JSON reader and the driver's projections through the public API are trusted"]
    return lib.finish(ctx, "fault_enumeration",
                      rule="cases = operation histories enumerated by TLC (MC_CrashSave) and executed with the real API; the last save of each runs under strace; "
                           "T_CrashFS (TLC over FS.tla) turns the recorded system calls into post-crash directories; evaluations = directories built byte-exactly "
                           "on which the real recovery ran; distinct = md5 of (history, parameters, directory description), non-trivial = crash strictly inside the save "
                           "with a directory that differs from the pre-save one (a file created by the save or with un-synced content)")
