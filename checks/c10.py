"""C10 - a cache is a bounded map: latest value or nothing, never over its limits.

spec/Cache.tla (property level; functional core + books + ideal/as-is cache machines)
  -> MC_Cache (a) checks the ideal machine against the judge's own predicates and the limits, refutes them on the
     as-is machine (model-level witnesses of the known findings), (b) enumerates every operation sequence up to a
     depth per configuration (binding G)
  -> drv_cache executes the programs on the real MemoryCache / DiskCache
  -> T_Cache judges every recorded event (binding T).
"""
import glob, json, os
from concurrent.futures import ThreadPoolExecutor
from . import lib

PROP = "C10"
MODULE_MC = "MC_Cache"
MODULE_T = "T_Cache"
DRV = "drv_cache"
ALL_POLICIES = ["lru", "lfu", "fifo", "random", "ttl"]

# operation alphabets (constants of MC_Cache) per family
FAMILIES = {
    # entry / byte limits of the memory cache: sizes from 0 to above the byte budget, 3 keys > capacity
    "bounds": dict(Kind="mem", Keys=3, OpKinds=["put", "get", "remove"], Sizes=[0, 1, 3, 5], ShortSizes=[], LongSizes=[],
                   MaxRestarts=0, MaxTicks=0),
    # expiry, contains, clear on the memory cache
    "memttl": dict(Kind="mem", Keys=2, OpKinds=["put", "put_ttl", "get", "contains", "remove", "clear", "tick"],
                   Sizes=[1], ShortSizes=[2], LongSizes=[], MaxRestarts=0, MaxTicks=2),
    # the disk cache, with drop-and-recreate on the same directory
    "disk": dict(Kind="disk", Keys=2, OpKinds=["put", "put_ttl", "get", "contains", "remove", "clear", "tick", "restart"],
                 Sizes=[0, 3], ShortSizes=[2], LongSizes=[], MaxRestarts=2, MaxTicks=2),
    # the disk cache built with its background cleanup task (new_with_background_tasks, cleanup every 3 ms)
    "diskbg": dict(Kind="disk", Keys=2, OpKinds=["put", "put_ttl", "get", "remove", "tick"],
                   Sizes=[3], ShortSizes=[2], LongSizes=[], MaxRestarts=0, MaxTicks=2),
    # the boundary values of the TTL domain - Duration::ZERO, 1 ns, Duration::MAX - as put_with_ttl argument and
    # (grid DTtl) as the configured default_ttl; on the disk cache also across drop-and-recreate
    "memedge": dict(Kind="mem", Keys=2, OpKinds=["put", "put_ttl", "get", "contains", "remove", "tick"],
                    Sizes=[1], ShortSizes=[], LongSizes=[], EdgeTtls=["zero", "ns", "max"], EdgeSizes=[2], MaxRestarts=0, MaxTicks=1),
    "diskedge": dict(Kind="disk", Keys=2, OpKinds=["put", "put_ttl", "get", "contains", "remove", "tick", "restart"],
                     Sizes=[1], ShortSizes=[], LongSizes=[], EdgeTtls=["zero", "ns", "max"], EdgeSizes=[2], MaxRestarts=1, MaxTicks=1),
}
DISK_MAXE = 100000      # far above any population: the disk cache is not expected to evict


def tla_strs(xs):
    return "{" + ", ".join('"%s"' % x for x in xs) + "}"


def tla_ints(xs):
    return "{" + ", ".join(str(x) for x in xs) + "}"


def mc_constants(fam, depth, grid, variant="ideal", asis=()):
    f = FAMILIES[fam]
    return {
        "Keys": "{" + ", ".join("abcdef"[: f["Keys"]]) + "}", "D": depth, "Kind": '"%s"' % f["Kind"],
        "Policies": tla_strs(grid.get("Policies", ["lru"])), "MaxE": tla_ints(grid.get("MaxE", [DISK_MAXE if f["Kind"] == "disk" else 2])),
        "MaxB": tla_ints(grid.get("MaxB", [0])), "DTtl": tla_strs(grid.get("DTtl", ["none"])),
        "SubDirs": "{" + ", ".join("TRUE" if b else "FALSE" for b in grid.get("SubDirs", [True])) + "}",
        "Bg": "{" + ", ".join("TRUE" if b else "FALSE" for b in grid.get("Bg", [False])) + "}",
        "OpKinds": tla_strs(grid.get("OpKinds", f["OpKinds"])), "Sizes": tla_ints(grid.get("Sizes", f["Sizes"])),
        "ShortSizes": tla_ints(f["ShortSizes"]), "LongSizes": tla_ints(f["LongSizes"]),
        "EdgeTtls": tla_strs(f.get("EdgeTtls", [])), "EdgeSizes": tla_ints(f.get("EdgeSizes", [])),
        "MaxRestarts": f["MaxRestarts"], "MaxTicks": f["MaxTicks"], "Variant": '"%s"' % variant,
        "AsIs": lib.tla_set(sorted(asis)),
    }


def grid_size(fam, grid):
    n = 1
    for k in ("Policies", "MaxE", "MaxB", "DTtl", "SubDirs", "Bg"):
        n *= len(grid.get(k, [0]))
    return n


# --------------------------------------------------------------------------- findings
def known_findings(ctx):
    """Known (not fixed) findings of this property: findings.d/F10*.json is the source (KNOWN_FINDINGS.json is
    regenerated from it by bin/mkmanifest); nothing is written."""
    ids = set(lib.known_ids(ctx, PROP))
    have = {f["id"] for f in ctx.known.get("findings", [])}
    for p in sorted(glob.glob(os.path.join(lib.ROOT, "findings.d", "F10*.json"))):
        f = json.load(open(p))
        if f.get("property") == PROP and f.get("status", "known") == "known":
            ids.add(f["id"])
            if f["id"] not in have:
                ctx.known.setdefault("findings", []).append(f)
    # development aid (like VERIF_REPO): judge a scratch worktree that carries a proposed fix as if the finding were
    # already recorded as fixed, e.g. VERIF_C10_KNOWN=F10b,F10d.  Registered commands never set it.
    if "VERIF_C10_KNOWN" in os.environ and lib.REPO != "/repo":
        ids = {x for x in os.environ["VERIF_C10_KNOWN"].split(",") if x}
    return sorted(ids)


# --------------------------------------------------------------------------- judge
def t_cfg(ctx, kd, name="t_cache.cfg"):
    cfg = ctx.path(name)
    lib.write_cfg(cfg, {"KnownDeviations": lib.tla_set(kd)}, "TInit", "TNext", invariants=["Done"])
    return cfg


def judge(ctx, trace, kd, max_events=100000, cfg=None):
    """Like lib.judge, but T_Cache reports deviations as [first line, finding, count] (constant-size monitor state)."""
    cfg = cfg or t_cfg(ctx, kd)
    chunks = lib.split_trace(trace, trace + ".part", lib.is_new, max_events)
    offs, o = [], 0
    for _, n in chunks:
        offs.append(o)
        o += n
    with ThreadPoolExecutor(max_workers=min(lib.NCPU, 16)) as ex:
        vs = list(ex.map(lambda i: lib.tlc_trace(ctx, MODULE_T, cfg, chunks[i][0], timeout=1500), range(len(chunks))))
    v = {"events": 0, "violations": [], "nviol": 0, "deviations": [], "devcount": {}, "wall_s": 0.0, "chunks": len(chunks)}
    for i, x in enumerate(vs):
        v["events"] += x["events"]
        v["nviol"] += x["nviol"]
        v["violations"] += [ln + offs[i] for ln in x["violations"]]
        for first, fid, n in x["deviations"]:
            v["deviations"].append([first + offs[i], fid])
            v["devcount"][fid] = v["devcount"].get(fid, 0) + n
        v["wall_s"] = max(v["wall_s"], x["wall_s"])
    if v["events"] != o:
        raise lib.ToolError(f"monitor consumed {v['events']} of {o} events")
    for p, _ in chunks:
        os.remove(p)
    return v


def program_of(evs):
    if not evs or evs[0].get("op") != "new":
        return None
    ops = []
    for e in evs[1:]:
        if e.get("op") == "hang":
            continue
        op = {k: e[k] for k in ("op", "k", "n", "ttl", "v") if k in e}
        ops.append(op)
    return {"cfg": evs[0]["cfg"], "keys": evs[0]["keys"], "ops": ops}


MARKS = {"put": '"op":"put"', "put_ttl": '"op":"put_ttl"', "get": '"op":"get"', "contains": '"op":"contains"',
         "remove": '"op":"remove"', "clear": '"op":"clear"', "tick": '"op":"tick"', "restart": '"op":"restart"',
         "probe": '"op":"probe"', "answer:hit": '"hit":true', "answer:miss": '"hit":false', "answer:true": '"b":true',
         "answer:false": '"b":false', "kind:mem": '"kind":"mem"', "kind:disk": '"kind":"disk"',
         "ttl:zero": '"ttl":"zero"', "ttl:ns": '"ttl":"ns"', "ttl:max": '"ttl":"max"', "ttl:short": '"ttl":"short"',
         "default_ttl:zero": '"dttl":"zero"', "default_ttl:max": '"dttl":"max"'}


def histogram(ctx, trace):
    h = ctx.cov.setdefault("events_by_kind", {k: 0 for k in MARKS})
    with open(trace) as f:
        for line in f:
            for k, m in MARKS.items():
                if m in line:
                    h[k] += 1


def judge_and_classify(ctx, trace, source, kd):
    histogram(ctx, trace)
    v = judge(ctx, trace, kd)
    ctx.last_devcount = dict(v["devcount"])
    ctx.stage("judge", source=source, events=v["events"], violations=v["nviol"], deviations=dict(v["devcount"]), wall_s=v["wall_s"])
    for fid, n in v["devcount"].items():
        lib.note_known(ctx, fid, n)
        ctx.cov["deviations_observed"][fid] = ctx.cov["deviations_observed"].get(fid, 0) + n
    lib.classify_trace(ctx, {"violations": v["violations"], "deviations": []}, trace, source, program_of=program_of)
    return v


def run_parallel(ctx, progs_path, trace_path, shards):
    """lib.run_sharded with a caller-chosen shard count (long programs with sleeps: more shards than cores)."""
    lines = lib.read_lines(progs_path)
    shards = max(1, min(shards, len(lines)))
    per = (len(lines) + shards - 1) // shards
    parts = []
    for i in range(shards):
        chunk = lines[i * per:(i + 1) * per]
        if chunk:
            open(f"{progs_path}.s{i}", "w").write("\n".join(chunk) + "\n")
            parts.append((f"{progs_path}.s{i}", f"{trace_path}.s{i}"))
    with ThreadPoolExecutor(max_workers=len(parts)) as ex:
        infos = list(ex.map(lambda pt: lib.run_driver(DRV, ["--programs", pt[0], "--out", pt[1]], check=False), parts))
    merged = {"shards": len(parts), "wall_s": max(i["wall_s"] for i in infos)}
    for inf in infos:
        if inf["returncode"] != 0:
            lib.log(inf["stderr_tail"])
            raise lib.ToolError(f"driver {DRV} exited {inf['returncode']}")
        for k, v in inf.items():
            if isinstance(v, int) and k != "returncode":
                merged[k] = merged.get(k, 0) + v
    with open(trace_path, "w") as out:
        for pp, tp in parts:
            out.write(open(tp).read())
            os.remove(tp)
            os.remove(pp)
    return merged


# --------------------------------------------------------------------------- stages
def gen_run_judge(ctx, fam, depth, grid, kd, keep_trace=False, shards=12):
    label = f"{fam} D={depth} grid={json.dumps(grid, sort_keys=True)}"
    cfg = ctx.path(f"gen_{fam}_{depth}.cfg")
    lib.write_cfg(cfg, mc_constants(fam, depth, grid), "GenInit", "GenNext", invariants=["Emit"], constraints=["Constr"])
    progs = ctx.path(f"prog_{fam}_{depth}.ndjson")
    r = lib.tlc(ctx, MODULE_MC, cfg, tagged_out={"PROGRAM": progs}, timeout=1500)
    n = r["counts"]["PROGRAM"]
    ctx.cov["states"] += r["distinct"]
    ctx.cov["transitions"] += r["generated"]
    ctx.stage("mc-gen", family=fam, depth=depth, configs=grid_size(fam, grid), distinct_states=r["distinct"], programs=n, wall_s=r["wall_s"])
    trace = ctx.path(f"trace_{fam}_{depth}.ndjson")
    d = lib.run_sharded(ctx, DRV, progs, trace, shards=shards)
    ctx.stage("run", family=fam, depth=depth, programs=d.get("programs"), events=d.get("events"), hangs=d.get("hangs"), wall_s=d["wall_s"])
    if d.get("programs") != n:
        raise lib.ToolError(f"driver executed {d.get('programs')} of {n} programs")
    _, dn = lib.count_distinct(progs)
    os.remove(progs)
    if len(ctx.cov["samples"]) < 4:
        ls = lib.read_lines(trace)
        s, e = lib.run_of_line(ls, max(1, len(ls) * 2 // 3))
        ctx.cov["samples"].append({"source": f"MC_Cache {label}", "trace": [json.loads(x) for x in ls[s:e]]})
    judge_and_classify(ctx, trace, f"MC_Cache {label}", kd)
    if not keep_trace:
        os.remove(trace)
    return n, dn, trace


def model_check(ctx, kd, quick):
    """Design level: the ideal machine satisfies everything the judge demands; the as-is machine does not, and its
    refuting programs (witnesses of the known findings) are replayed on the real code."""
    invs = ["JudgeAccepts", "InvEntry", "InvBytes", "InvBooks", "InvGhost"]
    ideal = [("bounds", 4 if quick else 5, dict(Policies=["lru", "ttl"], MaxE=[1, 2] if quick else [1, 2, 3], MaxB=[0, 4])),
             ("memttl", 5 if quick else 6, dict(Policies=["lru"], MaxE=[1, 2], DTtl=["none", "short"])),
             ("disk", 5 if quick else 6, dict(DTtl=["none", "short"])),
             ("memedge", 4 if quick else 5, dict(Policies=["lru"], MaxE=[1, 2], DTtl=["none", "zero", "max"])),
             ("diskedge", 4 if quick else 5, dict(DTtl=["none", "zero", "max"]))]
    for fam, depth, grid in ideal:
        cfg = ctx.path(f"chk_{fam}.cfg")
        lib.write_cfg(cfg, mc_constants(fam, depth, grid, "ideal"), "ChkInit", "ChkNext", invariants=invs,
                      constraints=["Constr"], symmetry="Sym", view="View")
        r = lib.tlc(ctx, MODULE_MC, cfg, timeout=1500)
        ctx.cov["states"] += r["distinct"]
        ctx.cov["transitions"] += r["generated"]
        ctx.stage("mc-ideal", family=fam, depth=depth, distinct_states=r["distinct"], generated=r["generated"], wall_s=r["wall_s"])
    # the code-shaped machine without any defect switched on satisfies the same invariants
    for fam, depth, grid in [("disk", 5 if quick else 6, dict(DTtl=["none", "short"])),
                             ("diskedge", 4 if quick else 5, dict(DTtl=["none", "zero", "max"]))]:
        cfg = ctx.path(f"chk_shape_{fam}.cfg")
        lib.write_cfg(cfg, mc_constants(fam, depth, grid, "asis", ()), "ChkInit", "ChkNext", invariants=invs,
                      constraints=["Constr"], symmetry="Sym", view="View")
        r = lib.tlc(ctx, MODULE_MC, cfg, timeout=1500)
        ctx.cov["states"] += r["distinct"]
        ctx.cov["transitions"] += r["generated"]
        ctx.stage("mc-shape", family=fam, depth=depth, distinct_states=r["distinct"], generated=r["generated"], wall_s=r["wall_s"])
    # one run per KNOWN finding with its defect switched on: TLC must refute the invariant and print the witness
    asis = [("F10a", "bounds", 4, dict(Policies=["lru"], MaxE=[3], MaxB=[4], Sizes=[1, 3]), "WBytesA"),
            ("F10c", "bounds", 4, dict(Policies=["lru"], MaxE=[2], MaxB=[4]), "WBytesC"),
            ("F10b", "disk", 5, dict(OpKinds=["put_ttl", "get", "tick", "restart"]), "WJudge"),
            ("F10d", "disk", 5, dict(OpKinds=["put", "get", "remove", "restart"]), "WJudge")]
    wit = []
    model = {}
    for what, fam, depth, grid, inv in asis:
        if what not in kd:
            continue
        cfg = ctx.path("chk_asis.cfg")
        lib.write_cfg(cfg, mc_constants(fam, depth, grid, "asis", (what,)), "ChkInit", "ChkNext", invariants=[inv],
                      constraints=["Constr"], view="View")
        r = lib.tlc(ctx, MODULE_MC, cfg, timeout=600, expect_violation=True, workers=1)
        ws = r["tagged"].get("WITNESS", [])
        model[what] = {"refuted": inv in r["invariant_violated"], "witness_ops": ws[0]["ops"] if ws else None, "depth": r.get("depth")}
        ctx.cov["states"] += r["distinct"]
        ctx.cov["transitions"] += r["generated"]
        if not model[what]["refuted"] or not ws:
            raise lib.ToolError(f"the as-is model with {what} switched on does not refute {inv}")
        wit.append(ws[0])
    ctx.cov["asis_model"] = model
    ctx.stage("mc-asis", refuted={k: v["refuted"] for k, v in model.items()}, witnesses=len(wit))
    if wit:
        p = ctx.path("prog_witness.ndjson")
        open(p, "w").write("".join(json.dumps({"cfg": w["cfg"], "keys": w["keys"], "ops": w["ops"]}) + "\n" for w in wit))
        trace = ctx.path("trace_witness.ndjson")
        lib.run_driver(DRV, ["--programs", p, "--out", trace])
        v = judge_and_classify(ctx, trace, "as-is model witnesses", kd)
        ctx.cov["asis_witnesses_replayed"] = {"programs": len(wit), "deviations_on_real_code": v["devcount"], "violations": v["nviol"]}
        gone = sorted(w for w in model if w not in v["devcount"])
        if gone:     # informational: a listed finding whose witness the real code no longer reproduces may have been fixed
            ctx.cov["known_findings_not_reproduced_by_witness"] = gone
            lib.log(f"[{PROP}] note: the witness of {gone} no longer deviates on the real code - is the finding fixed?")
    return len(wit)


def selftest(ctx, trace, kd):
    """Binding self-test: corrupt one logged field / drop one event -> the monitor must flag exactly that."""
    lines = lib.read_lines(trace)[:6000]
    while lines and not lib.is_new(lines[-1]):
        lines.pop()
    lines.pop()
    # (a) a get / probe hit whose returned bytes are replaced by other bytes of the same length
    ia = next(i for i, l in enumerate(lines) if i > 40 and '"op":"get"' in l and '"hit":true' in l)
    e = json.loads(lines[ia]); e["res"]["h"] = "0" * 32
    la = list(lines); la[ia] = json.dumps(e, separators=(",", ":"))
    # (b) drop an event that is not a run boundary
    ib = next(i for i, l in enumerate(lines) if i > 60 and not lib.is_new(l) and not lib.is_new(lines[i + 1]))
    lb = list(lines); del lb[ib]
    # (c) the books of one event claim one entry more than the limit allows
    ic = next(i for i, l in enumerate(lines) if i > 80 and '"op":"put"' in l)
    e = json.loads(lines[ic]); e["cnt"] = e["cnt"] + 7; e["st"]["n"] = e["st"]["n"] + 7
    lc = list(lines); lc[ic] = json.dumps(e, separators=(",", ":"))
    cfg = t_cfg(ctx, kd)
    out = {}
    for name, ls in (("0", lines), ("a", la), ("b", lb), ("c", lc)):
        p = ctx.path(f"selftest_{name}.ndjson")
        open(p, "w").write("\n".join(ls) + "\n")
        out[name] = lib.tlc_trace(ctx, MODULE_T, cfg, p)
    base = set(out["0"]["violations"])
    res = {"corrupt_returned_value_flagged": (ia + 1) in out["a"]["violations"] and (ia + 1) not in base,
           "drop_one_event_flagged": (ib + 1) in out["b"]["violations"] and out["b"]["nviol"] > out["0"]["nviol"],
           "corrupt_books_flagged": (ic + 1) in out["c"]["violations"] and (ic + 1) not in base}
    ctx.cov["binding_selftest"] = res
    if not all(res.values()):
        raise lib.ToolError(f"binding self-test failed: {res}")


def selftest_signatures(ctx, trace, kd):
    """(d) the deviation signatures are not vacuous: with KnownDeviations = {} the monitor rejects exactly what they explained."""
    lines = lib.read_lines(trace)[:20000]
    while lines and not lib.is_new(lines[-1]):
        lines.pop()
    lines.pop()
    p = ctx.path("selftest_d.ndjson")
    open(p, "w").write("\n".join(lines) + "\n")
    with_kd = lib.tlc_trace(ctx, MODULE_T, t_cfg(ctx, kd), p)
    without = lib.tlc_trace(ctx, MODULE_T, t_cfg(ctx, [], "t_cache_nodev.cfg"), p)
    explained = sum(d[2] for d in with_kd["deviations"])
    # (an event explained by two findings counts twice in `explained`, once as a violation)
    # (violations that are there anyway - a defective tree under test - are not the self-test's business)
    ok = explained > 0 and 0 < without["nviol"] - with_kd["nviol"] <= explained
    st = ctx.cov["binding_selftest"]
    st["deviations_rejected_when_not_listed"] = ok and st.get("deviations_rejected_when_not_listed", True)
    st["deviation_events_in_sample"] = st.get("deviation_events_in_sample", 0) + explained
    st.setdefault("signatures_tested", [])
    st["signatures_tested"] += sorted(d[1] for d in with_kd["deviations"])
    if not ok:
        raise lib.ToolError(f"signature self-test failed: explained={explained} violations with/without the listed deviations: {with_kd['nviol']}/{without['nviol']}")


def replay(ctx, kd):
    obj = json.load(open(ctx.replay))
    prog = obj["program"] if "program" in obj else obj
    p = ctx.path("replay_prog.ndjson")
    open(p, "w").write(json.dumps(prog) + "\n")
    trace = ctx.path("replay_trace.ndjson")
    lib.run_driver(DRV, ["--programs", p, "--out", trace])
    v = judge(ctx, trace, kd)
    print(open(trace).read())
    print(json.dumps({k: v[k] for k in ("events", "violations", "nviol", "devcount")}))
    for ln in v["violations"]:
        print(f"VIOLATION property={PROP} replay={ctx.replay} (event {ln - 1} of the replayed run)")
    return 1 if v["violations"] else 0


def run(ctx):
    kd = known_findings(ctx)
    lib.build([DRV])
    if ctx.replay:
        return replay(ctx, kd)
    quick = ctx.quick
    total = distinct = 0
    model_check(ctx, kd, quick)
    if quick:
        plan = [("bounds", 3, dict(Policies=ALL_POLICIES, MaxE=[1, 2, 3], MaxB=[0, 1, 4])),
                ("bounds", 4, dict(Policies=["lru", "lfu", "random"], MaxE=[2], MaxB=[0, 4])),
                ("memttl", 4, dict(Policies=["lru", "ttl"], MaxE=[1, 2], DTtl=["none", "short"])),
                ("disk", 4, dict(SubDirs=[True, False], DTtl=["none", "short"])),
                ("diskbg", 4, dict(Bg=[True])),
                ("memedge", 3, dict(Policies=["lru", "ttl"], MaxE=[1, 2], DTtl=["none", "zero", "max"])),
                ("diskedge", 3, dict(DTtl=["none", "zero", "max"]))]
        nrand, rlen = 300, 200
    else:
        plan = [("bounds", 4, dict(Policies=ALL_POLICIES, MaxE=[1, 2, 3], MaxB=[0, 1, 4])),
                ("bounds", 5, dict(Policies=["lru"], MaxE=[2, 3], MaxB=[4])),
                ("memttl", 5, dict(Policies=["lru", "ttl"], MaxE=[1, 2], DTtl=["none", "short"])),
                ("memttl", 6, dict(Policies=["lru"], MaxE=[2])),
                ("disk", 5, dict(SubDirs=[True, False], DTtl=["none", "short"])),
                ("diskbg", 5, dict(Bg=[True])),
                ("memedge", 4, dict(Policies=["lru", "ttl"], MaxE=[1, 2], DTtl=["none", "zero", "max"])),
                ("diskedge", 4, dict(SubDirs=[True, False], DTtl=["none", "zero", "max"]))]
        nrand, rlen = 3000, 300
    first = True
    sigs_tested = set()
    for fam, depth, grid in plan:
        n, dn, trace = gen_run_judge(ctx, fam, depth, grid, kd, keep_trace=True, shards=12 if fam == "bounds" else 32)
        total += n
        distinct += dn
        if first:
            selftest(ctx, trace, kd)
            first = False
        fresh = set(getattr(ctx, "last_devcount", {})) - sigs_tested
        if fresh:        # a listed deviation was used in this trace for the first time: test its signature here
            selftest_signatures(ctx, trace, kd)
            sigs_tested |= set(ctx.last_devcount)
        os.remove(trace)
    # long random histories: larger capacities, key population 3x the capacity, byte budgets from 1 byte up
    trace = ctx.path("trace_random.ndjson")
    dump = ctx.path("prog_random.ndjson")
    lib.run_driver(DRV, ["--random", nrand, "--len", rlen, "--dump-programs", dump, "--gen-only"], env={"VERIF_SEED": ctx.seed})
    d = run_parallel(ctx, dump, trace, shards=32)
    ctx.stage("run", source="random", programs=d.get("programs"), events=d.get("events"), hangs=d.get("hangs"), wall_s=d["wall_s"])
    if d.get("programs") != nrand:
        raise lib.ToolError(f"driver executed {d.get('programs')} of {nrand} random programs")
    _, dn = lib.count_distinct(dump)
    judge_and_classify(ctx, trace, f"random seed={ctx.seed}", kd)
    total += nrand
    distinct += dn
    ctx.cov["actions_never_taken"] = sorted(k for k, n in ctx.cov.get("events_by_kind", {}).items() if n == 0)
    if ctx.cov["actions_never_taken"]:
        raise lib.ToolError(f"operations / answers never exercised on the real code: {ctx.cov['actions_never_taken']}")
    ctx.cov["traces_validated_against_impl"] = total
    ctx.cov["evaluations"] = total
    ctx.cov["distinct_nontrivial"] = distinct
    ctx.cov["exhaustive"] = True
    ctx.cov["exhaustive_scope"] = ("every operation sequence of length 1..D over the family's alphabet for every configuration of the listed grid, "
                                   "with keys named in order of first use; the random tier is not exhaustive")
    ctx.assumptions += [
        "TLC, the CommunityModules JSON reader and the driver's recording (results, size(), stats(), md5 of returned bytes) are trusted",
        "time is logical: a 1 h TTL never ends during a run, a 2 ms TTL has ended after a 10 ms sleep and may or may not have ended before it; "
        "boundary TTLs: Duration::ZERO has ended when the put returns, 1 ns is judged like 2 ms, Duration::MAX never ends",
        "the disk cache is configured with limits far above the population (max_files = 100000, no byte limit): it is required to keep every unexpired value",
        "capacities above 3 entries, byte budgets other than {1, 4} and histories longer than the depth bound are covered by seeded random programs only",
    ]
    return lib.finish(ctx, "model_checking",
                      rule="programs = all operation sequences of length 1..D enumerated by TLC from Cache.tla's operation alphabet per configuration "
                           "(canonical key naming) plus seeded random programs plus the as-is model's witnesses; distinct = distinct program texts (md5); "
                           "every program has >= 1 operation and ends with a probe of every key")
