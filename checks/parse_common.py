"""Shared by checks/c02.py and checks/c08.py: the drv_parse pipeline.

build -> TLC(MC_ParserGuard: boundary vectors; MC_RoundTrip: builder programs) -> drv_parse (children under a
counting allocator: fixtures + vectors + programs + seeded mutations) -> TLC trace monitors -> classify.
"""
import glob, json, os, subprocess
from . import lib

DRV = "drv_parse"
HEADS = ["blte", "blte_enc_header", "encoding", "archive_index", "root", "install", "download", "size", "tvfs",
         "patch_archive", "patch_index", "zbsdiff", "local_idx", "lru", "shmem", "dirnames", "zbsdiff_ctl", "patch_index_block2", "patch_index_block8", "blte_echunk",
         "espec", "bpsv", "build_config", "cdn_config", "patch_config", "product_config", "keyring_config", "mime", "build_info"]
BFMTS = ["install", "download", "size", "archive_index", "encoding", "root", "tvfs", "patch_archive", "patch_index",
         "bpsv", "build_config", "cdn_config", "keyring_config", "espec"]


def known_findings(ctx, prop, prefix):
    """ids of the findings of this property listed as known; findings.d is the source KNOWN_FINDINGS.json is made of."""
    ids = []
    # VERIF_UNLIST=F02e,F02f (development only, with VERIF_REPO): judge a patched tree as if these were fixed
    unlisted = set(filter(None, os.environ.get("VERIF_UNLIST", "").split(","))) if lib.REPO != "/repo" else set()
    ctx.known["findings"] = [x for x in ctx.known.get("findings", []) if x.get("id") not in unlisted]
    for p in sorted(glob.glob(os.path.join(lib.ROOT, "findings.d", prefix + "*.json"))):
        f = json.load(open(p))
        if f.get("property") == prop and f.get("status", "known") == "known" and f["id"] not in unlisted:
            ids.append(f["id"])
            if not any(x.get("id") == f["id"] for x in ctx.known.setdefault("findings", [])):
                ctx.known["findings"].append(f)
    return sorted(ids)


def jobs():
    return max(1, min(lib.NCPU, 16))


def tla_strs(xs):
    return "{" + ", ".join('"%s"' % x for x in xs) + "}"


# ------------------------------------------------------------------ generation (binding G)
def gen_vectors(ctx, kd):
    """All boundary vectors from MC_ParserGuard on the ideal design; then the same model with the listed deviations:
    the findings it reproduces (WITNESS)."""
    quick = ctx.quick
    consts = {"KnownDeviations": "{}", "Fmts": tla_strs(HEADS), "W": 2 if quick else 3,
              "FullMax": 3000 if quick else 60000, "Quick": "TRUE" if quick else "FALSE"}
    cfg = ctx.path("mc_pg.cfg")
    lib.write_cfg(cfg, consts, "MCInit", "MCNext", invariants=["FailClosed", "Proportional", "StepsBounded", "FoldAgrees", "Emit"])
    vec = ctx.path("vectors.ndjson")
    r = lib.tlc(ctx, "MC_ParserGuard", cfg, tagged_out={"PROGRAM": vec}, timeout=1500)
    ctx.cov["states"] += r["distinct"]
    ctx.cov["transitions"] += r["generated"]
    ctx.stage("mc", module="MC_ParserGuard", design="ideal", distinct_states=r["distinct"], vectors=r["counts"]["PROGRAM"], wall_s=r["wall_s"])
    # the model with the guards of the known findings skipped must break the property exactly there
    consts2 = dict(consts, KnownDeviations=lib.tla_set(kd), W=2, FullMax=0, Fmts=tla_strs(HEADS + ["blte_decompress", "zbsdiff_apply", "lru_ops"]))
    cfg2 = ctx.path("mc_pg_dev.cfg")
    lib.write_cfg(cfg2, consts2, "MCInit", "MCNext", invariants=["FoldAgrees", "Witness"])
    r2 = lib.tlc(ctx, "MC_ParserGuard", cfg2, timeout=900)
    wit = {}
    for w in r2["tagged"].get("WITNESS", []):
        wit[w["fid"]] = wit.get(w["fid"], 0) + 1
    ctx.cov["model_with_known_deviations_breaks_property_at"] = wit
    ctx.stage("mc", module="MC_ParserGuard", design="with listed deviations", distinct_states=r2["distinct"], witnesses=wit, wall_s=r2["wall_s"])
    return vec, r["counts"]["PROGRAM"]


def gen_bprogs(ctx):
    quick = ctx.quick
    consts = {"KnownDeviations": "{}", "Fmts": tla_strs(BFMTS), "NK": 2 if quick else 3, "MaxLen": 2,
              "SSub": "{0, 2, 3}" if quick else "{0, 1, 2, 3}"}
    cfg = ctx.path("mc_rt.cfg")
    lib.write_cfg(cfg, consts, "MCInit", "MCNext", invariants=["Algebra", "Faithful", "Emit"])
    progs = ctx.path("bprogs.ndjson")
    r = lib.tlc(ctx, "MC_RoundTrip", cfg, tagged_out={"PROGRAM": progs}, timeout=1500)
    ctx.cov["states"] += r["distinct"]
    ctx.cov["transitions"] += r["generated"]
    ctx.stage("mc", module="MC_RoundTrip", distinct_states=r["distinct"], programs=r["counts"]["PROGRAM"], wall_s=r["wall_s"])
    return progs, r["counts"]["PROGRAM"]


# ------------------------------------------------------------------ execution
class Run:
    """One invocation of the driver; remembers its arguments so that a single job can be regenerated (replay files)."""

    def __init__(self, ctx, name, vectors=None, bprogs=None, mutations=0, fixtures=True, formats=None, timeout=3, bombs=False):
        self.ctx, self.name = ctx, name
        self.trace = ctx.path(f"trace_{name}.ndjson")
        self.jobs = jobs()
        self.args = ["--jobs", self.jobs, "--timeout", timeout]
        if vectors:
            self.args += ["--vectors", vectors]
        if bprogs:
            self.args += ["--bprogs", bprogs]
        if mutations:
            self.args += ["--mutations", mutations]
        if not fixtures:
            self.args += ["--no-fixtures"]
        if bombs:
            self.args += ["--bombs"]
        if formats:
            self.args += ["--formats", ",".join(formats)]
        self.env = {"VERIF_SEED": ctx.seed, "VERIF_REPO": lib.REPO}

    def execute(self, timeout=3000):
        ctx = self.ctx
        d = lib.run_driver(DRV, ["--out", self.trace, "--tmp", ctx.path(f"tmp_{self.name}")] + self.args, env=self.env, timeout=timeout)
        self.info = {k: v for k, v in d.items() if k not in ("stdout", "stderr_tail")}
        ctx.stage("run", source=self.name, programs=d.get("programs"), events=d.get("events"), by_src=d.get("by_src"),
                  outcomes=d.get("outcomes"), round_trips=d.get("rt"), reruns=d.get("reruns"), not_reproduced=d.get("flaky"),
                  confirmed_hangs=d.get("hangs"), skipped_after_hangs=d.get("skipped"), wall_s=d["wall_s"])
        ctx.cov["confirmed_hangs"] = d.get("hangs")
        ctx.cov["inputs_skipped_after_hangs"] = d.get("skipped")
        if not d.get("programs"):
            raise lib.ToolError("driver executed nothing")
        return d

    def dump_job(self, jid):
        r = lib.run_driver(DRV, ["--tmp", self.ctx.path(f"tmp_dump_{jid}"), "--dump-job", jid] + self.args, env=self.env, timeout=600)
        for line in r["stdout"].splitlines():
            if line.startswith("{"):
                return json.loads(line)
        raise lib.ToolError(f"could not regenerate job {jid}")


def rt_boundary(line):
    return '"op":"rt"' not in line


def judge(ctx, module, trace, kd, source, stride=None, boundary=None):
    cfg = ctx.path(f"t_{module}.cfg")
    consts = {"KnownDeviations": lib.tla_set(kd)}
    if stride is not None:
        consts["Stride"] = stride
    lib.write_cfg(cfg, consts, "TInit", "TNext", invariants=["Done"])
    v = lib.judge(ctx, module, cfg, trace, is_boundary=boundary or (lambda l: True), max_events=40000, heap="4g")
    ctx.stage("judge", module=module, source=source, events=v["events"], judged=v.get("judged"), violations=len(v["violations"]),
              deviations=len(v["deviations"]), wall_s=v["wall_s"])
    return v, cfg


def classify(ctx, verdict, run, source, what_of, max_reports=8, group_of=None):
    """VIOLATION lines with replay files (the exact input bytes or the builder program), known-finding counts."""
    for _, fid in verdict["deviations"]:
        lib.note_known(ctx, fid)
        ctx.cov["deviations_observed"][fid] = ctx.cov["deviations_observed"].get(fid, 0) + 1
    if not verdict["violations"]:
        return
    lines = lib.read_lines(run.trace)
    seen = set()
    for ln in verdict["violations"]:
        e = json.loads(lines[ln - 1])
        sig = what_of(e)
        grp = group_of(e) if group_of else sig
        if grp in seen:
            continue
        seen.add(grp)
        if len(seen) > max_reports:
            break
        inp = run.dump_job(e["id"]) if "id" in e else None
        lib.report_violation(ctx, f"{source}: {sig}",
                             {"property": ctx.id, "source": source, "input": inp, "event": e,
                              "explanation": "the event is not explained by the specification: neither the ideal parser/serialiser nor a listed deviation produces it"})
    ctx.cov["violating_events"] = ctx.cov.get("violating_events", 0) + len(verdict["violations"])


def replay(ctx, module, kd, stride=None, boundary=None):
    obj = json.load(open(ctx.replay))
    trace = ctx.path("replay_trace.ndjson")
    d = lib.run_driver(DRV, ["--replay", ctx.replay, "--out", trace, "--tmp", ctx.path("tmp_replay"), "--timeout", 5],
                       env={"VERIF_SEED": ctx.seed, "VERIF_REPO": lib.REPO})
    cfg = ctx.path("t_replay.cfg")
    consts = {"KnownDeviations": lib.tla_set(kd)}
    if stride is not None:
        consts["Stride"] = 1
    lib.write_cfg(cfg, consts, "TInit", "TNext", invariants=["Done"])
    v = lib.tlc_trace(ctx, module, cfg, trace)
    print(open(trace).read())
    print(json.dumps({k: v[k] for k in ("events", "violations", "deviations")}))
    if v["violations"]:
        print(f"VIOLATION property={ctx.id} replay={ctx.replay}", flush=True)
        return 1
    return 0


def sample_lines(trace, head=1200, block=1500):
    """A small sample of a (possibly huge) trace for the binding self-test: its first lines (fixtures, model
    vectors / builder programs of shard 0) and a contiguous block starting at the first mutated input.  A parse
    event that announces a round trip is never separated from it."""
    out, mut = [], []
    with open(trace) as f:
        for line in f:
            line = line.rstrip("\n")
            if len(out) < head:
                out.append(line)
            elif mut or ('"src":"mut"' in line and '"op":"parse"' in line):
                mut.append(line)
                if len(mut) >= block:
                    break
    for part in (out, mut):
        while part and '"op":"parse"' in part[-1] and '"more":true' in part[-1]:
            part.pop()
    while mut and '"op":"rt"' in mut[0]:
        mut.pop(0)
    return out + mut


def first_matching(trace, preds, limit=400000):
    """first line satisfying each predicate (streaming; the thorough traces are gigabytes)"""
    found = [None] * len(preds)
    with open(trace) as f:
        for n, line in enumerate(f):
            for i, p in enumerate(preds):
                if found[i] is None and p(line):
                    found[i] = json.loads(line)
            if all(x is not None for x in found) or n > limit:
                break
    return found


def selftest_lines(ctx, module, cfg, lines, mutate, name):
    """Corrupt a copy of `lines` with mutate(lines) -> (new_lines, expected_line); the monitor must flag that line."""
    base_p = ctx.path(f"selftest_{name}_0.ndjson")
    open(base_p, "w").write("\n".join(lines) + "\n")
    base = lib.tlc_trace(ctx, module, cfg, base_p)
    new, expect = mutate(list(lines))
    p = ctx.path(f"selftest_{name}_1.ndjson")
    open(p, "w").write("\n".join(new) + "\n")
    v = lib.tlc_trace(ctx, module, cfg, p)
    return expect in v["violations"] and expect not in base["violations"] and len(v["violations"]) > len(base["violations"])
