"""C04 - local storage returns every stored object byte-for-byte, at any later time.

spec/Storage.tla: property level A (what a read may answer) + code-shaped model C (file length, memory-map
snapshot, index in memory / on disk, installation cache) with the code's known deviations as switches.
MC_Storage: TLC proves that C without deviations refines A (Durable), refutes it with each deviation switched on,
and enumerates every operation sequence up to a depth per (component, payload family) as a program (binding G).
drv_storage executes the programs on the real DynamicContainer / Installation / ArchiveManager; T_Storage judges
every event (binding T).  Seeded random long histories and (thorough) a history that crosses the real 64 MiB
remap threshold go through the same monitor.
"""
import glob, json, os
from . import lib

MODULE_MC = "MC_Storage"
MODULE_T = "T_Storage"
THRESHOLD = 64 * 1024 * 1024
ALL_DEVS = ["F04a", "F04b", "F04c"]
INVS = ["InvDurable", "InvNoGhost", "InvMap", "InvType"]


def own_findings(ctx):
    """findings.d/F04*.json is the source (KNOWN_FINDINGS.json is generated from it by the maintainer)."""
    mine = [json.load(open(p)) for p in sorted(glob.glob(os.path.join(lib.ROOT, "findings.d", "F04*.json")))]
    ctx.known["findings"] = [f for f in ctx.known.get("findings", []) if f.get("property") != "C04"] + \
                            [f for f in mine if f.get("status", "known") == "known"]
    return lib.known_ids(ctx, "C04")


def program_of(evs):
    if not evs or evs[0].get("op") != "new":
        return None
    h = evs[0]
    ops = []
    for e in evs[1:]:
        if e.get("audit") or e.get("op") == "hang":
            continue
        if "par" in e:   # one event per object of a parallel batch -> one par operation over the same objects
            if ops and ops[-1].get("op") == "par" and ops[-1]["_b"] == e["par"]:
                ops[-1]["ps"].append(e["p"])
            else:
                ops.append({"op": "par", "t": e.get("t", 4), "ps": [e["p"]], "_b": e["par"]})
            continue
        ops.append({k: e[k] for k in ("op", "p", "ro") if k in e})
    for o in ops:
        o.pop("_b", None)
    # objects created by fill / churn / par are replayed as explicit writes of the same bytes (plain class: a function of name and length)
    extra = [[e["p"], "plain", e["fill"]] for e in evs[1:] if e.get("op") == "write" and "fill" in e]
    return {"comp": h["comp"], "mode": h.get("mode", "none"), "compress": h.get("compress", False),
            "payloads": h["payloads"] + extra, "ops": ops}


def mc_cfg(ctx, name, comp, family, depth, mode, compress, devs, emit=True):
    cfg = ctx.path(name)
    lib.write_cfg(cfg, {"KnownDeviations": lib.tla_set(devs), "Threshold": THRESHOLD, "Comp": f'"{comp}"',
                        "Family": f'"{family}"', "D": depth, "Mode": f'"{mode}"', "Compress": "TRUE" if compress else "FALSE"},
                  "MCInit", "MCNext", constraints=["Constr"], invariants=INVS + (["Emit"] if emit else []))
    return cfg


def t_cfg(ctx, kd):
    cfg = ctx.path("t_storage.cfg")
    if os.path.exists(cfg):     # written once (plan items are judged concurrently)
        return cfg
    lib.write_cfg(cfg, {"KnownDeviations": lib.tla_set(kd), "Threshold": THRESHOLD}, "TInit", "TNext", invariants=["Done"], view="View")
    return cfg


def judge_only(ctx, trace, source, kd):
    """run the monitor (may be called from a worker thread: touches no shared state but the stage log)"""
    v = lib.judge(ctx, MODULE_T, t_cfg(ctx, kd), trace, max_events=40000)
    ndev = {fid: v.get("dev_" + fid, 0) for fid in ALL_DEVS if v.get("dev_" + fid, 0)}
    ctx.stage("judge", source=source, events=v["events"], violations=v.get("nviol", 0), deviations=ndev,
              exact_reads=v.get("exact_reads", 0), ok_writes=v.get("ok_writes", 0), wall_s=v["wall_s"], chunks=v["chunks"])
    return v


def account(ctx, v, trace, source, totals):
    """main thread: totals, known-finding counts, VIOLATION lines"""
    ndev = {fid: v.get("dev_" + fid, 0) for fid in ALL_DEVS if v.get("dev_" + fid, 0)}
    totals["exact_reads"] += v.get("exact_reads", 0)
    totals["ok_writes"] += v.get("ok_writes", 0)
    totals["events"] += v["events"]
    # the monitor lists only the first deviations of each chunk (samples) and counts all of them
    for fid, n in ndev.items():
        lib.note_known(ctx, fid, n)
        ctx.cov["deviations_observed"][fid] = ctx.cov["deviations_observed"].get(fid, 0) + n
    if v.get("nviol", 0) != len(v["violations"]):
        lib.log(f"[C04] {v['nviol']} violating events, the first {len(v['violations'])} are listed")
    lib.classify_trace(ctx, dict(v, deviations=[]), trace, source, program_of=program_of)
    return v


def judge_trace(ctx, trace, source, kd, totals):
    return account(ctx, judge_only(ctx, trace, source, kd), trace, source, totals)


def plan_item(ctx, item, kd):
    """TLC (model check + enumerate programs) -> driver -> monitor for one plan entry.  Runs in a worker thread;
    everything that touches ctx.cov / prints verdicts is done by the caller from the returned record."""
    comp, family, depth, mode, compress = item
    tag = f"{comp}_{family}_{depth}_{mode}_{int(compress)}"
    cfg = mc_cfg(ctx, f"mc_{tag}.cfg", comp, family, depth, mode, compress, [])
    progs = ctx.path(f"prog_{tag}.ndjson")
    r = lib.tlc(ctx, MODULE_MC, cfg, tagged_out={"PROGRAM": progs}, timeout=1500)
    n = r["counts"]["PROGRAM"]
    ctx.stage("mc", comp=comp, family=family, depth=depth, mode=mode, compress=compress, distinct_states=r["distinct"],
              programs=n, wall_s=r["wall_s"])
    trace = ctx.path(f"trace_{tag}.ndjson")
    d = lib.run_sharded(ctx, "drv_storage", progs, trace, shards=12)
    ctx.stage("run", comp=comp, family=family, programs=d.get("programs"), events=d.get("events"), hangs=d.get("hangs"), wall_s=d["wall_s"])
    if d.get("programs") != n:
        raise lib.ToolError(f"driver executed {d.get('programs')} of {n} programs")
    dn = count_nontrivial(progs)
    os.remove(progs)
    source = f"MC_Storage comp={comp} family={family} depth={depth} mode={mode} compress={compress}"
    v = judge_only(ctx, trace, source, kd)
    return {"item": item, "states": r["distinct"], "transitions": r["generated"], "n": n, "dn": dn, "info": d,
            "trace": trace, "source": source, "verdict": v}


def count_nontrivial(path):
    """distinct programs that store at least one object (a program without a write only probes absent keys)"""
    import hashlib
    seen = set()
    with open(path) as f:
        for line in f:
            if '"op":"write"' in line.replace(" ", ""):
                seen.add(hashlib.md5(line.encode()).digest())
    return len(seen)


def run_split(progs_path, trace_path, parts):
    """lib.run_sharded shards by program count (one shard per 200); the random programs are few but long, so split
    them into `parts` contiguous pieces here; traces are concatenated in program order."""
    from concurrent.futures import ThreadPoolExecutor
    import time
    lines = lib.read_lines(progs_path)
    parts = max(1, min(parts, len(lines)))
    per = (len(lines) + parts - 1) // parts
    pieces = []
    for i in range(parts):
        chunk = lines[i * per:(i + 1) * per]
        if chunk:
            pp = f"{progs_path}.p{i}"
            open(pp, "w").write("\n".join(chunk) + "\n")
            pieces.append((pp, f"{trace_path}.p{i}"))
    t = time.time()
    with ThreadPoolExecutor(max_workers=len(pieces)) as ex:
        infos = list(ex.map(lambda pt: lib.run_driver("drv_storage", ["--programs", pt[0], "--out", pt[1], "--timeout", 300]), pieces))
    merged = {"wall_s": round(time.time() - t, 2)}
    for inf in infos:
        for k, v in inf.items():
            if isinstance(v, int) and k != "returncode":
                merged[k] = merged.get(k, 0) + v
    with open(trace_path, "w") as out:
        for pp, tp in pieces:
            out.write(open(tp).read())
            os.remove(tp)
            os.remove(pp)
    return merged


def count_ops(ctx, info):
    """operations the driver executed, by kind (counted by the driver, not copied from TLC)"""
    oc = ctx.cov.setdefault("ops_executed", {})
    for k, v in info.items():
        if k.startswith("n_") and isinstance(v, int):
            oc[k[2:]] = oc.get(k[2:], 0) + v


def model_refutations(ctx):
    """With one deviation switched on, TLC must refute Durable on the code-shaped model (the finding's witness);
    this also shows that Durable is not vacuous."""
    res, st, tr = {}, 0, 0
    for fid, comp, family in (("F04a", "dyn", "sizes"), ("F04b", "inst", "classes"), ("F04c", "inst", "sizes")):
        cfg = mc_cfg(ctx, f"mc_refute_{fid}.cfg", comp, family, 4, "none", False, [fid], emit=False)
        r = lib.tlc(ctx, MODULE_MC, cfg, timeout=600, expect_violation=True, workers=2)
        st += r["distinct"]
        tr += r["generated"]
        res[fid] = "InvDurable" in r["invariant_violated"]
        if not res[fid]:
            raise lib.ToolError(f"model with deviation {fid} switched on does not refute Durable: {r['invariant_violated']}")
    ctx.stage("model_refutes_durable_with_deviation", **res)
    return res, st, tr


def selftest(ctx, trace, kd):
    """Binding self-test: corrupt one logged field / drop one event -> the monitor must flag exactly that."""
    lines = lib.read_lines(trace)[:6000]
    # cut at a run boundary
    while lines and not lib.is_new(lines[-1]):
        lines.pop()
    lines.pop()
    cfg = t_cfg(ctx, kd)
    p0 = ctx.path("selftest_0.ndjson"); open(p0, "w").write("\n".join(lines) + "\n")
    base = lib.tlc_trace(ctx, MODULE_T, cfg, p0)
    flagged0 = set(base["violations"]) | {d[0] for d in base["deviations"]}
    # (a) corrupt: one byte of the md5 of a read that returned the exact bytes
    ia = next(i for i, l in enumerate(lines) if i > 40 and '"op":"read"' in l and '"res":"ok"' in l and (i + 1) not in flagged0)
    e = json.loads(lines[ia]); e["md5"] = ("0" if e["md5"][0] != "0" else "1") + e["md5"][1:]
    la = list(lines); la[ia] = json.dumps(e, separators=(",", ":"))
    pa = ctx.path("selftest_a.ndjson"); open(pa, "w").write("\n".join(la) + "\n")
    # (b) drop an event that is not a run boundary
    ib = next(i for i, l in enumerate(lines) if i > 60 and not lib.is_new(l) and not lib.is_new(lines[i + 1]))
    lb = list(lines); del lb[ib]
    pb = ctx.path("selftest_b.ndjson"); open(pb, "w").write("\n".join(lb) + "\n")
    va = lib.tlc_trace(ctx, MODULE_T, cfg, pa)
    vb = lib.tlc_trace(ctx, MODULE_T, cfg, pb)
    ok_a = set(va["violations"]) - set(base["violations"]) == {ia + 1}
    ok_b = (ib + 1) in vb["violations"] and (ib + 1) not in base["violations"]
    res = {"corrupt_one_field_flagged": ok_a, "drop_one_event_flagged": ok_b}
    ctx.cov["binding_selftest"] = res
    ctx.stage("selftest", **res)
    if not (ok_a and ok_b):
        raise lib.ToolError(f"binding self-test failed: {res}")


def replay(ctx, kd):
    obj = json.load(open(ctx.replay))
    prog = obj["program"] if "program" in obj else obj
    p = ctx.path("replay_prog.ndjson")
    open(p, "w").write(json.dumps(prog) + "\n")
    trace = ctx.path("replay_trace.ndjson")
    lib.run_driver("drv_storage", ["--programs", p, "--out", trace, "--timeout", 300])
    print(open(trace).read())
    v = judge_trace(ctx, trace, "replay", kd, {"exact_reads": 0, "ok_writes": 0, "events": 0})
    print(json.dumps(v))
    for fid, n in sorted(ctx.known_seen.items()):
        print(f"KNOWN-FINDING: property=C04 {fid} (observed {n}x)")
    return 1 if v["violations"] else 0


MIB = 1 << 20


def log_programs(quick):
    """Scripted: more objects in ONE index bucket than its update log holds (60 pages x 21 entries = 1260), so that
    add_entry has to merge the log into the sorted section inside a container; then reopen and read every object."""
    pay = [["a", "plain", 100], ["x", "plain", 40]]
    w, ro = {"op": "write", "p": "a"}, {"op": "reopen"}
    out = []
    for comp in ("dyn", "inst"):
        out.append({"comp": comp, "mode": "none", "compress": False, "payloads": pay,
                    "ops": [{"op": "fill", "n": 1270, "bucket": 3}, ro, w, ro]})
        if quick:
            continue
        out.append({"comp": comp, "mode": "none", "compress": True, "payloads": pay,
                    "ops": [{"op": "fill", "n": 700, "bucket": 9}, ro, {"op": "fill", "n": 700, "bucket": 9}, w, ro]})
        out.append({"comp": comp, "mode": "none", "compress": False, "payloads": pay,
                    "ops": [{"op": "fill", "n": 2600, "bucket": 0}, w]})
        for b in range(16):   # one page boundary in every bucket of one store
            out[-1]["ops"].append({"op": "fill", "n": 23, "bucket": b})
        out[-1]["ops"].append(ro)
    if not quick:
        out.append({"comp": "dyn", "mode": "none", "compress": False, "payloads": pay,
                    "ops": [{"op": "churn", "n": 640, "bucket": 7}, w, {"op": "fill", "n": 30, "bucket": 7}, ro,
                            {"op": "flush"}, {"op": "fill", "n": 30, "bucket": 7}, ro]})
    # an object removed and written again much later: its tombstone and its new entry lie in different pages of
    # the same bucket's log (newest must win across pages), also after reopen and after a flush
    rm, rd = {"op": "remove", "p": "a"}, {"op": "read", "p": "a"}
    for filler in ({"op": "fill", "n": 25, "of": "a"}, {"op": "churn", "n": 13, "of": "a"}, {"op": "fill", "n": 70, "of": "a"}):
        out.append({"comp": "dyn", "mode": "none", "compress": False, "payloads": pay,
                    "ops": [w, rm, filler, w, rd, ro, rd, rm, filler, w, {"op": "flush"}, rd, ro]})
    # far offsets: small objects stored beyond 64 MiB of the archive (offsets that need more than 26 of the 30 bits),
    # read back immediately, after reopen (entries in the update log), after flush + reopen (sorted section)
    mib = 1 << 20
    far = [["s1", "plain", 500], ["B1", "comp", 23 * mib], ["B2", "plain", 23 * mib + 1], ["B3", "comp", 23 * mib + 2],
           ["s2", "plain", 700], ["e", "plain", 0], ["s3", "plain", 60], ["m", "comp", 3 * mib], ["s4", "plain", 900], ["x", "plain", 40]]
    wr = lambda n: {"op": "write", "p": n}
    rdp = lambda n: {"op": "read", "p": n}
    for comp in ("dyn", "inst"):
        ops = [wr(n) for n in ("s1", "B1", "B2", "B3", "s2", "e", "s3", "m", "s4")] + [rdp("s3"), ro, rdp("s2"), rdp("m"), rdp("B3")]
        if comp == "dyn":
            ops += [{"op": "flush"}]
        ops += [wr("s1"), ro]
        out.append({"comp": comp, "mode": "none", "compress": False, "payloads": far, "ops": ops})
    # parallel writers: t threads x m distinct objects, barrier before every round; then everything is read back
    # (audit), also after reopen.  Nothing here depends on timing: on a correct store every history passes.
    for comp in ("dyn", "inst"):
        out.append({"comp": comp, "mode": "none", "compress": comp == "inst", "payloads": pay,
                    "ops": [w, {"op": "par", "t": 8, "m": 12}, ro, {"op": "par", "t": 8, "m": 6}, rd]})
        out.append({"comp": comp, "mode": "none", "compress": False, "payloads": pay,
                    "ops": [{"op": "par", "t": 8, "m": 12}, {"op": "par", "t": 3, "m": 10}, ro]})
    return out


def big_programs():
    """Crosses the real 64 MiB remap threshold from both sides (thorough tier)."""
    pay = [["a", "plain", 70 * MIB], ["b", "plain", 1024], ["c", "comp", 65 * MIB], ["d", "plain", 60 * MIB], ["x", "plain", 10]]
    ops = [{"op": "write", "p": "a"}, {"op": "write", "p": "b"}, {"op": "read", "p": "b"}, {"op": "write", "p": "c"},
           {"op": "read", "p": "b"}, {"op": "write", "p": "d"}, {"op": "read", "p": "d"}, {"op": "read", "p": "a"}]
    tail = [{"op": "reopen"}]
    out = []
    for comp in ("arch", "dyn", "inst"):
        out.append({"comp": comp, "mode": "none", "compress": False, "payloads": pay, "ops": ops})
        out.append({"comp": comp, "mode": "none", "compress": False, "payloads": pay, "ops": ops + tail})
    return out


def run(ctx):
    kd = own_findings(ctx)
    lib.build(["drv_storage"])
    if ctx.replay:
        return replay(ctx, kd)
    # (component, family, depth, arch compression mode, compress flag)
    if ctx.quick:
        plan = [("dyn", "sizes", 4, "none", False), ("dyn", "sizes3", 5, "none", False), ("inst", "sizes", 5, "none", False),
                ("arch", "sizes", 4, "none", False),
                ("arch", "sizes3", 5, "none", False), ("inst", "classes", 4, "none", False), ("dyn", "classes3", 4, "none", False), ("arch", "classes3", 4, "none", True),
                ("arch", "sizes3", 4, "zlib", True), ("arch", "sizes3", 4, "lz4", True), ("inst", "sizes3", 4, "none", True),
                ("dyn", "fill1", 4, "none", False), ("inst", "fill", 4, "none", False),
                ("dyn", "par", 3, "none", False), ("inst", "par", 4, "none", False)]
        nrand, rlen = 150, 100
    else:
        plan = [("dyn", "sizes", 5, "none", False), ("dyn", "sizes3", 6, "none", False), ("inst", "sizes", 6, "none", False),
                ("arch", "sizes", 5, "none", False), ("arch", "sizes3", 6, "none", False), ("arch", "sizes3", 6, "zlib", True),
                ("arch", "sizes3", 5, "lz4", True), ("inst", "sizes3", 6, "none", True),
                ("inst", "classes", 5, "none", False), ("inst", "classes", 4, "none", True), ("dyn", "classes", 4, "none", False),
                ("dyn", "classes3", 5, "none", False), ("arch", "classes3", 5, "none", True), ("arch", "classes3", 5, "zlib", True),
                ("dyn", "fill", 4, "none", False), ("inst", "fill", 5, "none", True),
                ("dyn", "par", 4, "none", False), ("inst", "par", 5, "none", True)]
        nrand, rlen = 1200, 150
    totals = {"exact_reads": 0, "ok_writes": 0, "events": 0}
    total_programs = 0
    distinct = 0
    did_selftest = False
    sampled = set()
    # plan entries are independent pipelines (TLC -> driver -> monitor); a few run side by side so that the many
    # short JVM runs overlap.  Verdicts are collected and reported here, in plan order.
    from concurrent.futures import ThreadPoolExecutor
    t_cfg(ctx, kd)
    with ThreadPoolExecutor(max_workers=max(1, min(4, lib.NCPU // 4))) as ex:
        fut_ref = ex.submit(model_refutations, ctx)
        results = list(ex.map(lambda it: plan_item(ctx, it, kd), plan))
        ref, st, tr = fut_ref.result()
    ctx.cov["model_refutes_durable_with_deviation"] = ref
    ctx.cov["states"] += st
    ctx.cov["transitions"] += tr
    for res in results:
        comp, family = res["item"][0], res["item"][1]
        trace = res["trace"]
        ctx.cov["states"] += res["states"]
        ctx.cov["transitions"] += res["transitions"]
        count_ops(ctx, res["info"])
        total_programs += res["n"]
        distinct += res["dn"]
        if comp not in sampled:
            sampled.add(comp)
            ls = lib.read_lines(trace)
            s, e = lib.run_of_line(ls, min(len(ls), 3000))
            ctx.cov["samples"].append({"source": f"MC_Storage {comp}/{family}", "trace": [json.loads(x) for x in ls[s:e]]})
        account(ctx, res["verdict"], trace, res["source"], totals)
        if not did_selftest:
            selftest(ctx, trace, kd)
            did_selftest = True
        os.remove(trace)
    # long seeded random histories: heavy-tailed sizes, all payload classes, all components
    trace = ctx.path("trace_random.ndjson")
    dump = ctx.path("prog_random.ndjson")
    g = lib.run_driver("drv_storage", ["--random", nrand, "--len", rlen, "--out", os.devnull, "--dump-programs", dump, "--dump-only"],
                       env={"VERIF_SEED": ctx.seed})
    if g.get("generated") != nrand:
        raise lib.ToolError(f"random generator produced {g.get('generated')} of {nrand} programs")
    d = run_split(dump, trace, min(lib.NCPU, 10))
    ctx.stage("run", source="random", programs=d.get("programs"), events=d.get("events"), hangs=d.get("hangs"), wall_s=d["wall_s"])
    if d.get("programs") != nrand:
        raise lib.ToolError(f"driver executed {d.get('programs')} of {nrand} random programs")
    count_ops(ctx, d)
    dn = count_nontrivial(dump)
    judge_trace(ctx, trace, f"random seed={ctx.seed}", kd, totals)
    total_programs += nrand
    distinct += dn
    lp = ctx.path("prog_log.ndjson")
    logs = log_programs(ctx.quick)
    open(lp, "w").write("\n".join(json.dumps(p) for p in logs) + "\n")
    trace = ctx.path("trace_log.ndjson")
    d = run_split(lp, trace, min(lib.NCPU, 8))
    ctx.stage("run", source="scripted (index log, tombstone order, far offsets, parallel writers)", programs=d.get("programs"), events=d.get("events"), hangs=d.get("hangs"), wall_s=d["wall_s"])
    if d.get("programs") != len(logs):
        raise lib.ToolError(f"driver executed {d.get('programs')} of {len(logs)} log programs")
    count_ops(ctx, d)
    judge_trace(ctx, trace, "scripted: index log overflow, tombstone order, far offsets, parallel writers", kd, totals)
    total_programs += len(logs)
    distinct += len(logs)
    # binding E: boundary archive locations through every place that serialises the 5-byte location
    trace = ctx.path("trace_loc.ndjson")
    d = lib.run_driver("drv_storage", ["--loc", "--out", trace])
    v = judge_trace(ctx, trace, "location packing (binding E)", kd, totals)
    ctx.cov["location_round_trips_evaluated"] = v.get("loc_evals", 0)
    if v.get("loc_evals", 0) < 1000:
        raise lib.ToolError(f"binding E evaluated only {v.get('loc_evals', 0)} locations")
    if not ctx.quick:
        bp = ctx.path("prog_big.ndjson")
        bigs = big_programs()
        open(bp, "w").write("\n".join(json.dumps(p) for p in bigs) + "\n")
        trace = ctx.path("trace_big.ndjson")
        d = lib.run_driver("drv_storage", ["--programs", bp, "--out", trace, "--timeout", 300])
        ctx.stage("run", source="64MiB threshold", programs=d.get("programs"), events=d.get("events"), wall_s=d["wall_s"])
        judge_trace(ctx, trace, "64 MiB remap threshold", kd, totals)
        total_programs += len(bigs)
        distinct += len(bigs)
    never = [k for k in ("write", "read", "remove", "flush", "flushb", "reopen", "compact", "fill", "churn", "par") if not ctx.cov.get("ops_executed", {}).get(k)]
    ctx.cov["actions_never_taken"] = never
    if totals["exact_reads"] == 0 or totals["ok_writes"] == 0 or never:
        raise lib.ToolError(f"vacuous run: {totals}, operations never executed: {never}")
    ctx.cov["traces_validated_against_impl"] = total_programs
    ctx.cov["evaluations"] = totals["events"]
    ctx.cov["distinct_nontrivial"] = distinct
    ctx.cov["exact_reads_of_live_objects"] = totals["exact_reads"]
    ctx.cov["successful_writes"] = totals["ok_writes"]
    ctx.cov["exhaustive"] = True
    ctx.cov["exhaustive_scope"] = ("all operation sequences (write/read/remove/flush/reopen/compact as the component has them) up to the "
                                   "listed depth per (component, payload family), each followed by a read of every payload; the random "
                                   "tier and the 64 MiB program are samples")
    ctx.assumptions += ["TLC, the CommunityModules JSON reader and the driver's recording (md5/len of written and returned bytes, "
                        "length of the data.NNN files) are trusted",
                        "encoding keys are computed as the containers document it (MD5 of the uncompressed single-chunk BLTE wrapping); for "
                        "Installation the key is cross-checked against the index listing",
                        "9-byte key-prefix collisions between different payloads are not generated",
                        "histories longer than the depth bound and sizes above 512 KiB are covered by seeded random programs / one 64 MiB program only"]
    return lib.finish(ctx, "model_checking",
                      rule="programs = operation sequences enumerated by TLC from MC_Storage (history variable, all lengths 1..D, not ending "
                           "in a read) plus seeded random programs (plus the 64 MiB program in thorough); distinct_nontrivial = distinct program "
                           "texts (md5) that contain at least one write; every program ends with a read of every payload of its table")
