"""C12 - layered caching is coherent, never serves content that fails validation, and every call returns.

spec/MultiLayer.tla: part 1 = property-level relations + judge `Verdict`; part 2 = code-shaped machine of
MultiLayerCacheImpl (get split at the promotion tracker's lock operations).
MC_MultiLayer: (1) design checks - the repaired machine satisfies the property and never gets stuck, the
as-is machine is refuted (F12a: a call never returns, F12b: a stale value is served) and every as-is
deviation is explained by a listed signature; (2) enumerates all operation sequences of a family up to a
depth as programs (binding G); sequences on which the machine predicts a hang are emitted truncated at the
hanging call.  drv_multilayer executes programs on the real MultiLayerCacheImpl<RibbitKey> (memory + disk
layers in a temp dir, watchdog), T_MultiLayer judges every event with the same `Verdict` (binding T).
"""
import json, os, random, threading
from concurrent.futures import ThreadPoolExecutor
from . import lib

MODULE_MC = "MC_MultiLayer"
MODULE_T = "T_MultiLayer"
DRV = "drv_multilayer"
ALL_FINDINGS = ["F12a", "F12b"]
STRATEGIES = ["on_hit", "after2", "freq", "age", "manual"]
# independent TLC / driver jobs run PAR at a time, each with W threads (VERIF_WORKERS=4 -> one job at a time)
PAR = max(1, lib.NCPU // 4)
W = min(4, lib.NCPU)
LOCK = threading.Lock()


# --------------------------------------------------------------------------- cfg files
def mc_cfg(path, family, layout, cap0, hooks, depth, fixed, kd, invariants, deadlock=False, opts=None):
    """opts: {"keys": (KA, KB), "policy": "lru" | "victim" | "ttl", "budget": bytes, "vals": (..)} - key names, eviction
    policy and byte budget of the memory layers, value names (defaults: a / b, lru, no budget, v1 / v2)."""
    o = opts or {}
    ka, kb = o.get("keys", ("a", "b"))
    lines = ["CONSTANTS", f'  KA = "{ka}"', f'  KB = "{kb}"', f'  Keys = {{"{ka}", "{kb}"}}', f'  Vals = {lib.tla_set(o.get("vals", ("v1", "v2")))}',
             "  Kinds <- MCKinds", "  Caps <- MCCaps", "  Budgets <- MCBudgets", "  Policies <- MCPolicies", "  Sizes <- MCSizes",
             f'  Policy = "{o.get("policy", "lru")}"', f'  Budget = {o.get("budget", 0)}',
             f'  Layout = "{layout}"', f"  Cap0 = {cap0}", f"  Hooks = {'TRUE' if hooks else 'FALSE'}",
             f"  Fixed = {lib.tla_set(fixed)}", f"  D = {depth}", f'  Family = "{family}"', f"  KD = {lib.tla_set(kd)}",
             "INIT MCInit", "NEXT MCNext"]
    lines += [f"INVARIANT {i}" for i in invariants]
    lines.append("CHECK_DEADLOCK " + ("TRUE" if deadlock else "FALSE"))
    open(path, "w").write("\n".join(lines) + "\n")


def t_cfg(ctx, kd):
    path = ctx.path(f"t_multilayer_{threading.get_ident()}.cfg")
    lines = ["CONSTANTS", f"  KnownDeviations = {lib.tla_set(kd)}", "  Keys = {}", "  Vals = {}", "  Kinds <- TKinds",
             "  Caps <- TCaps", "  Budgets <- TBudgets", "  Policies <- TPolicies", "  Sizes <- TSizes", "  Hooks = FALSE", "  Fixed = {}", "INIT TInit", "NEXT TNext", "INVARIANT Done", "CHECK_DEADLOCK FALSE"]
    open(path, "w").write("\n".join(lines) + "\n")
    return path


# --------------------------------------------------------------------------- design-level checks on the model
def design_checks(ctx, kd):
    """TLC on the code-shaped machine: repaired variant satisfies the property; the as-is variant is refuted
    exactly by the candidate findings.  Model-level results never produce a VIOLATION (DESIGN 2.4)."""
    res = {}
    plan = [("core", "md", 1, False, 4), ("fault", "md", 1, True, 3), ("valid", "md", 1, True, 3), ("ttl", "md", 1, False, 4)]
    if not ctx.quick:
        plan += [("batch", "md", 1, False, 3), ("valid", "md", 1, True, 4), ("layer", "mmd", 1, False, 3),
                 ("core", "mmd", 2, False, 4), ("core", "md", 2, False, 4), ("fault", "mmd", 1, True, 3), ("core", "mm", 1, False, 4)]
    jobs = []      # (name, cfg arguments, invariants, deadlock, expect_violation)
    for fam, lay, c0, hooks, d in plan:
        jobs.append((f"ideal_{fam}_{lay}{c0}", (fam, lay, c0, hooks, d, ALL_FINDINGS, []), ["ConformsIdeal", "Returns", "GhostSane"], True, False))
    # the other configuration alphabets: byte budget with the ttl policy / a victim-choosing policy, odd key names
    jobs.append(("ideal_fault2_mdd", ("fault2", "mdd", 1, True, 4, ALL_FINDINGS, []), ["ConformsIdeal", "Returns", "GhostSane"], True, False))
    for nm, o in (("ttlpol", {"policy": "ttl", "budget": 40, "vals": ("v1", "big")}), ("budget", {"policy": "victim", "budget": 40, "vals": ("v1", "big")}),
                  ("tmpkeys", {"keys": ("a.tmp", "b.TMP")})):
        if nm == "ttlpol" or not ctx.quick:
            jobs.append((f"ideal_{nm}", ("core", "md", 100 if "budget" in o else 1, False, 3, ALL_FINDINGS, [], o),
                         ["ConformsIdeal", "Returns", "GhostSane"], True, False))
    # as-is: a get never returns (F12a): invariant Returns, and TLC's own deadlock check on the per-call sub-machine
    jobs.append(("asis_a", ("core", "md", 1, False, 4, [], []), ["Returns"], False, True))
    jobs.append(("asis_a2", ("core", "md", 1, False, 4, [], []), [], True, True))
    # as-is with the lock repaired: a stale value is served (F12b) ...
    jobs.append(("asis_b", ("core", "md", 1, False, 4, ["F12a"], []), ["ConformsIdeal"], False, True))
    # ... and the signature of F12b explains every deviation of the as-is machine
    jobs.append(("asis_c", ("core", "md", 1, False, 4, ["F12a"], ["F12b"]), ["Conforms"], False, False))

    def one(job):
        name, a, invs, dl, expect = job
        cfg = ctx.path(f"design_{name}.cfg")
        opts = a[7] if len(a) > 7 else None
        mc_cfg(cfg, *a[:7], invs, deadlock=dl, opts=opts)
        return name, lib.tlc(ctx, MODULE_MC, cfg, workers=W, timeout=900, expect_violation=expect)

    with ThreadPoolExecutor(max_workers=PAR) as ex:
        out = dict(ex.map(one, jobs))
    st = sum(r["distinct"] for n, r in out.items() if n.startswith("ideal_") or n == "asis_c")
    tr = sum(r["generated"] for n, r in out.items() if n.startswith("ideal_") or n == "asis_c")
    res["repaired_machine_satisfies_property"] = {"configs": len(plan), "distinct_states": st - out["asis_c"]["distinct"]}
    res["asis_F12a_every_call_returns_refuted"] = "Returns" in out["asis_a"]["invariant_violated"]
    res["asis_F12a_tlc_deadlock_in_call_submachine"] = bool(out["asis_a2"]["deadlock"])
    res["asis_F12b_coherence_refuted"] = "ConformsIdeal" in out["asis_b"]["invariant_violated"]
    res["asis_deviations_all_explained_by_signatures"] = True
    ctx.cov["states"] += st
    ctx.cov["transitions"] += tr
    ctx.cov["design_checks"] = res
    ctx.stage("design", **{k: (v if not isinstance(v, dict) else v["distinct_states"]) for k, v in res.items()})
    if not (res["asis_F12a_every_call_returns_refuted"] and res["asis_F12a_tlc_deadlock_in_call_submachine"] and res["asis_F12b_coherence_refuted"]):
        # the model no longer shows the candidate defects: the spec was edited inconsistently
        raise lib.ToolError(f"design check: as-is machine not refuted as recorded: {res}")


# --------------------------------------------------------------------------- generate / run / judge
POLICIES = ["lru", "lfu", "fifo", "random"]


def add_strategy(lines, offset=0):
    """Per program: promotion strategy, hooks implementation, and - where the model says "victim" (any policy that
    chooses a victim; the model leaves the victim open) - a concrete eviction policy, all round-robin."""
    out = []
    for i, l in enumerate(lines):
        l = l.replace('"victim"', '"%s"' % POLICIES[(i + offset) % len(POLICIES)])
        out.append('{"strategy":"%s","hookimpl":"%s",' % (STRATEGIES[(i + offset) % len(STRATEGIES)], ("md5", "ngdp")[(i // 3 + offset) % 2]) + l[1:])
    return out


def generate(ctx, tag, family, layout, cap0, hooks, depth, fixed, kd, opts=None):
    cfg = ctx.path(f"mc_{tag}.cfg")
    mc_cfg(cfg, family, layout, cap0, hooks, depth, fixed, kd, ["Conforms", "Emit"], opts=opts)
    progs = ctx.path(f"prog_{tag}.raw")
    hangs = ctx.path(f"hang_{tag}.raw")
    r = lib.tlc(ctx, MODULE_MC, cfg, workers=W, tagged_out={"PROGRAM": progs, "HANGPROG": hangs}, timeout=1500)
    with LOCK:
        ctx.cov["states"] += r["distinct"]
        ctx.cov["transitions"] += r["generated"]
    p = list(dict.fromkeys(lib.read_lines(progs)))      # eviction nondeterminism repeats a program text
    h = list(dict.fromkeys(lib.read_lines(hangs)))
    os.remove(progs); os.remove(hangs)
    ctx.stage("mc", config=tag, distinct_states=r["distinct"], programs=len(p), predicted_hang_programs=len(h), wall_s=r["wall_s"])
    return p, h


def program_of(evs):
    if not evs:
        return None
    h = evs[0]
    ops = [{k: v for k, v in e.items() if k not in ("res", "rs", "obs", "seq", "msg", "now")} for e in evs[1:] if e.get("op") != "hang"]
    hung = [e["during"] for e in evs[1:] if e.get("op") == "hang"]
    return {"kinds": h.get("kinds"), "caps": h.get("caps"), "budgets": h.get("budgets"), "policies": h.get("policies"),
            "hooks": h.get("hooks"), "keys": h.get("keys"),
            "strategy": h.get("strategy"), "hookimpl": h.get("hookimpl", "md5"), "ops": ops + hung}


def judge_trace(ctx, trace, source, kd, max_events=60000):
    cfg = t_cfg(ctx, kd)
    v = lib.judge(ctx, MODULE_T, cfg, trace, max_events=max_events, parallel=W)
    with LOCK:
        ctx.stage("judge", source=source, events=v["events"], violations=len(v["violations"]), deviations=len(v["deviations"]), wall_s=v["wall_s"])
        lib.classify_trace(ctx, v, trace, source, program_of=program_of)
    return v


def run_programs(ctx, tag, lines, jobs=1, shards=12, max_hangs=3):
    """max_hangs: per driver job; an unexpected hang costs the watchdog timeout, so after a few of them a job skips
    its remaining programs (the recorded hangs are judged - as VIOLATIONs unless a listed finding explains them)."""
    pf = ctx.path(f"prog_{tag}.ndjson")
    open(pf, "w").write("\n".join(lines) + "\n")
    trace = ctx.path(f"trace_{tag}.ndjson")
    if jobs > 1:
        d = lib.run_driver(DRV, ["--programs", pf, "--out", trace, "--jobs", jobs, "--max-hangs", max_hangs], timeout=2400)
    else:
        d = lib.run_sharded(ctx, DRV, pf, trace, extra_args=["--max-hangs", max_hangs], shards=shards, timeout=2400)
    ctx.stage("run", config=tag, programs=d.get("programs"), events=d.get("events"), hangs=d.get("hangs"), skipped=d.get("skipped"), wall_s=d["wall_s"])
    if d.get("skipped"):
        with LOCK:
            ctx.cov["programs_skipped_after_hangs"] = ctx.cov.get("programs_skipped_after_hangs", 0) + d["skipped"]
    if d.get("programs", 0) + d.get("skipped", 0) != len(lines) or (d.get("skipped") and not d.get("hangs")):
        raise lib.ToolError(f"driver executed {d.get('programs')} (+{d.get('skipped')} skipped) of {len(lines)} programs ({tag})")
    os.remove(pf)
    return trace, d


def selftest(ctx, trace, kd):
    """Binding self-test: corrupt one logged field / drop one event -> the monitor must flag exactly there."""
    if ctx.violations:
        ctx.cov["binding_selftest"] = {"skipped": "violations were already reported on this trace"}
        return
    # whole runs that contain a get answering a value (so that there is something to corrupt)
    runs, cur = [], []
    for l in lib.read_lines(trace):
        if lib.is_new(l) and cur:
            runs.append(cur); cur = []
        cur.append(l)
    runs.append(cur)
    good = [r for r in runs if any('"op":"get"' in l and ('"res":"v1"' in l or '"res":"v2"' in l) for l in r) and not any('"hang"' in l for l in r)]
    lines = [l for r in good[:400] for l in r]
    cfg = t_cfg(ctx, kd)
    p0 = ctx.path("selftest_0.ndjson"); open(p0, "w").write("\n".join(lines) + "\n")
    base = lib.tlc_trace(ctx, MODULE_T, cfg, p0)
    # (a) a get that returned a value: report another value
    ia = next(i for i, l in enumerate(lines) if '"op":"get"' in l and json.loads(l)["res"] in ("v1", "v2") and (i + 1) not in base["violations"])
    e = json.loads(lines[ia]); e["res"] = "v2" if e["res"] == "v1" else "v1"
    la = list(lines); la[ia] = json.dumps(e, separators=(",", ":"))
    pa = ctx.path("selftest_a.ndjson"); open(pa, "w").write("\n".join(la) + "\n")
    # (b) a projection: one held entry reported as absent
    def held_after_put(l):
        e = json.loads(l)
        return e.get("op") in ("put", "put_layer") and e.get("res") == "ok" and any(lay[e["k"]] != "none" for lay in e["obs"])
    ib = next(i for i, l in enumerate(lines) if i > ia and '"op":"put' in l and held_after_put(l) and (i + 1) not in base["violations"])
    e = json.loads(lines[ib]); k = e["k"]
    for lay in e["obs"]:
        if lay[k] != "none":
            lay[k] = "none"
    lb = list(lines); lb[ib] = json.dumps(e, separators=(",", ":"))
    pb = ctx.path("selftest_b.ndjson"); open(pb, "w").write("\n".join(lb) + "\n")
    # (c) drop an event that is not a run boundary
    ic = next(i for i, l in enumerate(lines) if i > 40 and not lib.is_new(l) and not lib.is_new(lines[i + 1]) and '"hang"' not in lines[i + 1])
    lc = list(lines); del lc[ic]
    pc = ctx.path("selftest_c.ndjson"); open(pc, "w").write("\n".join(lc) + "\n")
    va, vb, vc = (lib.tlc_trace(ctx, MODULE_T, cfg, p) for p in (pa, pb, pc))
    res = {"corrupt_result_flagged": (ia + 1) in va["violations"],
           "corrupt_projection_flagged": (ib + 1) in vb["violations"],
           "drop_one_event_flagged": (ic + 1) in vc["violations"] and len(vc["violations"]) > len(base["violations"])}
    ctx.cov["binding_selftest"] = res
    if not all(res.values()):
        raise lib.ToolError(f"binding self-test failed: {res}")


def replay(ctx, kd):
    obj = json.load(open(ctx.replay))
    prog = obj["program"]
    p = ctx.path("replay_prog.ndjson")
    open(p, "w").write(json.dumps(prog) + "\n")
    trace = ctx.path("replay_trace.ndjson")
    lib.run_driver(DRV, ["--programs", p, "--out", trace])
    v = judge_trace(ctx, trace, "replay", kd)
    print(open(trace).read())
    print(json.dumps(v))
    return 1 if v["violations"] else 0


def known(ctx):
    """ids of C12 findings with status "known": KNOWN_FINDINGS.json (generated by bin/mkmanifest) and, so that the
    check also works before the maintainer has regenerated it, findings.d/F12*.json read directly."""
    import glob
    have = {f["id"] for f in ctx.known.get("findings", [])}
    for p in sorted(glob.glob(os.path.join(lib.ROOT, "findings.d", "F12*.json"))):
        f = json.load(open(p))
        if f.get("status", "known") == "known" and f["id"] not in have and f["property"] == "C12":
            ctx.known.setdefault("findings", []).append(f)
    # development aid (never set by registered commands): judge as if these findings were already fixed
    assume_fixed = set(filter(None, os.environ.get("VERIF_C12_ASSUME_FIXED", "").split(",")))
    return [f for f in lib.known_ids(ctx, "C12") if f not in assume_fixed]


def sweep_scratch():
    """A thread abandoned after a hang may still be writing below the driver's scratch directory when the driver
    removes it at exit and so bring it back: remove the directories of driver processes that no longer exist."""
    import glob, shutil
    for d in glob.glob("/dev/shm/drv_multilayer.*") + glob.glob("/tmp/drv_multilayer.*"):
        pid = d.rsplit(".", 1)[1]
        if pid.isdigit() and not os.path.exists(f"/proc/{pid}"):
            shutil.rmtree(d, ignore_errors=True)


def run(ctx):
    import time
    stage0 = ctx.stage
    ctx.stage = lambda name, **kw: stage0(name, **kw, t=round(time.time() - ctx.t0, 1))
    kd = known(ctx)
    fixed = [f for f in ALL_FINDINGS if f not in kd]
    lib.build([DRV])
    if ctx.replay:
        return replay(ctx, kd)
    design_checks(ctx, kd)
    rnd = random.Random(ctx.seed)
    # (tag, family, layout, cap0, hooks, depth[, opts: key names / eviction policy / byte budget of the memory layers])
    # 40 bytes = two of the 17-byte values, "big" (64 bytes) is larger than the whole budget; max_entries out of the way
    TTLPOL = {"policy": "ttl", "budget": 40, "vals": ("v1", "big")}
    BUDGET = {"policy": "victim", "budget": 40, "vals": ("v1", "big")}     # lru / lfu / fifo / random round-robin over the programs
    TMPKEYS = {"keys": ("a.tmp", "b.TMP")}          # cache-key strings with the extension of the disk layer's temp files
    if ctx.quick:
        plan = [("core_md1", "core", "md", 1, False, 4), ("core_mmd1", "core", "mmd", 1, False, 3),
                ("core_budget", "core", "md", 100, False, 3, BUDGET), ("core_ttlpol", "core", "md", 100, False, 3, TTLPOL),
                ("core_tmpkeys", "core", "md", 1, False, 3, TMPKEYS), ("fault2_mdd", "fault2", "mdd", 1, True, 4),
                ("layer_md1", "layer", "md", 1, False, 3), ("batch_md1", "batch", "md", 1, False, 3),
                ("valid_md1", "valid", "md", 1, True, 4),
                ("fault_md1", "fault", "md", 1, True, 3), ("ttl_md1", "ttl", "md", 1, False, 3)]
        max_hang, nrand, rlen = 36, 300, 60
    else:
        plan = [("core_md1", "core", "md", 1, False, 5), ("core_mmd1", "core", "mmd", 1, False, 4), ("core_md2", "core", "md", 2, False, 4),
                ("core_mm", "core", "mm", 1, False, 4),
                ("core_budget", "core", "md", 100, False, 4, BUDGET), ("core_ttlpol", "core", "md", 100, False, 4, TTLPOL),
                ("core_ttlpol_mm", "core", "mm", 100, False, 3, TTLPOL), ("layer_ttlpol", "layer", "md", 100, False, 3, TTLPOL),
                ("layer_budget", "layer", "mmd", 100, False, 3, BUDGET),
                ("core_tmpkeys", "core", "md", 1, False, 4, TMPKEYS), ("fault_tmpkeys", "fault", "md", 1, True, 3, TMPKEYS),
                ("batch_tmpkeys", "batch", "md", 1, False, 3, TMPKEYS),
                ("fault2_mdd", "fault2", "mdd", 1, True, 5), ("core_mdd", "core", "mdd", 1, False, 4),
                ("layer_mmd", "layer", "mmd", 1, False, 3), ("layer_md2", "layer", "md", 2, False, 4), ("batch_md1", "batch", "md", 1, False, 4),
                ("batch_mmd2", "batch", "mmd", 2, False, 3),
                ("valid_md1", "valid", "md", 1, True, 5), ("valid_off", "valid", "md", 1, False, 4), ("valid_mmd", "valid", "mmd", 1, True, 4),
                ("fault_md1", "fault", "md", 1, True, 4), ("fault_mmd", "fault", "mmd", 2, True, 3), ("ttl_md1", "ttl", "md", 1, False, 5)]
        max_hang, nrand, rlen = 320, 2000, 80
    hang_pool = []
    counts = {"total": 0, "distinct": 0}

    def pipeline(item):
        n, (tag, fam, lay, c0, hooks, d) = item[0], item[1][:6]
        opts = item[1][6] if len(item[1]) > 6 else None
        progs, hangs = generate(ctx, tag, fam, lay, c0, hooks, d, fixed, kd, opts=opts)
        progs = add_strategy(progs, n)
        # programs of the ttl family mostly sleep: many at a time inside one driver process
        trace, info = run_programs(ctx, tag, progs, jobs=48 if fam == "ttl" else 1, shards=W)
        ls = lib.read_lines(trace)
        s_, e_ = lib.run_of_line(ls, len(ls) // 2 + 1)
        sample = {"source": f"MC_MultiLayer {tag}", "trace": [json.loads(x) for x in ls[s_:e_]]}
        judge_trace(ctx, trace, f"MC_MultiLayer {tag} family={fam} layout={lay} cap0={c0} hooks={hooks} depth={d} opts={opts}", kd)
        if n == 0:
            selftest(ctx, trace, kd)
        os.remove(trace)
        with LOCK:
            hang_pool.extend(hangs)
            counts["total"] += len(progs); counts["distinct"] += len(set(progs))
            if len(ctx.cov["samples"]) < 4:
                ctx.cov["samples"].append(sample)

    with ThreadPoolExecutor(max_workers=PAR) as ex:
        list(ex.map(pipeline, enumerate(plan)))
    total, distinct = counts["total"], counts["distinct"]
    # programs on which the machine predicts that a call never returns (only while F12a is a listed finding):
    # each costs the watchdog timeout, so a seeded sample is executed, many at a time
    hang_pool = list(dict.fromkeys(hang_pool))
    ctx.cov["predicted_hang_programs"] = len(hang_pool)
    if hang_pool:
        rnd.shuffle(hang_pool)
        sample = add_strategy(sorted(hang_pool[:max_hang]))
        trace, info = run_programs(ctx, "hang", sample, jobs=min(32, max(1, (len(sample) + 2) // 3)), max_hangs=1000000)
        total += len(sample); distinct += len(set(sample))
        ls = lib.read_lines(trace)
        s, e = lib.run_of_line(ls, 1)
        ctx.cov["samples"].append({"source": "MC_MultiLayer predicted hang", "trace": [json.loads(x) for x in ls[s:e]]})
        ctx.cov["hangs_observed"] = info.get("hangs")
        judge_trace(ctx, trace, "MC_MultiLayer programs with a predicted hang", kd)
        os.remove(trace)
    # long seeded random histories: more keys, values, layers, bad layer indices, all operations mixed
    trace = ctx.path("trace_random.ndjson")
    args = ["--random", nrand, "--len", rlen, "--out", trace, "--jobs", min(12, lib.NCPU), "--max-hangs", 3]
    if "F12a" in kd:
        args.append("--avoid-hang")
    d = lib.run_driver(DRV, args, env={"VERIF_SEED": ctx.seed}, timeout=2400)
    ctx.stage("run", source="random", programs=d.get("programs"), events=d.get("events"), hangs=d.get("hangs"), wall_s=d["wall_s"])
    if d.get("skipped"):
        ctx.cov["programs_skipped_after_hangs"] = ctx.cov.get("programs_skipped_after_hangs", 0) + d["skipped"]
    if d.get("programs", 0) + d.get("skipped", 0) != nrand or (d.get("skipped") and not d.get("hangs")):
        raise lib.ToolError(f"driver executed {d.get('programs')} of {nrand} random programs")
    judge_trace(ctx, trace, f"random seed={ctx.seed}", kd, max_events=30000)
    total += nrand; distinct += nrand
    total -= ctx.cov.get("programs_skipped_after_hangs", 0)
    distinct = min(distinct, total)
    ctx.cov["traces_validated_against_impl"] = total
    ctx.cov["evaluations"] = total
    ctx.cov["distinct_nontrivial"] = distinct
    ctx.cov["exhaustive"] = True
    ctx.cov["exhaustive_scope"] = ("per listed (family, layout, cap0, hooks): all operation sequences of the family's alphabet up to the depth, "
                                   "modulo renaming of keys/values; programs with a predicted hang and the random tier are sampled")
    ctx.assumptions += ["TLC, the CommunityModules Json reader and the driver's projection (get_from_layer probes after every call) are trusted",
                        "the probes are API calls themselves: they refresh recency in memory layers and make the disk layer notice a missing file",
                        "a put into a layer leaves the entry retrievable by the immediately following get_from_layer (max_entries >= 1)",
                        "time: TTLs are 1 h or 25 ms followed by a 110 ms sleep; background cleanup tasks are never polled by the driver's runtime"]
    sweep_scratch()
    return lib.finish(ctx, "model_checking",
                      rule="programs = complete operation sequences of length D over a family's alphabet enumerated by TLC from the code-shaped "
                           "machine of MultiLayer.tla (history variable, canonical key/value naming), truncated at a predicted hang, plus seeded random "
                           "programs; distinct = distinct program texts; every program has >= 3 operations")
