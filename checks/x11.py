"""X11 - two bookkeeping subsystems as state machines (growth of the specification):
 (a) the TACT key store (cascette-crypto keys.rs / store_trait.rs, KeyringConfig as a producer of keys) - spec/KeyStore.tla
 (b) the statistics books (cascette-cache stats.rs, cascette-protocol cdn/streaming/metrics.rs)       - spec/Stats.tla

MC_KeyStore / MC_Stats: design-level invariants (map laws; the reference books at the real boundary values as BigNats:
range, monotone steps, exactness on balanced histories, merge algebra; the modular "wrap" variant must be refuted) and
enumeration of every operation sequence of a depth per family as a PROGRAM (binding G).  drv_bookkeeping executes the
programs on the real code; T_KeyStore / T_Stats judge every recorded event (binding T; the text grammar, ratios and
averages are executable definitions evaluated on the logged arguments, binding E).  Seeded random programs follow.
"""
import glob, json, os, threading
from concurrent.futures import ThreadPoolExecutor
from . import lib

PROP = "X11"
DRV = "drv_bookkeeping"
KS_KINDS = ("ks", "kr")
LOCK = threading.Lock()      # the two monitors' pipelines run side by side; ctx / totals are shared
ALL_KS = ["FX11d", "FX11e", "FX11f"]
ALL_ST = ["FX11a", "FX11b", "FX11c", "FX11g", "FX11h", "FX11i"]


def own_findings(ctx):
    """findings.d/FX11*.json is the source (X11 is not a MANIFEST property)."""
    mine = [json.load(open(p)) for p in sorted(glob.glob(os.path.join(lib.ROOT, "findings.d", "FX11*.json")))]
    ctx.known["findings"] = [f for f in ctx.known.get("findings", []) if f.get("property") != PROP] + \
                            [f for f in mine if f.get("status", "known") == "known"]
    kd = lib.known_ids(ctx, PROP)
    if os.environ.get("VERIF_X11_KD") is not None and lib.REPO != "/repo":
        # development aid (like VERIF_REPO): judge a scratch worktree that carries proposed fixes as if only these
        # findings were listed.  Registered commands never set it.
        kd = [x for x in os.environ["VERIF_X11_KD"].split(",") if x]
    return kd


def program_of(evs):
    if not evs or evs[0].get("op") != "new":
        return None
    return evs[0].get("prog")


def t_cfg(ctx, which, kd, name=None):
    cfg = ctx.path(name or f"t_{which}.cfg")
    consts = {"KnownDeviations": lib.tla_set(kd)}
    if which == "st":
        consts["Variant"] = '"ideal"'
    lib.write_cfg(cfg, consts, "TInit", "TNext", invariants=["Done"])
    return cfg


def module_t(which):
    return "T_KeyStore" if which == "ks" else "T_Stats"


# --------------------------------------------------------------------------- model checking / program generation
def plan(quick):
    def ks(fam, D, init="empty", via="direct"):
        return dict(mod="MC_KeyStore", which="ks", fam=fam, D=D, init=init, via=via)

    def st(fam, D, wide="std"):
        return dict(mod="MC_Stats", which="st", fam=fam, D=D, wide=wide, workers=2 if fam == "met" else 1)
    if quick:
        return [ks("api", 3), ks("api", 2, "new"), ks("api", 3, via="custom"), ks("api", 2, via="trait"), ks("api", 2, via="unified"),
                ks("api", 2, "new", "nested"), ks("csv", 3), ks("txt", 3), ks("kr", 3),
                st("met", 3), st("merge", 2), st("opm", 3), st("mls", 3), st("sm", 3), st("pm", 3), st("exp", 3)]
    return [ks("api", 4), ks("api", 4, "new"), ks("api", 4, via="custom"), ks("api", 3, via="trait"), ks("api", 3, via="unified"),
            ks("api", 3, "new", "nested"), ks("api", 3, "new", "unified"), ks("csv", 3), ks("txt", 3), ks("kr", 4),
            st("met", 4, "core"), st("met", 3, "wide"), st("merge", 2, "wide"), st("opm", 4), st("mls", 3, "wide"), st("sm", 4, "core"),
            st("sm", 3), st("pm", 4), st("pm", 3, "wide"), st("exp", 4)]


def tag_of(c):
    return "_".join(str(c[k]) for k in ("fam", "D", "init", "via", "wide") if k in c)


def mc_one(ctx, c):
    tag = tag_of(c)
    cfg = ctx.path(f"mc_{tag}.cfg")
    if c["which"] == "ks":
        lib.write_cfg(cfg, {"Family": f'"{c["fam"]}"', "D": c["D"], "Init0": f'"{c["init"]}"', "Via": f'"{c["via"]}"'},
                      "MCInit", "MCNext", constraints=["Constr"],
                      invariants=["MapLaws", "MapRoundTrip", "NewKeepsBuiltIns", "Emit"])
    else:
        lib.write_cfg(cfg, {"Family": f'"{c["fam"]}"', "D": c["D"],  "Wide": f'"{c["wide"]}"', "Variant": '"ideal"'},
                      "MCInit", "MCNext", constraints=["Constr"],
                      invariants=["InRange", "MaxDominates", "HitsPlusMisses", "LastStep", "Balanced", "MergeLaws", "Emit"])
    progs = ctx.path(f"prog_{tag}.ndjson")
    r = lib.tlc(ctx, c["mod"], cfg, tagged_out={"PROGRAM": progs}, timeout=1500, workers=c.get("workers", 1), heap="3g")
    n = r["counts"]["PROGRAM"]
    if n == 0:
        raise lib.ToolError(f"{c['mod']} printed no program for {tag}")
    return dict(tag=tag, progs=progs, n=n, distinct=r["distinct"], generated=r["generated"], wall_s=r["wall_s"])


def model_refutation(ctx):
    """Anti-vacuity of the design invariants: with modular gauges (the arithmetic before the saturating fix) TLC must
    refute them."""
    cfg = ctx.path("mc_wrap.cfg")
    lib.write_cfg(cfg, {"Family": '"met"', "D": 2, "Wide": '"std"', "Variant": '"wrap"'}, "MCInit", "MCNext", constraints=["Constr"],
                  invariants=["MaxDominates", "LastStep"])
    r = lib.tlc(ctx, "MC_Stats", cfg, timeout=600, workers=1, heap="2g", expect_violation=True)
    ok = bool(r["invariant_violated"])
    ctx.cov["model_refutes_invariant_with_wrapping_gauges"] = r["invariant_violated"]
    if not ok:
        raise lib.ToolError("MC_Stats with Variant = wrap no longer violates MaxDominates / LastStep (model out of date?)")
    return r


# --------------------------------------------------------------------------- run / judge
def split_by_monitor(progs_path, ks_path, st_path):
    nk = ns = 0
    with open(progs_path) as f, open(ks_path, "w") as k, open(st_path, "w") as s:
        for line in f:
            if not line.strip():
                continue
            if json.loads(line)["kind"] in KS_KINDS:
                k.write(line); nk += 1
            else:
                s.write(line); ns += 1
    return nk, ns


def run_and_judge(ctx, which, progs, n, source, kd, totals, target_chunks=8, parallel=None, tag="mc"):
    trace = ctx.path(f"trace_{which}_{tag}.ndjson")
    d = lib.run_sharded(ctx, DRV, progs, trace, shards=min(lib.NCPU, 8))
    ctx.stage("run", source=source, monitor=module_t(which), programs=d.get("programs"), events=d.get("events"), hangs=d.get("hangs"), wall_s=d["wall_s"])
    if d.get("programs") != n:
        raise lib.ToolError(f"driver executed {d.get('programs')} of {n} programs")
    ev = d.get("events", 0)
    v = lib.judge(ctx, module_t(which), t_cfg(ctx, which, kd, name=f"t_{which}_{tag}.cfg"), trace,
                  max_events=max(1500, ev // target_chunks + 1), timeout=1500, parallel=parallel)
    ndev = {}
    for _, fid in v["deviations"]:
        ndev[fid] = ndev.get(fid, 0) + 1
    ctx.stage("judge", source=source, monitor=module_t(which), events=v["events"], violations=len(v["violations"]), deviations=ndev,
              wall_s=v["wall_s"], chunks=v["chunks"])
    with LOCK:
        totals["events"] += v["events"]
        lib.classify_trace(ctx, v, trace, source, program_of=program_of)
    return trace, v


def count_ops(trace, totals):
    kind = None
    with open(trace) as f:
        for line in f:
            e = json.loads(line)
            if e.get("op") == "new":
                kind = e.get("kind")
                continue
            k = f"{kind}.{e.get('op')}"
            totals["ops"][k] = totals["ops"].get(k, 0) + 1


NEED = ["ks.add", "ks.remove", "ks.get", "ks.load", "ks.debug", "ks.load_keys", "ks.save_keys", "kr.add", "kr.get", "kr.get_id", "kr.roundtrip",
        "kr.to_store", "met.get", "met.put", "met.rem", "met.evi", "met.exp", "met.batch", "met.reset", "merge.merge", "opm.record",
        "opm.set_count", "mls.update", "mls.promo", "sm.dl", "sm.hit", "sm.miss", "sm.evict", "sm.size", "sm.up", "pm.succ", "pm.fail", "pm.rt",
        "exp.upd_pool", "exp.upd_stream"]


# --------------------------------------------------------------------------- self-tests
def selftest(ctx, traces, kds):
    """Binding self-test: corrupt one logged field / drop one event -> the monitor must flag exactly that event;
    signature self-test: without the listed findings the explained events must be violations."""
    res = {}
    jobs = []
    for which, trace in traces.items():
        lines = lib.read_lines(trace)
        # a sample spread over the whole trace: every k-th run (all families are in it, in proportion)
        starts = [i for i, l in enumerate(lines) if lib.is_new(l)] + [len(lines)]
        stride = max(1, (len(starts) - 1) // 450)
        picked = []
        for r in range(0, len(starts) - 1, stride):
            picked += lines[starts[r]:starts[r + 1]]
        lines = picked
        kd = kds[which]
        mod, cfg = module_t(which), t_cfg(ctx, which, kd, name=f"t_{which}_self.cfg")
        cfg0 = t_cfg(ctx, which, [], name=f"t_{which}_nokd.cfg")
        p0 = ctx.path(f"selftest_{which}_0.ndjson"); open(p0, "w").write("\n".join(lines) + "\n")
        # (a) corrupt fields
        la = list(lines)
        corrupted = []
        if which == "ks":
            ia = next(i for i, l in enumerate(la) if not lib.is_new(l) and '"op":"add"' in l and '"pairs":[[' in l)
            e = json.loads(la[ia]); e["obs"]["pairs"][0][1][0][3] ^= 1
            la[ia] = json.dumps(e, separators=(",", ":")); corrupted.append(ia + 1)
            ib_ = next(i for i, l in enumerate(la) if not lib.is_new(l) and '"op":"load"' in l and '"res":{"ok":[1]}' in l)
            e = json.loads(la[ib_]); e["res"]["ok"] = [3]
            la[ib_] = json.dumps(e, separators=(",", ":")); corrupted.append(ib_ + 1)
            ic = next(i for i, l in enumerate(la) if not lib.is_new(l) and '"op":"get"' in l and '"kind"' not in l and '"idcp"' in l and '"res":{"ok":[[' in l)
            e = json.loads(la[ic]); e["res"]["ok"][0][0] ^= 1
            la[ic] = json.dumps(e, separators=(",", ":")); corrupted.append(ic + 1)
        else:
            ia = next(i for i, l in enumerate(la) if not lib.is_new(l) and '"op":"get"' in l and '"sn"' in l)
            e = json.loads(la[ia]); e["obs"]["sn"]["hits"] = [9]
            la[ia] = json.dumps(e, separators=(",", ":")); corrupted.append(ia + 1)
            ib_ = next(i for i, l in enumerate(la) if not lib.is_new(l) and '"op":"merge"' in l)
            e = json.loads(la[ib_]); e["obs"]["slot"]["n"] = [4242]
            la[ib_] = json.dumps(e, separators=(",", ":")); corrupted.append(ib_ + 1)
            ic = next(i for i, l in enumerate(la) if not lib.is_new(l) and '"op":"hit"' in l and '"caches"' in l and '"src"' not in l)
            e = json.loads(la[ic]); e["obs"]["caches"][0][1]["ratio"] = {"k": "nan", "n9": []}
            la[ic] = json.dumps(e, separators=(",", ":")); corrupted.append(ic + 1)
            id_ = next(i for i, l in enumerate(la) if not lib.is_new(l) and '"op":"upd_pool"' in l and '"outcome"' not in l)
            e = json.loads(la[id_]); e["obs"]["pool_active_connections"] = {"int": [77]}
            la[id_] = json.dumps(e, separators=(",", ":")); corrupted.append(id_ + 1)
        pa = ctx.path(f"selftest_{which}_a.ndjson"); open(pa, "w").write("\n".join(la) + "\n")
        # (b) drop one event that is neither a run boundary nor the last of its run
        ib = next(i for i, l in enumerate(lines) if i > 20 and not lib.is_new(l) and not lib.is_new(lines[i + 1]))
        lb = list(lines); del lb[ib]
        pb = ctx.path(f"selftest_{which}_b.ndjson"); open(pb, "w").write("\n".join(lb) + "\n")
        jobs += [(which, "base", mod, cfg, p0, None), (which, "corrupt", mod, cfg, pa, corrupted), (which, "drop", mod, cfg, pb, ib + 1),
                 (which, "nokd", mod, cfg0, p0, None)]
    with ThreadPoolExecutor(max_workers=min(lib.NCPU, 8)) as ex:
        outs = list(ex.map(lambda j: lib.tlc_trace(ctx, j[2], j[3], j[4]), jobs))
    by = {(j[0], j[1]): (j, v) for j, v in zip(jobs, outs)}
    for which in traces:
        base = by[(which, "base")][1]
        j, va = by[(which, "corrupt")]
        ok_a = set(j[5]) <= set(va["violations"]) and not (set(j[5]) & set(base["violations"])) and \
            len(va["violations"]) - len(base["violations"]) <= len(j[5]) + 6
        j, vb = by[(which, "drop")]
        ok_b = j[5] in vb["violations"] and len(vb["violations"]) > len(base["violations"])
        _, v0 = by[(which, "nokd")]
        devlines = {d[0] for d in base["deviations"]}
        ok_c = devlines <= set(v0["violations"]) and not v0["deviations"] and (len(devlines) > 0 or not kds[which])
        res[which] = {"corrupt_fields_flagged": ok_a, "drop_one_event_flagged": ok_b, "deviations_rejected_when_not_listed": ok_c,
                      "sample_events": base["events"], "explained_events_in_sample": len(devlines)}
        for k in ("base", "corrupt", "drop"):
            os.remove(by[(which, k)][0][4])
    ctx.cov["binding_selftest"] = res
    bad = {w: r for w, r in res.items() if not (r["corrupt_fields_flagged"] and r["drop_one_event_flagged"] and r["deviations_rejected_when_not_listed"])}
    if bad:
        raise lib.ToolError(f"binding self-test failed: {bad}")


# --------------------------------------------------------------------------- witnesses
def witnesses(ctx, kds):
    """Replay the hand-minimised witness of every finding: a listed finding whose witness no longer deviates is reported
    (informative: the fix has landed but the finding is still listed), a witness that is a violation is one."""
    progs = {"ks": [], "st": []}
    for p in sorted(glob.glob(os.path.join(lib.ROOT, "replay", "X11_FX11*_witness.json"))):
        o = json.load(open(p))
        progs["ks" if o["program"]["kind"] in KS_KINDS else "st"].append((o["finding"], o["program"], p))
    seen = set()
    for which, items in progs.items():
        if not items:
            continue
        pp = ctx.path(f"witness_{which}.ndjson")
        open(pp, "w").write("".join(json.dumps(x[1]) + "\n" for x in items))
        trace = ctx.path(f"witness_trace_{which}.ndjson")
        lib.run_driver(DRV, ["--programs", pp, "--out", trace])
        v = lib.tlc_trace(ctx, module_t(which), t_cfg(ctx, which, kds[which], name=f"t_{which}_wit.cfg"), trace)
        seen |= {fid for _, fid in v["deviations"]}
        if v["violations"]:
            lines = lib.read_lines(trace)
            nth = sum(1 for l in lines[:v["violations"][0]] if lib.is_new(l)) - 1
            with LOCK:
                lib.report_violation(ctx, f"witness {items[nth][2]}: not explained by the specification",
                                     {"property": PROP, "source": "witness", "program": items[nth][1]})
    listed = set(kds["ks"]) | set(kds["st"])
    ctx.cov["witnesses"] = {"replayed": sum(len(v) for v in progs.values()), "findings_reproduced": sorted(seen & listed)}
    gone = sorted(listed - seen)
    if gone:
        ctx.cov["known_findings_not_reproduced_by_witness"] = gone
        lib.log(f"[{PROP}] note: listed findings whose witness no longer deviates: {gone}")


# --------------------------------------------------------------------------- replay
def replay(ctx, kd):
    obj = json.load(open(ctx.replay))
    prog = obj.get("program") or obj.get("witness") or obj
    which = "ks" if prog["kind"] in KS_KINDS else "st"
    p = ctx.path("replay_prog.ndjson")
    open(p, "w").write(json.dumps(prog) + "\n")
    trace = ctx.path("replay_trace.ndjson")
    lib.run_driver(DRV, ["--programs", p, "--out", trace])
    v = lib.tlc_trace(ctx, module_t(which), t_cfg(ctx, which, kd), trace)
    print(open(trace).read()[:20000])
    print(json.dumps(v))
    for _, fid in v["deviations"]:
        lib.note_known(ctx, fid)
    for fid, n in sorted(ctx.known_seen.items()):
        print(f"KNOWN-FINDING: property={PROP} {fid} (observed {n}x)")
    if v["violations"]:
        print(f"VIOLATION property={PROP} replay={ctx.replay}")
    return 1 if v["violations"] else 0


# --------------------------------------------------------------------------- main
def run(ctx):
    kd = own_findings(ctx)
    kd_ks = [x for x in kd if x in ALL_KS]
    kd_st = [x for x in kd if x in ALL_ST]
    lib.build([DRV])
    if ctx.replay:
        return replay(ctx, kd)
    totals = {"events": 0, "ops": {}}
    pl = plan(ctx.quick)
    only = [x for x in os.environ.get("VERIF_X11_ONLY", "").split(",") if x]
    if only:
        # development aid: run only some families (inconclusive by construction unless a violation is found)
        pl = [c for c in pl if c["fam"] in only]
    with ThreadPoolExecutor(max_workers=max(2, min(lib.NCPU, 8))) as ex:
        fut_ref = ex.submit(model_refutation, ctx)
        res = list(ex.map(lambda c: mc_one(ctx, c), pl))
        ref = fut_ref.result()
    ctx.cov["states"] += ref["distinct"]
    ctx.cov["transitions"] += ref["generated"]
    files = {"ks": ctx.path("programs_ks.ndjson"), "st": ctx.path("programs_st.ndjson")}
    counts = {"ks": 0, "st": 0}
    outs = {w: open(p, "w") for w, p in files.items()}
    for c, r in zip(pl, res):
        ctx.cov["states"] += r["distinct"]
        ctx.cov["transitions"] += r["generated"]
        counts[c["which"]] += r["n"]
        ctx.stage("mc", module=c["mod"], config=r["tag"], distinct_states=r["distinct"], programs=r["n"], wall_s=r["wall_s"])
        with open(r["progs"]) as f:
            outs[c["which"]].write(f.read())
        os.remove(r["progs"])
    for o in outs.values():
        o.close()
    total_programs = 0
    distinct = 0
    traces = {}
    kds = {"ks": kd_ks, "st": kd_st}
    share = {w: max(1, round(lib.NCPU * counts[w] / max(1, counts["ks"] + counts["st"]))) for w in ("ks", "st")}

    def main_one(which):
        return run_and_judge(ctx, which, files[which], counts[which], f"{'MC_KeyStore' if which == 'ks' else 'MC_Stats'} (all families)",
                             kds[which], totals, parallel=share[which], target_chunks=8 if ctx.quick else 24)
    todo = [w for w in ("ks", "st") if counts[w]]
    with ThreadPoolExecutor(max_workers=2) as ex:
        done = list(ex.map(main_one, todo))
    for which, (trace, _) in zip(todo, done):
        _, dn = lib.count_distinct(files[which])
        distinct += dn
        total_programs += counts[which]
        traces[which] = trace
        count_ops(trace, totals)
        ls = lib.read_lines(trace)
        seen = set()
        for i, line in enumerate(ls):
            if lib.is_new(line) and len(seen) < 3:
                k = json.loads(line)["kind"]
                if k not in seen:
                    seen.add(k)
                    s, e = lib.run_of_line(ls, i + 1)
                    ctx.cov["samples"].append({"source": f"{module_t(which)} {k}", "trace": [json.loads(x) for x in ls[s:e]][:6]})
        del ls
    if only:
        if ctx.violations:
            return lib.finish(ctx, "model_checking", rule="partial run (VERIF_X11_ONLY)")
        raise lib.ToolError(f"partial run over {only}: no violation in {total_programs} programs (inconclusive by construction)")
    # seeded random programs of all kinds; self-tests and witnesses run beside them
    nrand, rlen = (500, 24) if ctx.quick else (6000, 40)
    dump = ctx.path("prog_random.ndjson")
    lib.run_driver(DRV, ["--random", nrand, "--len", rlen, "--out", ctx.path("discard.ndjson"), "--dump-programs", dump, "--dump-only"],
                   env={"VERIF_SEED": ctx.seed})
    rk, rs = ctx.path("prog_random_ks.ndjson"), ctx.path("prog_random_st.ndjson")
    nk, ns = split_by_monitor(dump, rk, rs)
    _, dn = lib.count_distinct(dump)
    distinct += dn
    total_programs += nrand
    had_violations = bool(ctx.violations)

    def random_one(a):
        which, p, n = a
        if not n:
            return None
        trace, _ = run_and_judge(ctx, which, p, n, f"random seed={ctx.seed}", kds[which], totals, target_chunks=4, parallel=2, tag="random")
        return trace

    def side():
        if had_violations:
            ctx.cov["binding_selftest"] = {"skipped": "violations were reported"}
        else:
            selftest(ctx, traces, kds)
        witnesses(ctx, kds)
    with ThreadPoolExecutor(max_workers=3) as ex:
        fs = ex.submit(side)
        rts = list(ex.map(random_one, [("ks", rk, nk), ("st", rs, ns)]))
        fs.result()
    for tr in rts:
        if tr:
            count_ops(tr, totals)
    if not ctx.violations:
        missing = [k for k in NEED if totals["ops"].get(k, 0) == 0]
        ctx.cov["actions_never_taken"] = missing
        if missing:
            raise lib.ToolError(f"anti-vacuity: no judged event of kind {missing}")
    ctx.cov["judged"] = {"events": totals["events"], "by_operation": totals["ops"]}
    ctx.cov["traces_validated_against_impl"] = total_programs
    ctx.cov["evaluations"] = total_programs
    ctx.cov["distinct_nontrivial"] = distinct
    ctx.cov["exhaustive"] = True
    ctx.cov["exhaustive_scope"] = ("per family: all operation sequences of the listed depth over the family's alphabet (key store: per (init, via) "
                                   "configuration; texts: every text of 1..3 lines over the line alphabet x line endings; merge: every triple of "
                                   "profiles); the random tier is not exhaustive")
    ctx.assumptions += ["TLC, the CommunityModules Json reader and the driver's recording (BigNat / code-point / token rendering of values, "
                        "parsing of the Prometheus text exposition, the StaleCountBackend scaffold of the trait) are trusted",
                        "usize is 64 bits on the checking host (logged by the driver and required by the monitor)",
                        "floats are judged through floor(x * 10^9) with a relative tolerance of 1e-12 (f64) / 1e-6 (f32)",
                        "the BuiltIn table of KeyStore.tla was written from keys.rs and the public community key list"]
    return lib.finish(ctx, "model_checking",
                      rule="programs = complete operation sequences of length D over the family's alphabet (key store api per configuration, one "
                           "load per text, keyring, AtomicCacheMetrics, CacheStats::merge per slot triple, OperationMetrics, MultiLayerStats, "
                           "StreamingMetrics, PoolMetrics, PrometheusExporter) enumerated by TLC from MC_KeyStore / MC_Stats, plus seeded random "
                           "programs; distinct = distinct program texts (md5); every program has at least one judged call with a read-back")
