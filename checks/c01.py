"""C01 - BLTE encode/decode is the identity on content; the chunk table is truthful; errors instead of wrong containers.

spec/Blte.tla (builder state machine at chunk granularity + byte-level reader of the header/chunk table)
  -> MC_Blte: the design's invariants on the ideal model, the recorded counterexample of every listed deviation,
     and enumeration of builder programs (binding G)
  -> drv_blte executes every program on the real BlteBuilder, serialises, re-parses, decodes with the matching key store
  -> T_Blte judges every event (binding T); the table is read by Blte!ParseTable from the raw bytes.
Seeded random programs with real chunk sizes and payloads up to 300 KiB go through the same monitor (digest pairs).
"""
import glob, hashlib, json, os, resource, subprocess
from concurrent.futures import ThreadPoolExecutor
from . import lib

PROP = "C01"
MODULE_MC = "MC_Blte"
MODULE_T = "T_Blte"
DRV = "drv_blte"
ALL_FIDS = ["F01a", "F01b", "F01c", "F01d", "F01e", "F01f", "F01g"]
MODEL_FIDS = ALL_FIDS[:6]                      # deviations that exist at the model's granularity (F01g: monitor only)
IDENTITY_FIDS = {"F01a", "F01b", "F01d"}       # refute IdentityInv; the others refute TableInv
CSMALL = 8
OBS = ("seq", "res", "err", "msg", "dlen", "data", "content", "total", "bytes", "head", "ranges_ok", "ranges", "md5s",
       "firsts", "parse", "nparsed", "parts", "dec", "dec2", "decerr", "ser")


# --------------------------------------------------------------------------- findings
def known_findings(ctx):
    """findings.d/F01*.json is the source (KNOWN_FINDINGS.json is regenerated from it by bin/mkmanifest)."""
    ids = set(lib.known_ids(ctx, PROP))
    have = {f["id"] for f in ctx.known.get("findings", [])}
    for p in sorted(glob.glob(os.path.join(lib.ROOT, "findings.d", "F01*.json"))):
        f = json.load(open(p))
        if f.get("property") != PROP:
            continue
        if f.get("status", "known") == "known":
            ids.add(f["id"])
            if f["id"] not in have:
                ctx.known.setdefault("findings", []).append(f)
        else:
            ids.discard(f["id"])
    # development aid (like VERIF_REPO): judge a scratch worktree that carries a proposed fix as if the finding were
    # recorded as fixed, e.g. VERIF_C01_KNOWN=F01b,F01e,F01f.  Registered commands never set it.
    if "VERIF_C01_KNOWN" in os.environ and lib.REPO != "/repo":
        ids = {x for x in os.environ["VERIF_C01_KNOWN"].split(",") if x}
    return sorted(i for i in ids if i in ALL_FIDS)


def program_of(evs):
    if not evs:
        return None
    ops = [{k: v for k, v in e.items() if k not in OBS} for e in evs[1:] if e.get("op") != "hang"]
    return {"inline": bool(evs[0].get("inline")), "ops": ops}


def nontrivial(line):
    return '"op":"add_' in line


OP_KINDS = ["with_compression", "with_chunk_size", "with_encryption", "without_encryption", "add_data", "add_mixed_data",
            "add_encrypted_data", "add_chunk", "build", "compress"]


def tally_trace(ctx, trace):
    """Anti-vacuity: which operations of the specification were really executed, with which outcome."""
    ops = ctx.cov.setdefault("calls_executed", {})
    with open(trace) as f:
        for line in f:
            if lib.is_new(line):
                continue
            i = line.find('"op":"')
            op = line[i + 6:line.find('"', i + 6)]
            res = "ok" if '"res":"ok"' in line else "err" if '"res":"err"' in line else "other"
            d = ops.setdefault(op, {"ok": 0, "err": 0, "other": 0})
            d[res] += 1


def count_programs(path):
    """(programs, distinct non-trivial programs): non-trivial = at least one add call."""
    seen = set()
    n = 0
    with open(path) as f:
        for line in f:
            n += 1
            if nontrivial(line):
                seen.add(hashlib.md5(line.encode()).digest())
    return n, len(seen)


# --------------------------------------------------------------------------- model checking
COUNTS = [255, 256, 257, 511, 512, 65535, 65536, 65537]      # around the byte boundaries of the 24-bit chunk count


def mc_consts(family, depth, kd):
    return {"D": depth, "Family": f'"{family}"', "CSmall": CSMALL, "KnownDeviations": lib.tla_set(kd),
            "Counts": "{" + ", ".join(str(c) for c in COUNTS) + "}" if family == "cnt" else "{}"}


def mc_ideal(ctx, family, depth):
    """The design's properties on the ideal model (KnownDeviations = {})."""
    cfg = ctx.path(f"mc_ideal_{family}.cfg")
    lib.write_cfg(cfg, mc_consts(family, depth, []), "MCInit", "MCNext",
                  invariants=["IdentityInv", "TableInv", "OffsetsInv"])
    r = lib.tlc(ctx, MODULE_MC, cfg, timeout=1500)
    ctx.cov["states"] += r["distinct"]
    ctx.cov["transitions"] += r["generated"]
    ctx.stage("mc-ideal", family=family, depth=depth, distinct_states=r["distinct"], wall_s=r["wall_s"])


def mc_witness(ctx, fid, kd):
    """With the listed deviations switched on TLC must refute the property at a state showing `fid` (regenerates the witness)."""
    family, depth = ("pay", 2) if fid == "F01f" else ("seq", 3)
    cfg = ctx.path(f"mc_wit_{fid}.cfg")
    inv = "NoWit" + fid
    lib.write_cfg(cfg, mc_consts(family, depth, kd), "MCInit", "MCNext", invariants=[inv])
    r = lib.tlc(ctx, MODULE_MC, cfg, workers=1, timeout=600, expect_violation=True)
    w = r["tagged"].get("WITNESS")
    if inv not in r["invariant_violated"] or not w:
        raise lib.ToolError(f"the model with KnownDeviations = {kd} does not reach a state showing {fid}: the listed deviation is not reachable in the model")
    return fid, w[0], r


def replay_witnesses(ctx, wits, kd):
    """Model-level counterexamples count only once replayed: run each witness on the real code and let the monitor say
    which listed deviation (if any) it needed."""
    progs = ctx.path("prog_wit.ndjson")
    open(progs, "w").write("".join(json.dumps(w) + "\n" for _, w, _ in wits))
    out = {}
    for i, (fid, w, _) in enumerate(wits):
        p1 = ctx.path(f"prog_wit_{fid}.ndjson")
        open(p1, "w").write(json.dumps(w) + "\n")
        t1 = ctx.path(f"trace_wit_{fid}.ndjson")
        lib.run_driver(DRV, ["--programs", p1, "--out", t1])
        v = lib.tlc_trace(ctx, MODULE_T, t_cfg(ctx, kd, f"t_wit_{fid}.cfg"), t1)
        out[fid] = {"program": w, "reproduced_on_code": v.get("n" + fid, 0) > 0, "violations": len(v["violations"])}
        if v["violations"]:
            lib.classify_trace(ctx, v, t1, f"witness of {fid}", program_of=program_of)
    return out


def mc_generate(ctx, family, depth, kd):
    """Programs of the model that follows the code as it is (listed deviations on)."""
    cfg = ctx.path(f"mc_gen_{family}.cfg")
    lib.write_cfg(cfg, mc_consts(family, depth, kd), "MCInit", "MCNext", invariants=["ExplainedInv", "OffsetsInv", "Emit"])
    progs = ctx.path(f"prog_{family}.ndjson")
    r = lib.tlc(ctx, MODULE_MC, cfg, tagged_out={"PROGRAM": progs}, timeout=1500)
    ctx.cov["states"] += r["distinct"]
    ctx.cov["transitions"] += r["generated"]
    n = r["counts"]["PROGRAM"]
    ctx.stage("mc-generate", family=family, depth=depth, distinct_states=r["distinct"], programs=n, wall_s=r["wall_s"])
    return progs, n


def run_cnt(ctx, progs, trace, shards=4):
    lines = lib.read_lines(progs)
    parts = [lines[i::shards] for i in range(shards)]
    parts = [p for p in parts if p]

    def one(i):
        pp, tp = f"{progs}.c{i}", f"{trace}.c{i}"
        open(pp, "w").write("\n".join(parts[i]) + "\n")
        inf = lib.run_driver(DRV, ["--programs", pp, "--out", tp])
        return inf, tp
    import time
    t = time.time()
    with ThreadPoolExecutor(max_workers=len(parts)) as ex:
        res = list(ex.map(one, range(len(parts))))
    with open(trace, "w") as out:
        for _, tp in res:
            with open(tp) as f:
                out.write(f.read())
            os.remove(tp)
    return {"programs": sum(i.get("programs", 0) for i, _ in res), "events": sum(i.get("events", 0) for i, _ in res),
            "wall_s": round(time.time() - t, 2)}


# --------------------------------------------------------------------------- judge
def t_cfg(ctx, kd, name="t_blte.cfg"):
    cfg = ctx.path(name)
    lib.write_cfg(cfg, {"KnownDeviations": lib.tla_set(kd)}, "TInit", "TNext", invariants=["Done"])
    return cfg


def add_counts(ctx, v):
    """The monitor lists one [first line, id] pair per finding and chunk of the trace and counts the rest."""
    listed = {}
    for _, fid in v["deviations"]:
        listed[fid] = listed.get(fid, 0) + 1
    for fid in ALL_FIDS:
        extra = v.get("n" + fid, 0) - listed.get(fid, 0)
        if extra > 0:
            lib.note_known(ctx, fid, extra)
            ctx.cov["deviations_observed"][fid] = ctx.cov["deviations_observed"].get(fid, 0) + extra


def judge_trace(ctx, trace, source, kd, max_events=15000):
    v = lib.judge(ctx, MODULE_T, t_cfg(ctx, kd), trace, max_events=max_events, parallel=min(lib.NCPU, 8))
    ctx.stage("judge", source=source, events=v["events"], violations=v.get("nviol", len(v["violations"])),
              deviations={f: v.get("n" + f, 0) for f in ALL_FIDS if v.get("n" + f, 0)}, wall_s=v["wall_s"])
    lib.classify_trace(ctx, v, trace, source, program_of=program_of)
    add_counts(ctx, v)
    tally_trace(ctx, trace)
    return v


def replay(ctx, kd):
    obj = json.load(open(ctx.replay))
    p = ctx.path("replay_prog.ndjson")
    open(p, "w").write(json.dumps(obj["program"]) + "\n")
    trace = ctx.path("replay_trace.ndjson")
    lib.run_driver(DRV, ["--programs", p, "--out", trace])
    v = lib.judge(ctx, MODULE_T, t_cfg(ctx, kd), trace)
    for line in lib.read_lines(trace):
        print(line if len(line) < 3000 else line[:3000] + " ...")
    print(json.dumps(v))
    return 1 if v["violations"] else 0


# --------------------------------------------------------------------------- chunk size 0
ZERO_CS = [
    {"inline": True, "ops": [{"op": "compress", "len": 3, "fb": "x", "mode": "N", "n": 0}]},
    {"inline": True, "ops": [{"op": "with_chunk_size", "n": 0, "checked": False}, {"op": "add_data", "len": 3, "fb": "x"}, {"op": "build", "table": "std"}]},
    {"inline": True, "ops": [{"op": "with_chunk_size", "n": 0, "checked": False}, {"op": "add_mixed_data", "len": 3, "fb": "x", "cipher": "S"}, {"op": "build", "table": "std"}]},
    # controls: an empty payload is one chunk whatever the chunk size; calls that do not chunk are unaffected
    {"inline": True, "ops": [{"op": "compress", "len": 0, "fb": "x", "mode": "Z", "n": 0}]},
    {"inline": True, "ops": [{"op": "with_chunk_size", "n": 0, "checked": False}, {"op": "add_data", "len": 0, "fb": "x"},
                             {"op": "add_encrypted_data", "len": 3, "fb": "x", "cipher": "A", "idx": 1}, {"op": "build", "table": "std"}]},
]


def zero_chunk_size(ctx, kd):
    """Chunk size 0 cannot be executed inside the shared driver process (the chunking loops would eat the machine's
    memory): every program runs alone in a driver process limited to 1.5 GB of address space and 30 s.  A process
    killed by the limit / the time-out is recorded as the outcome of the call that was in flight."""
    trace = ctx.path("trace_zero.ndjson")
    lines = []
    for i, prog in enumerate(ZERO_CS):
        p = ctx.path(f"prog_zero_{i}.ndjson")
        open(p, "w").write(json.dumps(prog) + "\n")
        t = ctx.path(f"trace_zero_{i}.ndjson")
        open(t, "w").close()
        outcome = None
        try:
            r = subprocess.run([lib.bin_path(DRV), "--programs", p, "--out", t, "--direct"], stdout=subprocess.DEVNULL, stderr=subprocess.PIPE,
                               timeout=30, preexec_fn=lambda: resource.setrlimit(resource.RLIMIT_AS, (1500 << 20, 1500 << 20)))
            if r.returncode != 0:
                if b"memory allocation" not in r.stderr and r.returncode not in (-6, -9, 134, 137):
                    raise lib.ToolError(f"driver failed on chunk-size-0 program {i}: rc={r.returncode} {r.stderr[-300:]!r}")
                outcome = "abort"
        except subprocess.TimeoutExpired:
            outcome = "hang"
        evs = lib.read_lines(t)
        if outcome:
            k = len(evs) - 1                      # calls that returned
            if k < 0 or k >= len(prog["ops"]):
                raise lib.ToolError(f"chunk-size-0 program {i}: cannot tell which call was in flight")
            e = dict(prog["ops"][k], seq=k + 1, res=outcome, dlen=prog["ops"][k].get("len", 0))
            evs.append(json.dumps(e, separators=(",", ":")))
        lines += evs
    open(trace, "w").write("\n".join(lines) + "\n")
    judge_trace(ctx, trace, "chunk size 0 (one driver process per program, 1.5 GB / 30 s)", kd)
    return len(ZERO_CS)


# --------------------------------------------------------------------------- binding self-test
def selftest(ctx, trace, kd):
    """Corrupt one logged field in each of three runs and drop one call of a fourth: the monitor must flag exactly
    those events.  Works on the runs that contain the events (a heavily violating tree must not break it)."""
    with open(trace) as f:
        lines = [x.rstrip("\n") for _, x in zip(range(6000), f)]
    cfg = t_cfg(ctx, kd, "t_selftest.cfg")

    def is_good_build(l):
        if '"op":"build"' not in l or '"bytes"' not in l:
            return False
        e = json.loads(l)
        return (e.get("parse") == "ok" and e["dec"].get("ok") and e["dec"]["len"] >= 2 and len(e["ranges"]) >= 2
                and e["dec"].get("b") == e["content"].get("b") and e["bytes"][8] == 15)
    cand = [i for i, l in enumerate(lines[:-50]) if is_good_build(l)]
    # one candidate per run, the runs must be complete in `lines`
    runs = []
    for i in cand:
        s, e = lib.run_of_line(lines, i + 1)
        if e < len(lines) and e - s >= 3 and not any(r[0] == s for r in runs):
            runs.append((s, e, i))
        if len(runs) == 4:
            break
    if len(runs) < 4:
        ctx.cov["binding_selftest"] = {"skipped": "fewer than 4 conforming multi-chunk build events in the first 6000 events"}
        return
    base, bad, marks = [], [], {}
    for k, (s, e, i) in enumerate(runs):
        run = lines[s:e]
        off = len(base)
        base += run
        run = list(run)
        j = i - s
        ev = json.loads(run[j])
        if k == 0:      # (a) one byte of the decoded output
            ev["dec"]["b"][-1] ^= 1
        elif k == 1:    # (b) one byte of a checksum in the chunk table of the container
            ev["bytes"][12 + 8 + 3] ^= 0x10
        elif k == 2:    # (c) one decompressed size in the chunk table
            ev["bytes"][12 + 7] = (ev["bytes"][12 + 7] + 7) % 128
        if k < 3:
            run[j] = json.dumps(ev, separators=(",", ":"))
            marks[k] = off + j + 1
            bad += run
        else:           # (d) drop the first builder call of the run
            marks[k] = (off + 1, off + len(run))
            bad += run[:1] + run[2:]

    def write(name, ls):
        p = ctx.path(name)
        open(p, "w").write("\n".join(ls) + "\n")
        return p
    with ThreadPoolExecutor(max_workers=2) as ex:
        v0, v1 = ex.map(lambda a: lib.tlc_trace(ctx, MODULE_T, cfg, write(a[0], a[1])), [("selftest_0.ndjson", base), ("selftest_1.ndjson", bad)])
    if v0["violations"]:
        ctx.cov["binding_selftest"] = {"skipped": "the runs chosen for the self-test do not conform themselves"}
        return
    lo, hi = marks[3]
    # line numbers of the 4th run shift by one after the drop; the first three runs are untouched in length
    res = {"baseline_clean": v0["violations"] == [],
           "corrupt_decoded_byte_flagged": marks[0] in v1["violations"],
           "corrupt_table_checksum_flagged": marks[1] in v1["violations"],
           "corrupt_table_dsize_flagged": marks[2] in v1["violations"],
           "drop_one_event_flagged": any(lo <= x <= hi for x in v1["violations"]),
           "nothing_else_flagged": all(x in (marks[0], marks[1], marks[2]) or lo <= x <= hi for x in v1["violations"])}
    ctx.cov["binding_selftest"] = res
    if not all(res.values()):
        raise lib.ToolError(f"binding self-test failed: {res}")


# --------------------------------------------------------------------------- main
def run(ctx):
    kd = known_findings(ctx)
    lib.build([DRV])
    if ctx.replay:
        return replay(ctx, kd)
    if ctx.quick:
        plan = [("seq", 3), ("pay", 5), ("cnt", 5)]
        nrand = 400
    else:
        plan = [("seq", 4), ("pay", 5), ("cnt", 5)]
        nrand = 5000
    # 1. the design: ideal model satisfies the properties; every listed deviation has its counterexample
    for family, depth in plan:
        mc_ideal(ctx, family, min(depth, 3) if family == "seq" and ctx.quick else depth)
    with ThreadPoolExecutor(max_workers=3) as ex:
        wits = list(ex.map(lambda f: mc_witness(ctx, f, kd), [f for f in kd if f in MODEL_FIDS]))
        reps = list(ex.map(lambda w: replay_witnesses(ctx, [w], kd), wits))
    ctx.cov["witnesses"] = {k: v for r in reps for k, v in r.items()}
    for fid, w, r in wits:
        ctx.stage("mc-witness", finding=fid, calls=len(w["ops"]), reproduced_on_code=ctx.cov["witnesses"][fid]["reproduced_on_code"], wall_s=r["wall_s"])
    # 2. programs of the model executed on the real code and judged
    total = distinct = 0
    selftested = False
    for family, depth in plan:
        progs, n = mc_generate(ctx, family, depth, kd)
        trace = ctx.path(f"trace_{family}.ndjson")
        if family == "cnt":     # few, heavy programs: shard by hand (run_sharded wants 200 programs per shard)
            d = run_cnt(ctx, progs, trace)
        else:
            d = lib.run_sharded(ctx, DRV, progs, trace, shards=8)
        ctx.stage("run", family=family, programs=d.get("programs"), events=d.get("events"), wall_s=d["wall_s"])
        if d.get("programs") != n:
            raise lib.ToolError(f"driver executed {d.get('programs')} of {n} programs")
        _, dn = count_programs(progs)
        total += n
        distinct += dn
        if family == "cnt":     # containers of 255 .. 65 537 chunks: the events are far too large for a sample
            with open(progs) as f:
                ctx.cov["samples"].append({"source": "MC_Blte family=cnt", "programs": [json.loads(x) for _, x in zip(range(3), f)]})
            ctx.cov["chunk_counts_executed"] = COUNTS
        else:
            with open(trace) as f:
                ls = [x.rstrip("\n") for _, x in zip(range(12000), f)]
            s, e = lib.run_of_line(ls, min(len(ls) - 50, 3000 if family == "seq" else 9000))
            ctx.cov["samples"].append({"source": f"MC_Blte family={family}", "trace": [json.loads(x) for x in ls[s:e]]})
            del ls
        judge_trace(ctx, trace, f"MC_Blte family={family} depth={depth}", kd, max_events=60 if family == "cnt" else 15000)
        if not selftested:
            selftest(ctx, trace, kd)
            selftested = True
        os.remove(trace)
        os.remove(progs)
    # 3. seeded random programs: real chunk sizes, payloads up to 300 KiB, random keys / IVs / block indices
    trace = ctx.path("trace_random.ndjson")
    dump = ctx.path("prog_random.ndjson")
    d = lib.run_driver(DRV, ["--random", nrand, "--out", trace, "--dump-programs", dump], env={"VERIF_SEED": ctx.seed})
    ctx.stage("run", source="random", programs=d.get("programs"), events=d.get("events"), wall_s=d["wall_s"])
    if d.get("programs") != nrand:
        raise lib.ToolError(f"driver executed {d.get('programs')} of {nrand} random programs")
    _, dn = count_programs(dump)
    total += nrand
    distinct += dn
    ls = lib.read_lines(dump)
    ctx.cov["samples"].append({"source": f"random seed={ctx.seed}", "program": json.loads(ls[0])})
    judge_trace(ctx, trace, f"random seed={ctx.seed}", kd, max_events=1500)
    # 4. chunk size 0
    n0 = zero_chunk_size(ctx, kd)
    total += n0
    distinct += n0
    if "skipped" in ctx.cov.get("binding_selftest", {"skipped": 1}) and not ctx.violations:
        raise lib.ToolError("binding self-test could not run although nothing violates")
    never = [o for o in OP_KINDS if not ctx.cov["calls_executed"].get(o, {}).get("ok")]
    ctx.cov["actions_never_taken"] = never
    if never:
        raise lib.ToolError(f"operations of the specification never executed successfully: {never}")
    ctx.cov["traces_validated_against_impl"] = total
    ctx.cov["evaluations"] = total
    ctx.cov["distinct_nontrivial"] = distinct
    ctx.cov["exhaustive"] = True
    ctx.cov["exhaustive_scope"] = ("family seq: every order of the 25 builder calls of MC_Blte!SeqOps up to the depth (redundant configuration "
                                   "calls pruned); family pay: every canonical configuration prefix x one add call over 6 length classes x 6 "
                                   "first-byte classes (+ optional second add, both table formats); family cnt: chunk size 1, every configuration (stored / "
                                   "zlib) x (plain / Salsa20 / ARC4) x (one add_data call / c-1 bytes + 1 byte) x both table formats for chunk counts "
                                   "255, 256, 257, 511, 512 and (stored / zlib) x (plain / Salsa20), 24-byte table, for 65535, 65536, 65537; the random "
                                   "tier is not exhaustive")
    ctx.assumptions += [
        "TLC and the CommunityModules JSON reader are trusted",
        "MD5 digests are computed by the driver with the `md5` crate (cascette-rs uses RustCrypto md-5) over the chunk ranges that "
        "Blte!ParseTable re-derives from the raw bytes; there is no MD5 in TLA+",
        "zlib / LZ4 / Salsa20 / ARC4 themselves are exercised (the identity is on real bytes) but not modelled; the decoder is the "
        "library's own (plus a TLA+ decoder for containers of stored chunks)",
        "payloads above ~700 container bytes are compared as (length, MD5) pairs computed by the driver",
        "containers with more than 1024 chunks are recorded in summary form: the monitor reads magic / header size / format / 24-bit count "
        "from the first 12 raw bytes and compares counts, the sum of the compressed sizes and one digest pair per table column (as written "
        "/ as measured by the driver); the 40-byte format and listed deviations are not judged at that size",
        "chunk size 0 is only executed in 5 hand-written programs, each in its own memory-limited driver process; payloads >= 4 GiB "
        "and block indices >= 2^31 are not executed",
    ]
    return lib.finish(ctx, "model_checking",
                      rule="programs = complete builder call sequences enumerated by TLC from Blte.tla (history variable; complete = built or a "
                           "call failed) plus seeded random programs; distinct = distinct program texts (md5); non-trivial = the program "
                           "contains at least one add call")
