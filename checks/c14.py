"""C14 - retries are bounded, ordered and respect backoff limits.

spec/Retry.tla (judge + machine + property) -> MC_Retry enumerates programs = (policy | environment |
HTTP status script) x outcome scripts (binding G) and checks judge => property on the machine;
drv_retry executes every program on the real RetryPolicy::execute under tokio's paused clock
(from_env: one child process per environment; cdn: the real CdnClient against a loopback mock on the
real clock); T_Retry judges every event (binding T).
"""
import glob, json, os, shutil, subprocess, time
from . import lib

MODULE_MC = "MC_Retry"
MODULE_T = "T_Retry"
SAT = 100000000
INVARIANTS = ["Bounded", "StopsAtFirst", "GapBound", "Exponential", "ResultIs", "WaitsOnlyIfAsked", "NoPanic",
              "NeverStuck", "CandidatesJudged", "Emit"]
FATAL_FIRST = {"Ok", "Parse", "InvalidKey", "InvalidEndpoint", "RangeNotSupported", "Utf8", "UnsupportedOnWasm"}


def sset(xs):
    return "{" + ", ".join('"%s"' % x for x in xs) + "}"


def iset(xs):
    return "{" + ", ".join(str(x) for x in xs) + "}"


def known_findings(ctx):
    """Findings of this property listed as known: findings.d is the source KNOWN_FINDINGS.json is generated from."""
    out = []
    for p in sorted(glob.glob(os.path.join(lib.ROOT, "findings.d", "F14*.json"))):
        f = json.load(open(p))
        if f.get("property") == "C14" and f.get("status", "known") == "known":
            out.append(f)
            if not any(x.get("id") == f["id"] for x in ctx.known.setdefault("findings", [])):
                ctx.known["findings"].append(f)
    return sorted(f["id"] for f in out)


def constants(family, kd=(), **kw):
    c = {"KnownDeviations": lib.tla_set(kd), "Family": f'"{family}"',
         "Maxes": iset(kw.get("maxes", [0])), "Inits": iset(kw.get("inits", [0])), "Maxbs": iset(kw.get("maxbs", [0])),
         "Mults": sset(kw.get("mults", ["2"])), "HintsMs": iset(kw.get("hints", [])),
         "HintHuge": "TRUE" if kw.get("hint_huge") else "FALSE",
         "EnvMax": sset(kw.get("env_max", ["unset"])), "EnvInit": sset(kw.get("env_init", ["unset"])),
         "EnvMaxb": sset(kw.get("env_maxb", ["unset"])), "EnvMult": sset(kw.get("env_mult", ["unset"])),
         "EnvJit": sset(kw.get("env_jit", ["unset"])), "CdnGrid": f'"{kw.get("cdn_grid", "quick")}"'}
    return c


def plan(quick):
    if quick:
        return [
            ("exec", dict(maxes=[0, 1, 2, 3], inits=[0, 10, 1000], maxbs=[0, 100, 1000],
                          mults=["0", "0.5", "2", "10", "nan", "-1"], hints=[0, 30, 2000])),
            ("kinds", {}),
            ("hostile", dict(maxes=[2], inits=[0, 100, SAT], maxbs=[100, SAT],
                             mults=["2", "0.5", "inf", "nan", "1e308", "-1", "-inf"], hints=[30], hint_huge=True)),
            ("env", dict(env_max=["unset", "0", "2", "abc"], env_init=["unset", "0", "50", "abc"],
                         env_maxb=["unset", "0", "1", "18446744073709551615"],
                         env_mult=["unset", "0.5", "2", "nan", "-1", "inf", "abc"], env_jit=["unset", "false", "1"])),
            ("cdn", dict(cdn_grid="quick")),
        ]
    return [
        ("exec", dict(maxes=[0, 1, 2, 3, 4], inits=[0, 10, 100, 1000], maxbs=[0, 10, 100, 1000],
                      mults=["0", "0.5", "1", "1.5", "2", "3", "10", "nan", "-1", "inf", "1e308"], hints=[0, 30, 2000])),
        # max_attempts = 5 has as many scripts as 0..4 together: fewer multipliers there (budget)
        ("exec", dict(tag="exec5", maxes=[5], inits=[0, 10, 100, 1000], maxbs=[0, 10, 100, 1000],
                      mults=["0.5", "1", "2", "10", "-1"], hints=[0, 30, 2000])),
        ("kinds", {}),
        ("hostile", dict(maxes=[1, 3], inits=[0, 100, SAT], maxbs=[0, 100, SAT],
                         mults=["2", "10", "0.5", "inf", "nan", "1e308", "-1", "-0.5", "-inf", "-1e308"], hints=[30], hint_huge=True)),
        ("env", dict(env_max=["unset", "0", "2", "5", "abc", "-1", "18446744073709551615"],
                     env_init=["unset", "0", "50", "1000", "abc"],
                     env_maxb=["unset", "0", "1", "2", "abc", "18446744073709551615"],
                     env_mult=["unset", "0", "0.5", "1", "2", "10", "nan", "-1", "inf", "-inf", "1e308", "abc"],
                     env_jit=["unset", "true", "false", "1"])),
        ("cdn", dict(cdn_grid="full")),
    ]


# --------------------------------------------------------------------------- replay support
def unsat(x):
    return -2 if isinstance(x, int) and x >= SAT else x


def program_of(evs):
    """Rebuild a program that reproduces a recorded run: the outcomes met so far are the script."""
    if not evs or evs[0].get("op") != "new":
        return None
    new = evs[0]
    outs = [e["o"] for e in evs[1:] if e.get("op") == "call"]
    if new["fam"] == "cdn":
        return {"fam": "cdn", "resp": [{"code": o["code"], "ra": o["ra"]} for o in outs]}
    if new["fam"] == "env":
        return {"fam": "env", "env": new["env"], "outs": outs}
    pol = dict(new["pol"])
    pol["init"], pol["maxb"] = unsat(pol["init"]), unsat(pol["maxb"])
    return {"fam": "exec", "pol": pol, "outs": outs}


def run_programs(ctx, family, progs, trace, shards=12):
    if family == "cdn":
        n = sum(1 for _ in open(progs))
        d = lib.run_driver("drv_retry", ["--cdn", progs, "--out", trace, "--par", 48 if n > 200 else 32, "--patience", 40], timeout=1500)
    else:
        d = lib.run_sharded(ctx, "drv_retry", progs, trace, shards=shards, timeout=1500)
    return d


def judge_trace(ctx, trace, source, kd, classify=True):
    cfg = ctx.path("t_retry.cfg")
    lib.write_cfg(cfg, {"KnownDeviations": lib.tla_set(kd)}, "TInit", "TNext", invariants=["Done"])
    v = lib.judge(ctx, MODULE_T, cfg, trace, max_events=25000)
    v["violations"] = sorted(set(v["violations"]))
    ctx.stage("judge", source=source, events=v["events"], violations=len(v["violations"]), deviations=len(v["deviations"]), wall_s=v["wall_s"])
    if v["violations"] and source.endswith(("family=cdn", "replay")):
        # real clock: "download() was not back after the driver's patience" cannot be told from a starved
        # machine; an unexpected one is inconclusive (exit 2), never a VIOLATION (DESIGN 3.6)
        lines = lib.read_lines(trace)
        for ln in v["violations"]:
            e = json.loads(lines[ln - 1])
            if e.get("op") == "ret" and e["res"].get("kind") == "waiting":
                s0, _ = lib.run_of_line(lines, ln)
                if json.loads(lines[s0]).get("clock") == "real":
                    raise lib.ToolError(f"inconclusive: CdnClient::download did not return within the driver's wall-clock patience (trace line {ln}); "
                                        "a hang cannot be told from a starved machine on the real clock")
    if classify:
        lib.classify_trace(ctx, v, trace, source, program_of=program_of)
    return v


def nontrivial(line):
    """A program is non-trivial when its first outcome makes the policy decide about a retry."""
    p = json.loads(line)
    if p["fam"] == "cdn":
        return p["resp"][0]["code"] == 429 or p["resp"][0]["code"] >= 500
    o = p["outs"][0]
    return not (o["kind"] in FATAL_FIRST or (o["kind"] == "HttpStatus" and o["code"] in (400, 401, 403, 404, 410)))


def count_programs(path):
    import hashlib
    seen, nt = set(), 0
    with open(path) as f:
        for line in f:
            h = hashlib.md5(line.encode()).digest()
            if h in seen:
                continue
            seen.add(h)
            if nontrivial(line):
                nt += 1
    return len(seen), nt


def mc_and_run(ctx, family, kw, kd):
    name = kw.get("tag", family)
    cfg = ctx.path(f"mc_{name}.cfg")
    lib.write_cfg(cfg, constants(family, (), **kw), "MCInit", "MCNext", invariants=INVARIANTS)
    progs = ctx.path(f"prog_{name}.ndjson")
    # the small kinds family also measures action coverage (DESIGN 2.5c)
    r = lib.tlc(ctx, MODULE_MC, cfg, tagged_out={"PROGRAM": progs}, timeout=1500, coverage=(family == "kinds"))
    if family == "kinds":
        never = r.get("actions_never_taken", [])
        by_design = [a for a in never if a.endswith("MC_DevPanic")]   # enabled only for listed deviations; taken in the witness runs
        ctx.cov["actions_never_taken"] = [a for a in never if a not in by_design]
        ctx.cov["actions_disabled_by_design"] = by_design
        if ctx.cov["actions_never_taken"]:
            raise lib.ToolError(f"actions of the machine never taken: {ctx.cov['actions_never_taken']}")
    ctx.cov["states"] += r["distinct"]
    ctx.cov["transitions"] += r["generated"]
    n = r["counts"]["PROGRAM"]
    ctx.stage("mc", family=name, distinct_states=r["distinct"], programs=n, wall_s=r["wall_s"])
    trace = ctx.path(f"trace_{name}.ndjson")
    d = run_programs(ctx, family, progs, trace)
    ctx.stage("run", family=name, programs=d.get("programs"), events=d.get("events"), hangs=d.get("hangs"), wall_s=d["wall_s"])
    if d.get("programs") != n:
        raise lib.ToolError(f"driver executed {d.get('programs')} of {n} programs ({family})")
    return progs, trace, n


# --------------------------------------------------------------------------- self-test, witnesses, replay
def selftest(ctx, trace, kd):
    """Binding self-test: corrupt one logged gap / drop one event / corrupt one result -> the monitor must flag it."""
    lines = lib.read_lines(trace)
    # a window that starts at the first run with two retries under an exactly predictable policy
    first = next((i for i, l in enumerate(lines) if lib.is_new(l) and '"jit":false' in l and '"mult":"2"' in l and '"max":2' in l
                  and '"init":10,' in l and '"maxb":100,' in l), 0)
    lines = lines[first:first + 6000]
    cut = max(i for i, l in enumerate(lines) if lib.is_new(l))
    lines = lines[:cut]
    ia = ib = ic = None
    run_ok = False
    for i, l in enumerate(lines):
        e = json.loads(l)
        if e["op"] == "new":
            p = e["pol"]
            run_ok = (not p["jit"]) and p["mult"] == "2" and 0 < p["init"] <= p["maxb"]
        elif run_ok and e["op"] == "call" and e["i"] == 2 and ia is None:
            ia = i
        elif run_ok and e["op"] == "call" and e["i"] == 2 and ib is None and i > ia + 10 and not lib.is_new(lines[i + 1]):
            ib = i
        elif run_ok and e["op"] == "ret" and e["res"]["kind"] == "Ok" and ic is None and ib is not None and i > ib + 10:
            ic = i
    if None in (ia, ib, ic):
        raise lib.ToolError("binding self-test: no suitable events in the trace")
    base_p = ctx.path("selftest_0.ndjson"); open(base_p, "w").write("\n".join(lines) + "\n")
    e = json.loads(lines[ia]); e["gap"] += 37
    la = list(lines); la[ia] = json.dumps(e, separators=(",", ":"))
    pa = ctx.path("selftest_a.ndjson"); open(pa, "w").write("\n".join(la) + "\n")
    lb = list(lines); del lb[ib]
    pb = ctx.path("selftest_b.ndjson"); open(pb, "w").write("\n".join(lb) + "\n")
    e = json.loads(lines[ic]); e["res"]["kind"] = "Timeout"; e["res"]["id"] = 0
    lc = list(lines); lc[ic] = json.dumps(e, separators=(",", ":"))
    pc = ctx.path("selftest_c.ndjson"); open(pc, "w").write("\n".join(lc) + "\n")
    cfg = ctx.path("t_retry.cfg")
    lib.write_cfg(cfg, {"KnownDeviations": lib.tla_set(kd)}, "TInit", "TNext", invariants=["Done"])
    base = lib.tlc_trace(ctx, MODULE_T, cfg, base_p)
    if base["violations"]:
        # the code under test is already rejected inside this window (reported as VIOLATION by the caller):
        # the corruptions below would be judged relative to a broken baseline, so the self-test says nothing
        ctx.cov["binding_selftest"] = {"skipped": "the unmodified window already contains violations"}
        return
    va, vb, vc = (lib.tlc_trace(ctx, MODULE_T, cfg, p) for p in (pa, pb, pc))
    res = {"corrupt_one_gap_flagged": (ia + 1) in va["violations"] and (ia + 1) not in base["violations"] and len(va["violations"]) == len(base["violations"]) + 1,
           "drop_one_event_flagged": (ib + 1) in vb["violations"] and len(vb["violations"]) > len(base["violations"]),
           "corrupt_one_result_flagged": (ic + 1) in vc["violations"] and (ic + 1) not in base["violations"]}
    ctx.cov["binding_selftest"] = res
    if not all(res.values()):
        raise lib.ToolError(f"binding self-test failed: {res}")


def witnesses(ctx, kd):
    """With a finding's deviation enabled, TLC must find the property violated on the machine: this regenerates the
    finding's witness at model level whatever the finding's status (known or fixed). Informational."""
    want = {"F14a": "GapBound", "F14b": "NoPanic", "F14c": "NoPanic"}
    out = {}
    for fid in sorted(want):
        cfg = ctx.path(f"mc_wit_{fid}.cfg")
        kw = dict(maxes=[2], inits=[0, 1000], maxbs=[100, SAT], mults=["2", "-1", "inf"], hints=[30], hint_huge=True)
        lib.write_cfg(cfg, constants("hostile", [fid], **kw), "MCInit", "MCNext", invariants=[i for i in INVARIANTS if i != "Emit"])
        r = lib.tlc(ctx, MODULE_MC, cfg, timeout=600, expect_violation=True)
        out[fid] = {"expected": want[fid], "violated": r["invariant_violated"]}
    ctx.cov["model_witnesses"] = out
    ctx.stage("witness", **{k: ",".join(v["violated"]) or "none" for k, v in out.items()})


def apalache(ctx):
    """Stretch, informational: attempt <= max_attempts + 1 as an inductive invariant for unbounded max_attempts."""
    exe = shutil.which("apalache-mc")
    src = os.path.join(lib.SPEC, "mc", "APA_Retry.tla")
    if not exe or not os.path.exists(src):
        ctx.cov["apalache"] = {"ran": False}
        return
    d = ctx.path("apalache"); os.makedirs(d, exist_ok=True)
    shutil.copy(src, d)
    res = {"ran": True}
    t = time.time()
    for name, args in (("initiation", ["--init=Init", "--inv=IndInv", "--length=0"]),
                       ("consecution", ["--init=IndInv", "--inv=IndInv", "--length=1"]),
                       ("implies_bound", ["--init=IndInv", "--inv=AttemptsBounded", "--length=0"])):
        try:
            r = subprocess.run(["timeout", "240", exe, "check", "--out-dir=" + os.path.join(d, "out"), "--cinit=CInit", "--next=Next"] + args + ["APA_Retry.tla"],
                               cwd=d, stdout=subprocess.PIPE, stderr=subprocess.STDOUT, text=True, timeout=300)
            res[name] = "ok" if "The outcome is: NoError" in r.stdout else ("error" if "The outcome is: Error" in r.stdout else f"inconclusive(rc={r.returncode})")
        except Exception as ex:  # informational only
            res[name] = f"not run: {ex}"
    res["wall_s"] = round(time.time() - t, 1)
    ctx.cov["apalache"] = res
    ctx.stage("apalache", **res)


def replay(ctx, kd):
    obj = json.load(open(ctx.replay))
    prog = obj["program"]
    p = ctx.path("replay_prog.ndjson")
    open(p, "w").write(json.dumps(prog) + "\n")
    trace = ctx.path("replay_trace.ndjson")
    if prog["fam"] == "cdn":
        lib.run_driver("drv_retry", ["--cdn", p, "--out", trace])
    else:
        lib.run_driver("drv_retry", ["--programs", p, "--out", trace])
    v = judge_trace(ctx, trace, "replay", kd, classify=False)
    print(open(trace).read())
    print(json.dumps(v))
    return 1 if v["violations"] else 0


def run(ctx):
    kd = known_findings(ctx)
    lib.build(["drv_retry"])
    if ctx.replay:
        return replay(ctx, kd)
    total = distinct = nontriv = 0
    for family, kw in plan(ctx.quick):
        progs, trace, n = mc_and_run(ctx, family, kw, kd)
        total += n
        dn, nt = count_programs(progs)
        distinct += dn
        nontriv += nt
        ls = None
        if len(ctx.cov["samples"]) < 5:
            ls = lib.read_lines(trace)[:40000]
            s, e = lib.run_of_line(ls, min(len(ls) - 20, 30000))
            ctx.cov["samples"].append({"source": f"MC_Retry family={family}", "trace": [json.loads(x) for x in ls[s:e]]})
        judge_trace(ctx, trace, f"MC_Retry family={family}", kd)
        if family == "exec" and "binding_selftest" not in ctx.cov:
            selftest(ctx, trace, kd)
        os.remove(trace)
        os.remove(progs)
    # seeded random programs: longer scripts, every error variant, attempts with a duration, finer grids
    nrand = 3000 if ctx.quick else 40000
    trace = ctx.path("trace_random.ndjson")
    dump = ctx.path("prog_random.ndjson")
    d = lib.run_driver("drv_retry", ["--random", nrand, "--out", trace, "--dump-programs", dump], env={"VERIF_SEED": ctx.seed})
    ctx.stage("run", source="random", programs=d.get("programs"), events=d.get("events"), wall_s=d["wall_s"])
    if d.get("programs") != nrand:
        raise lib.ToolError(f"driver executed {d.get('programs')} of {nrand} random programs")
    dn, nt = count_programs(dump)
    judge_trace(ctx, trace, f"random seed={ctx.seed}", kd)
    total += nrand
    distinct += dn
    nontriv += nt
    if not ctx.quick:
        witnesses(ctx, kd)
        apalache(ctx)
    ctx.cov["traces_validated_against_impl"] = total
    ctx.cov["evaluations"] = total
    ctx.cov["distinct_nontrivial"] = nontriv
    ctx.cov["distinct_programs"] = distinct
    ctx.cov["exhaustive"] = True
    ctx.cov["exhaustive_scope"] = ("every (policy, outcome script) of the listed grids: scripts = k retryable outcomes over {Timeout, RateLimited(hint)} "
                                   "followed by Ok or a fatal error, k = 0..max_attempts+1; every pair of error variants (kinds); every environment of "
                                   "the env grid; every status script of the cdn grid. The random tier is not exhaustive")
    ctx.assumptions += ["TLC, the CommunityModules Json reader, tokio's paused clock (test-util) and the driver's projection are trusted",
                        "delays are observed on tokio's virtual clock with a 2 ms allowance per wait; the cdn family uses the real clock and is judged on lower bounds of waits only (no wall-clock upper bound decides anything; a download that is not back after 40 s is inconclusive, exit 2)",
                        "CdnClient::download_with_retry is judged against RetryPolicy::default() as read back from the crate",
                        "jitter is drawn from the thread RNG: the verdict does not depend on it because every admissible jitter value is accepted"]
    return lib.finish(ctx, "model_checking",
                      rule="programs = initial states of MC_Retry (policy/environment/status script x outcome script) enumerated by TLC, plus seeded random programs; "
                           "distinct = distinct program texts (md5); non-trivial = the first outcome is not a success or a definitive error, so at least one retry decision and one delay are judged")
