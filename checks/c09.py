"""C09 - cipher and hash primitives compute the functions the formats specify.

Binding E: drv_crypto calls the real Salsa20 / ARC4 / lookup3 / MD5-key / SIMD helper code on the inputs a
program describes and records {fn, args, result}; T_Crypto evaluates the executable TLA+ definitions
(spec/Lookup3, Salsa20, Rc4, lib/Md5, Simd over lib/W32) on the recorded arguments with TLC and compares.
Bindings G + T for the keystream-composition machine (spec/Cipher.tla): MC_Cipher checks Composition and
RoundTrip on the model with a toy keystream and enumerates every cutting of a message into chunks; each
cutting is executed on the real streaming ciphers and every chunk is judged against the real keystream at
the position reached.
"""
import glob, heapq, json, os, time
from concurrent.futures import ThreadPoolExecutor
from . import lib

PROP = "C09"
MODULE_T = "T_Crypto"
MODULE_MC = "MC_Cipher"
DRV = "drv_crypto"
BLKS = [[0, 0], [0, 1], [0, 255], [0, 256], [32768, 0], [65535, 65535]]     # 0,1,255,256,2^31,2^32-1 as [hi16,lo16]
VEC = (0, 1, 15, 16, 17, 30, 31)                                           # offsets around the 16/32-byte vector widths


def own_findings(ctx):
    """findings.d/F09*.json is the source KNOWN_FINDINGS.json is generated from; read it directly."""
    mine = [json.load(open(p)) for p in sorted(glob.glob(os.path.join(lib.ROOT, "findings.d", "F09*.json")))]
    ctx.known["findings"] = [f for f in ctx.known.get("findings", []) if f.get("property") != PROP] + \
                            [f for f in mine if f.get("status", "known") == "known"]
    return lib.known_ids(ctx, PROP)


# --------------------------------------------------------------------------- programs
def boundary_points(n, extra=()):
    """positions 0..n-1 around multiples of 32 and 16, plus the last ones"""
    s = {p for p in range(n) if p % 32 in VEC}
    s.update(p for p in (n - 1, n - 2, n // 2) if 0 <= p < n)
    s.update(p for p in extra if 0 <= p < n)
    return sorted(s)


def sweep_programs(ctx):
    q = ctx.quick
    P = []
    add = P.append
    # lookup3: every length 0..=1024 (every tail length mod 12); all entry points / seeds on the `full` range
    full = 300 if q else 1024
    for n in range(0, 1025):
        add({"fam": "lookup3", "len": n, "fill": "rand", "level": 2 if n <= full else 1})
        if n <= (100 if q else 1024):
            add({"fam": "lookup3", "len": n, "fill": "zero" if n % 2 else "ff", "level": 1})
        if not q:
            add({"fam": "lookup3", "len": n, "fill": "rand", "level": 2})
    # MD5 keys
    for n in range(0, (200 if q else 1024) + 1):
        add({"fam": "md5", "len": n, "fill": "rand"})
        if n <= 130:
            add({"fam": "md5", "len": n, "fill": "ff" if n % 2 else "zero"})
    # Salsa20 one-shot: every length, both IV sizes, the listed block indices (+ a random one)
    top = 300 if q else 1024
    lens = list(range(0, top + 1)) + ([511, 512, 513, 1023, 1024] if q else [])
    for n in lens:
        for ivlen in (4, 8):
            i = n + ivlen // 4
            add({"fam": "salsa20", "len": n, "fill": "rand" if n % 5 else "zero", "ivlen": ivlen,
                 "blk": BLKS[i % 7] if i % 7 < 6 else "rand"})
    # ARC4 one-shot: key lengths 1..=256
    for n in lens:
        add({"fam": "arc4", "len": n, "fill": "rand", "keylen": (1, 5, 16, 255, 256)[n] if n < 5 else 1 + (n * 37) % 256})
    # streaming API, every split point
    for n in range(0, (130 if q else 256) + 1):
        add({"fam": "split", "kind": "salsa20", "len": n, "ivlen": 4 if n % 2 else 8, "blk": BLKS[n % 6], "points": list(range(0, n + 1))})
    for n in range(0, (70 if q else 130) + 1):
        add({"fam": "split", "kind": "arc4", "len": n, "ivlen": 0, "keylen": 1 + (n * 11) % 256, "points": list(range(0, n + 1))})
    big = [191, 192, 193, 255, 256, 257, 511, 512, 513, 1023, 1024] if q else list(range(257, 1025))
    for n in big:
        pts = sorted({p for p in (1, 63, 64, 65, n - 65, n - 64, n - 1, (n * 7) % (n + 1), (n * 13) % (n + 1)) if 0 <= p <= n})
        add({"fam": "split", "kind": "salsa20", "len": n, "ivlen": 4 if n % 2 else 8, "blk": "rand", "points": pts})
        if q or n % 4 == 0:
            add({"fam": "split", "kind": "arc4", "len": n, "ivlen": 0, "keylen": 16, "points": pts[:4]})
    # counter carry into the second counter word (and wrap of the whole 64-bit counter): the block counter is
    # preset through the test-only constructor Salsa20Cipher::new_with_counter (verif-hooks); the driver skips
    # these programs when the hook is not compiled in.  ctr = [low word, high word], each [hi16, lo16]
    ctrs = ([[65535, 65534], [0, 0]], [[65535, 65535], [0, 0]], [[65535, 65535], [0, 7]], [[65535, 65534], [65535, 65535]],
            [[65535, 65535], [65535, 65535]], [[4660, 22136], [39612, 57072]])
    for i, ctr in enumerate(ctrs):
        for ivlen in (4, 8):
            n = 300 if i % 2 == 0 else 200
            add({"fam": "split", "kind": "salsa20", "len": n, "ivlen": ivlen, "blk": BLKS[(i + ivlen // 4) % 6], "ctr": ctr,
                 "points": [0, 1, 63, 64, 65, 127, 128, 129, 191, 192, 193, n] if q else list(range(0, n + 1, 1 if i < 2 else 7))})
    # SIMD helpers: every buffer length 0..=200 under every CPU-feature subset of the host
    for n in range(0, 201):
        allp = n <= (64 if q else 200)
        add({"fam": "memcmp", "len": n, "points": list(range(n)) if allp else boundary_points(n)})
        add({"fam": "memeq", "len": n, "points": list(range(n)) if n <= 40 else boundary_points(n)})
        add({"fam": "memset", "len": n})
        add({"fam": "memcpy", "len": n})
    hs = list(range(0, 101)) + [127, 128, 129, 159, 160, 161, 199, 200] if q else list(range(0, 201))
    for h in hs:
        if q or h > 100:
            ns = sorted({x for x in (0, 1, 2, 3, 4, 5, 8, 15, 16, 17, 31, 32, 33, h - 1, h, h + 1) if 0 <= x <= h + 1})
        else:
            ns = list(range(0, h + 2))
        for nl in ns:
            last = h - nl
            if last < 0:
                pts = []
            elif h <= 100:
                pts = list(range(0, last + 1))
            else:
                pts = boundary_points(last + 1, extra=(last,))
            add({"fam": "memmem", "hlen": h, "nlen": nl, "points": pts})
    sizes = (1, 7, 8, 9, 17, 3, 16, 0)
    for kind in ("content_keys", "j96_data", "j96_paths"):
        n, i = 0, 0
        while n <= 200:
            k = sizes[i % len(sizes)]
            add({"fam": "batch", "kind": kind, "lens": list(range(n, min(n + k, 201)))})
            n += k
            i += 1
    add({"fam": "users", "n": 40 if q else 400, "idx": 12 if q else 40})
    return P


def finalize(ctx, progs, base=0):
    """seed every program (below 2^31: TLC parses the program inside the `new' event) and resolve "rand" block indices"""
    out = []
    for i, p in enumerate(progs):
        p = dict(p)
        s = (ctx.seed * 7919 + (base + i) * 104729 + 12345) % (1 << 31)
        p.setdefault("seed", s)
        if p.get("blk") == "rand":
            p["blk"] = [(s * 31 + 7) % 65536, (s * 17 + 3) % 65536]
        out.append(p)
    return out


def cut_programs(ctx, cuts_path):
    """cuttings enumerated by TLC (units) -> byte-level programs for both ciphers at several unit sizes"""
    units = (1, 21, 64) if ctx.quick else (1, 7, 21, 32, 64, 100)
    P = []
    lines = lib.read_lines(cuts_path)
    # groups of 24 cuttings share the cipher parameters (kseed): the monitor computes a keystream once per group
    for j, uo in enumerate(units):
        for kind in ("salsa20", "arc4"):
            for i, line in enumerate(lines):
                cuts = json.loads(line)["cuts"]
                g = i // 24
                b = [c * uo for c in cuts]
                P.append({"fam": "split", "kind": kind, "len": sum(b), "ivlen": 4 if (g + j) % 2 else 8, "keylen": 1 + (g * 7 + j) % 256,
                          "blk": BLKS[(g + j) % 6], "cuts": b, "unit": uo, "grp": f"{kind}{uo}.{g}",
                          "kseed": (ctx.seed * 31 + g * 1009 + j * 101 + (7 if kind == "arc4" else 0)) % (1 << 31)})
    return P


# --------------------------------------------------------------------------- judge
WEIGHT = {"salsa20": 10, "arc4": 14, "split": 6, "lookup3": 3, "md5": 6, "batch": 6}


def judge_balanced(ctx, cfg, trace_path, nchunks=None, timeout=1700):
    """Judge a trace in parallel chunks.  Runs (a `new' event and what follows) are independent, so they are
    distributed over the chunks by estimated cost (longest first) instead of contiguously; line numbers
    are mapped back to the whole trace."""
    lines = lib.read_lines(trace_path)
    runs = []          # scheduling units [start, end, cost]: a run, or consecutive runs of one "grp" (shared keystream)
    grp = None
    for i, ln in enumerate(lines):
        if lib.is_new(ln) or not runs:
            g = ln.split('"grp":"', 1)[1].split('"', 1)[0] if '"grp":"' in ln else None
            if g is None or g != grp:
                runs.append([i, i + 1, 0])
            grp = g
        runs[-1][1] = i + 1
    for r in runs:
        head = lines[r[0]]
        fam = head.split('"fam":"', 1)[1].split('"', 1)[0] if '"fam":"' in head else ""
        r[2] = sum(len(x) for x in lines[r[0]:r[1]]) * WEIGHT.get(fam, 1)
    par = min(lib.NCPU, 16)
    nchunks = max(1, min(nchunks or 2 * par, len(runs)))
    heap = [(0, c) for c in range(nchunks)]
    assign = [[] for _ in range(nchunks)]
    for r in sorted(runs, key=lambda r: -r[2]):
        cost, c = heapq.heappop(heap)
        assign[c].append(r)
        heapq.heappush(heap, (cost + r[2], c))
    chunks = []
    for c, rs in enumerate(assign):
        rs.sort()
        p = f"{trace_path}.c{c}.ndjson"
        mp = []
        with open(p, "w") as f:
            for s, e, _ in rs:
                for i in range(s, e):
                    f.write(lines[i] + "\n")
                    mp.append(i + 1)
        chunks.append((p, mp))
    t = time.time()
    with ThreadPoolExecutor(max_workers=par) as ex:
        vs = list(ex.map(lambda ch: lib.tlc_trace(ctx, MODULE_T, cfg, ch[0], timeout=timeout), chunks))
    merged = {"events": 0, "violations": [], "deviations": [], "wall_s": round(time.time() - t, 2), "chunks": len(chunks)}
    for (p, mp), v in zip(chunks, vs):
        if v["events"] != len(mp):
            raise lib.ToolError(f"monitor consumed {v['events']} of {len(mp)} events of {p}")
        merged["events"] += v["events"]
        merged["violations"] += [mp[x - 1] for x in v["violations"]]
        merged["deviations"] += [[mp[d[0] - 1], d[1]] for d in v["deviations"]]
        os.remove(p)
    merged["violations"].sort()
    merged["deviations"].sort()
    return merged


def program_of(evs):
    return evs[0].get("prog") if evs and evs[0].get("op") == "new" else None


def write_t_cfg(ctx, kd):
    cfg = ctx.path("t_crypto.cfg")
    lib.write_cfg(cfg, {"KnownDeviations": lib.tla_set(kd)}, "TInit", "TNext", invariants=["Done"])
    return cfg


def run_and_judge(ctx, cfg, progs, name, source, totals):
    pp = ctx.path(f"prog_{name}.ndjson")
    with open(pp, "w") as f:
        for p in progs:
            f.write(json.dumps(p, separators=(",", ":")) + "\n")
    trace = ctx.path(f"trace_{name}.ndjson")
    d = lib.run_sharded(ctx, DRV, pp, trace, shards=min(lib.NCPU, 12))
    ctx.stage("run", source=source, programs=d.get("programs"), events=d.get("events"), calls=d.get("calls"), hangs=d.get("hangs"), wall_s=d["wall_s"])
    if d.get("programs") != len(progs):
        raise lib.ToolError(f"driver executed {d.get('programs')} of {len(progs)} programs")
    v = judge_balanced(ctx, cfg, trace)
    ctx.stage("judge", source=source, events=v["events"], violations=len(v["violations"]), deviations=len(v["deviations"]), chunks=v["chunks"], wall_s=v["wall_s"])
    if v["violations"]:
        ls = lib.read_lines(trace)
        by = {}
        for ln in v["violations"]:
            e = json.loads(ls[ln - 1])
            k = e.get("fn") or e.get("op")
            if k == "apply":
                k = "apply:" + json.loads(ls[lib.run_of_line(ls, ln)[0]])["prog"].get("kind", "?")
            by[k] = by.get(k, 0) + 1
        ctx.cov.setdefault("violations_by_kind", {}).update({f"{name}:{k}": n for k, n in by.items()})
        lib.log(f"[{ctx.id}] violations by kind of event ({source}): {by}")
    lib.classify_trace(ctx, v, trace, source, program_of=program_of)
    totals["programs"] += len(progs)
    totals["events"] += v["events"]
    totals["calls"] += d.get("calls", 0)
    totals["disagreements"] += len(v["violations"]) + len(v["deviations"])
    _, dn = lib.count_distinct(pp)
    totals["distinct"] += dn
    return trace, d


# --------------------------------------------------------------------------- model checking of the composition machine
def mc_cipher(ctx):
    # (1) the properties on the model, all messages over 0..3
    n, mc = (5, 4) if ctx.quick else (6, 5)
    cfg = ctx.path("mc_cipher_check.cfg")
    consts = {"Alphabet": "{0, 1, 2, 3}", "N": n, "MaxCuts": mc, "Mode": '"check"', "Variant": '"ideal"'}
    lib.write_cfg(cfg, consts, "MCInit", "MCNext", invariants=["Composition", "RoundTrip", "Emit"])
    r = lib.tlc(ctx, MODULE_MC, cfg, timeout=1200)
    ctx.cov["states"] += r["distinct"]
    ctx.cov["transitions"] += r["generated"]
    ctx.stage("mc", model="Cipher", mode="check", constants=consts, distinct_states=r["distinct"], wall_s=r["wall_s"])
    # (2) anti-vacuity on the model: a machine whose position restarts with every chunk must be refuted
    cfg2 = ctx.path("mc_cipher_bad.cfg")
    lib.write_cfg(cfg2, dict(consts, N=3, MaxCuts=3, Variant='"reset_pos"'), "MCInit", "MCNext", invariants=["Composition", "RoundTrip"])
    r2 = lib.tlc(ctx, MODULE_MC, cfg2, timeout=600, expect_violation=True)
    ctx.cov["model_with_defect_violates_property"] = {"variant": "reset_pos", "violated": r2["invariant_violated"]}
    if "Composition" not in r2["invariant_violated"]:
        raise lib.ToolError("MC_Cipher did not refute Composition on the reset_pos variant (vacuous model check)")
    # (3) enumerate the cuttings (programs)
    n, mc = (8, 4) if ctx.quick else (10, 5)
    cfg3 = ctx.path("mc_cipher_gen.cfg")
    consts3 = {"Alphabet": "{0}", "N": n, "MaxCuts": mc, "Mode": '"gen"', "Variant": '"ideal"'}
    lib.write_cfg(cfg3, consts3, "MCInit", "MCNext", invariants=["Composition", "RoundTrip", "Emit"])
    cuts = ctx.path("cuts.ndjson")
    r3 = lib.tlc(ctx, MODULE_MC, cfg3, tagged_out={"PROGRAM": cuts}, timeout=1200)
    ctx.cov["states"] += r3["distinct"]
    ctx.cov["transitions"] += r3["generated"]
    ctx.stage("mc", model="Cipher", mode="gen", constants=consts3, distinct_states=r3["distinct"], programs=r3["counts"]["PROGRAM"], wall_s=r3["wall_s"])
    return cuts, r3["counts"]["PROGRAM"]


# --------------------------------------------------------------------------- self-test / replay
def corrupt(v):
    if isinstance(v, bool):
        return not v
    if isinstance(v, int):
        return v ^ 1 if v >= 0 else 0
    if isinstance(v, list):
        w = list(v) if v else [1]
        w[0] = corrupt(w[0]) if v else 1
        return w
    if isinstance(v, dict):
        w = dict(v)
        k = "r" if "r" in w else sorted(w)[0]
        w[k] = corrupt(w[k])
        return w
    return v


def selftest(ctx, cfg, trace):
    """Binding self-test: one corrupted result per kind of event -> exactly those events are flagged;
    one dropped event -> flagged (sequence gap)."""
    lines = lib.read_lines(trace)
    want = {}
    for i, ln in enumerate(lines):
        if lib.is_new(ln) or len(ln) > 20000:
            continue
        e = json.loads(ln)
        k = e.get("fn") or e.get("op")
        if k == "apply":
            k = "apply:" + json.loads(lines[lib.run_of_line(lines, i + 1)[0]])["prog"]["kind"]
        if k == "init" or e.get("res") == []:
            continue
        if k not in want:
            want[k] = i
    picked = sorted(want.values())
    sub = []          # (line index in the sub-trace, source line)
    keep = set()
    for i in picked:
        s, e = lib.run_of_line(lines, i + 1)
        keep.update(range(s, e))
    idx = sorted(keep)
    pos = {g: k for k, g in enumerate(idx)}
    base = [lines[g] for g in idx]
    bad = list(base)
    for g in picked:
        e = json.loads(base[pos[g]])
        e["res"] = corrupt(e["res"])
        bad[pos[g]] = json.dumps(e, separators=(",", ":"))
    expect = sorted(pos[g] + 1 for g in picked)
    # drop: an event that is neither a run boundary nor the last of its run
    ib = next(k for k in range(1, len(base) - 1) if not lib.is_new(base[k]) and not lib.is_new(base[k + 1]))
    dropped = base[:ib] + base[ib + 1:]

    def judge_lines(name, ls):
        p = ctx.path(name)
        open(p, "w").write("\n".join(ls) + "\n")
        return lib.tlc_trace(ctx, MODULE_T, cfg, p)

    with ThreadPoolExecutor(max_workers=3) as ex:
        v0, va, vb = ex.map(lambda a: judge_lines(*a), [("selftest_0.ndjson", base), ("selftest_a.ndjson", bad), ("selftest_b.ndjson", dropped)])
    ok_0 = v0["violations"] == []
    ok_a = va["violations"] == expect
    ok_b = (ib + 1) in vb["violations"]
    res = {"baseline_clean": ok_0, "corrupt_one_field_flagged": ok_a, "drop_one_event_flagged": ok_b,
           "kinds_corrupted": sorted(want), "events_in_selftest_trace": len(base)}
    ctx.cov["binding_selftest"] = res
    if not (ok_0 and ok_a and ok_b):
        raise lib.ToolError(f"binding self-test failed: {res}; expected {expect}, got {va['violations']}; drop at {ib + 1}: {vb['violations']}")


def replay(ctx, cfg):
    obj = json.load(open(ctx.replay))
    prog = obj["program"]
    p = ctx.path("replay_prog.ndjson")
    open(p, "w").write(json.dumps(prog) + "\n")
    trace = ctx.path("replay_trace.ndjson")
    lib.run_driver(DRV, ["--programs", p, "--out", trace])
    v = lib.tlc_trace(ctx, MODULE_T, cfg, trace)
    lines = lib.read_lines(trace)
    for ln in v["violations"]:
        print(f"not explained by the specification: event {ln - 1}: {lines[ln - 1][:600]}")
    print(json.dumps({"events": v["events"], "violations": v["violations"], "deviations": v["deviations"]}))
    return 1 if v["violations"] else 0


# --------------------------------------------------------------------------- main
def run(ctx):
    kd = own_findings(ctx)
    lib.build([DRV])
    cfg = write_t_cfg(ctx, kd)
    if ctx.replay:
        return replay(ctx, cfg)
    totals = {"programs": 0, "events": 0, "calls": 0, "disagreements": 0, "distinct": 0}
    # keystream-composition machine: model check, enumerate cuttings, run them on the real ciphers
    cuts_path, ncuts = mc_cipher(ctx)
    cprogs = finalize(ctx, cut_programs(ctx, cuts_path))
    trace_c, _ = run_and_judge(ctx, cfg, cprogs, "cuts", f"MC_Cipher cuttings x units seed={ctx.seed}", totals)
    ctx.cov["traces_validated_against_impl"] = len(cprogs)
    ls = lib.read_lines(trace_c)
    s, e = lib.run_of_line(ls, max(1, len(ls) // 3))
    ctx.cov["samples"].append({"source": "MC_Cipher cutting on the real cipher", "trace": [json.loads(x) for x in ls[s:e]][:8]})
    # sweeps over lengths / alignments / feature subsets
    sprogs = finalize(ctx, sweep_programs(ctx), base=len(cprogs))
    trace_s, d = run_and_judge(ctx, cfg, sprogs, "sweep", f"sweep seed={ctx.seed}", totals)
    hook = bool(d.get("hook_counter"))
    ls = lib.read_lines(trace_s)
    seen = set()
    for i, ln in enumerate(ls):
        if lib.is_new(ln) and len(ctx.cov["samples"]) < 6:
            fam = json.loads(ln)["prog"]["fam"]
            if fam not in seen and fam in ("lookup3", "salsa20", "memmem", "batch", "users"):
                s, e = lib.run_of_line(ls, i + 1)
                if sum(len(x) for x in ls[s:e][:3]) < 6000 and e - s >= 2:
                    seen.add(fam)
                    ctx.cov["samples"].append({"source": f"sweep {fam}", "trace": [json.loads(x) for x in ls[s:e]][:3]})
    selftest(ctx, cfg, trace_s)
    ctx.cov["evaluations"] = totals["calls"]
    ctx.cov["programs"] = totals["programs"]
    ctx.cov["events_judged"] = totals["events"]
    ctx.cov["disagreements_checked"] = totals["disagreements"]
    ctx.cov["distinct_nontrivial"] = totals["distinct"]
    head = next((json.loads(x) for x in ls if '"host":' in x), {})
    ctx.cov["host_cpu_features_mask"] = head.get("host")
    ctx.cov["cpu_feature_subsets_run"] = head.get("subsets")
    ctx.cov["counter_carry_subcase"] = "run (hook compiled in)" if hook else \
        "skipped: Salsa20Cipher has no public way to preset the block counter; /verif/fixes/HOOK-crypto.patch proposes the test-only constructor"
    ctx.cov["exhaustive"] = False
    ctx.cov["exhaustive_scope"] = ("the keystream-composition model (all messages over 4 symbols up to the bound, all cuttings) and the set of cuttings "
                                   "executed on the real ciphers are exhaustive within the listed bounds; lengths / split points / needle positions are "
                                   "enumerated completely within the listed ranges, contents, keys, IVs and seeds are seeded pseudo-random samples")
    ctx.assumptions += ["TLC, the CommunityModules Json reader and Bitwise overrides, and the driver's logging of arguments/results are trusted",
                        "the executable definitions were transcribed from lookup3.c, the Salsa20 specification, the RC4 description and RFC 1321 and agree with independent reference implementations on the development cases; a common misreading of a source by both the definition and the code would not be seen",
                        "keys, IVs, seeds and contents are sampled (seeded), lengths and split points are enumerated; inputs of 2^31 bytes and more are out of reach",
                        "SIMD paths are exercised for the CPU-feature subsets of this host only"]
    return lib.finish(ctx, "translation_validation",
                      rule="programs = one (family, length, alignment/split-point set, seed) each, generated by this check (sweeps) or enumerated by TLC from "
                           "MC_Cipher (cuttings); evaluations = calls of the real functions (SIMD helpers: one per CPU-feature subset); every call's result is "
                           "judged by TLC against the executable TLA+ definition; distinct = distinct program texts (md5); a program is non-trivial because "
                           "each makes at least one call with its own length/alignment")
