"""C15 - what the Ribbit server emits, the Ribbit client reads back as the database says; malformed
requests never crash or wedge the server.

spec/Ribbit.tla (grid + functional core + connection state machine) -> MC_Ribbit checks the state machine
(safety invariants, independence, liveness under weak fairness of the server tasks only, no state
constraint) and enumerates programs = database + configuration + client steps (binding G);
drv_ribbit starts the real cascette-ribbit server per program (Server::new for loading, then tcp::start_server +
http::start_server - the two tasks Server::run spawns - on loopback ports) and
executes the steps with the project's own clients (RibbitClient v1/v2, TactClient) and raw sockets;
T_Ribbit judges every event (binding T).
"""
import datetime, glob, json, os, re, time
from . import lib

os.environ["LC_ALL"] = "C.UTF-8"     # the grid contains non-ASCII strings: TLC must read and print UTF-8

MODULE_MC = "MC_Ribbit"
MODULE_T = "T_Ribbit"
FLOOD_N = 120         # sockets of the flood group; the driver leaves the server descriptors for half of them
MANY = 40


def known_findings(ctx):
    """Findings of this property listed as known: findings.d is the source KNOWN_FINDINGS.json is generated from."""
    out = []
    for p in sorted(glob.glob(os.path.join(lib.ROOT, "findings.d", "F15*.json"))):
        f = json.load(open(p))
        if f.get("property") == "C15" and f.get("status", "known") == "known":
            out.append(f)
            if not any(x.get("id") == f["id"] for x in ctx.known.setdefault("findings", [])):
                ctx.known["findings"].append(f)
    return sorted(f["id"] for f in out)


# --------------------------------------------------------------------------- cfg files
def mc_cfg(ctx, name, family, kd=(), arch="task_per_conn", conns="{}", tier="quick", seed=1, nsample=0,
           init="GenInit", next_="GenNext", spec=None, invariants=("Emit", "Graded"), properties=()):
    path = ctx.path(name)
    lines = ["CONSTANTS",
             f"  KnownDeviations = {lib.tla_set(kd)}", f'  Arch = "{arch}"', f"  Conns = {conns}",
             "  DB <- ModelDB", "  CFG <- ModelCFG", "  Reqs <- ModelReqs",
             f'  Family = "{family}"', f'  Tier = "{tier}"', f"  Seed = {seed % 1000003}", f"  NSample = {nsample}",
             "  KMax = 3", f"  Many = {MANY}", f"  FloodN = {FLOOD_N}"]
    if spec:
        lines.append(f"SPECIFICATION {spec}")
    else:
        lines += [f"INIT {init}", f"NEXT {next_}"]
    lines += [f"INVARIANT {i}" for i in invariants]
    lines += [f"PROPERTY {p}" for p in properties]
    lines.append("CHECK_DEADLOCK FALSE")
    open(path, "w").write("\n".join(lines) + "\n")
    return path


_cfg_no = __import__("itertools").count()


def t_cfg(ctx, kd):
    path = ctx.path(f"t_ribbit_{next(_cfg_no)}.cfg")     # one file per call: families are judged concurrently
    open(path, "w").write("\n".join([
        "CONSTANTS", f"  KnownDeviations = {lib.tla_set(kd)}", '  Arch = "task_per_conn"', "  Conns = {}",
        "  DB = 0", "  CFG = 0", "  Reqs = {}", "INIT TInit", "NEXT TNext", "INVARIANT Done", "CHECK_DEADLOCK FALSE"]) + "\n")
    return path


# --------------------------------------------------------------------------- grid self-check
def grid_selfcheck(ctx, grid):
    """The attributes Ribbit.tla attaches to its concrete strings are re-derived here from the strings."""
    bad = []
    for r in grid["strs"]:
        s = r["s"]
        if r["sep"] != ("|" in s or "\n" in s):
            bad.append(("sep", s))
        if r["trimmed"] != s.rstrip():
            bad.append(("trimmed", s))
        if r["na"] != any(ord(c) > 127 for c in s):
            bad.append(("na", s))
    dec_re = re.compile(r"^[+-]?[0-9]+$")
    is_i64 = lambda s: bool(dec_re.match(s)) and -2 ** 63 <= int(s) < 2 ** 63
    for r in grid["dec"]:
        if not is_i64(r["s"]) or r["canon"] != str(int(r["s"])):
            bad.append(("dec", r["s"]))
    for s in grid["notdec"]:
        if is_i64(s):
            bad.append(("notdec", s))
    is_hex = lambda s: len(s) % 2 == 0 and re.match(r"^[0-9a-fA-F]*$", s) is not None
    for r in grid["hex"]:
        if not is_hex(r["s"]) or r["canon"] != r["s"].lower():
            bad.append(("hex", r["s"]))
    for s in grid["nothex"]:
        if is_hex(s):
            bad.append(("nothex", s))
    epoch = datetime.datetime(2024, 1, 1, tzinfo=datetime.timezone.utc)
    by_bytes = sorted(r["s"].encode() for r in grid["ts"])
    for r in grid["ts"]:
        t = datetime.datetime.fromisoformat(r["s"].replace("Z", "+00:00"))
        if r["t"] != int((t - epoch).total_seconds() // 60) or r["lex"] != by_bytes.index(r["s"].encode()) + 1:
            bad.append(("ts", r["s"]))
    res = {"strings": len(grid["strs"]), "dec": len(grid["dec"]) + len(grid["notdec"]),
           "hex": len(grid["hex"]) + len(grid["nothex"]), "timestamps": len(grid["ts"]), "mismatches": len(bad)}
    ctx.cov["grid_selfcheck"] = res
    if bad:
        raise lib.ToolError(f"grid self-check: attributes in Ribbit.tla disagree with the strings: {bad[:5]}")


# --------------------------------------------------------------------------- model level
def model_check(ctx, kd):
    """The state machine: safety + independence + liveness, no state constraint; then the teeth of those checks."""
    inv = ["TypeOK", "AnswerIsRecord", "BadGetsNoData", "Independence"]
    live = ["ValidAnswered", "BadServed", "NeverHeld"]
    cfg = mc_cfg(ctx, "mc_model.cfg", "model", kd=(), conns="{1, 2}" if ctx.quick else "{1, 2, 3}", spec="MCSpec", invariants=inv, properties=live)
    r = lib.tlc(ctx, MODULE_MC, cfg, timeout=900, coverage=not ctx.quick)
    ctx.cov["states"] += r["distinct"]
    ctx.cov["transitions"] += r["generated"]
    if not ctx.quick:
        ctx.cov["actions_never_taken"] = [a for a in r.get("actions_never_taken", []) if a.startswith("Ribbit!")]
    ctx.stage("mc", family="model", distinct_states=r["distinct"], depth=r.get("depth"), properties=",".join(inv + live), wall_s=r["wall_s"])
    # teeth: the same properties on models that must fail them
    def tooth(t):
        name, arch, kdev, conns, want = t
        i2 = [i for i in inv if i != "Independence"] if want == "liveness" else inv
        props = ["NeverHeld"] if name.startswith("F15f") else (["ValidAnswered"] if want == "liveness" else [])
        c = mc_cfg(ctx, f"mc_model_{name}.cfg", "model", kd=kdev, arch=arch, conns=conns, spec="MCSpec", invariants=i2, properties=props)
        rr = lib.tlc(ctx, MODULE_MC, c, timeout=900, expect_violation=True, workers=2)
        live_bad = rr["property_violated"] or re.search(r"Temporal propert(y|ies) .*violated", rr["text"]) is not None
        got = "Independence" if "Independence" in rr["invariant_violated"] else ("liveness" if live_bad else "none")
        return name, {"expected": want, "violated": got}

    from concurrent.futures import ThreadPoolExecutor
    with ThreadPoolExecutor(max_workers=3) as ex:
        plan = [("sequential_server", "sequential", (), "{1, 2}", "Independence"),
                ("F15f_no_http_timeout", "task_per_conn", ("F15f",), "{1, 2}", "liveness")]
        if not ctx.quick:
            plan.append(("sequential_no_http_timeout", "sequential", ("F15f",), "{1, 2}", "liveness"))
        teeth = dict(ex.map(tooth, plan))
    ctx.cov["model_teeth"] = teeth
    ctx.stage("mc-teeth", **{k: v["violated"] for k, v in teeth.items()})
    if any(v["expected"] != v["violated"] for v in teeth.values()):
        raise lib.ToolError(f"model-level anti-vacuity failed: {teeth}")


STATIC = ("unknown", "fields", "newest", "sample", "slow", "flood")


def generate(ctx, family, conc=False):
    """family "static": one TLC run enumerates the programs of every static family; returns {family: (path, n)}."""
    cfg = mc_cfg(ctx, f"mc_{family}.cfg", family, conns="{1, 2}" if conc else "{}", tier=ctx.tier, seed=ctx.seed,
                 nsample=240 if ctx.quick else 6000,
                 init="ConcInit" if conc else "GenInit", next_="ConcNext" if conc else "GenNext",
                 invariants=("Emit", "Graded") + (() if conc else ("GridDump",)))
    progs = ctx.path(f"prog_{family}.ndjson")
    r = lib.tlc(ctx, MODULE_MC, cfg, tagged_out={"PROGRAM": progs}, timeout=1500)
    ctx.cov["states"] += r["distinct"]
    ctx.cov["transitions"] += r["generated"]
    n = r["counts"]["PROGRAM"]
    if conc:
        ctx.stage("mc", family=family, distinct_states=r["distinct"], programs=n, wall_s=r["wall_s"])
        return {family: (progs, n)}
    g = r["tagged"].get("GRID")
    if not g:
        raise lib.ToolError("MC_Ribbit did not print its grid")
    grid_selfcheck(ctx, g[-1])
    outs = {f: open(ctx.path(f"prog_{f}.ndjson"), "w") for f in STATIC}
    counts = {f: 0 for f in STATIC}
    with open(progs) as f:
        for line in f:
            fam = json.loads(line)["fam"]
            outs[fam].write(line)
            counts[fam] += 1
    for o in outs.values():
        o.close()
    os.remove(progs)
    ctx.stage("mc", family=family, distinct_states=r["distinct"], programs=n, wall_s=r["wall_s"], **counts)
    if any(c == 0 for c in counts.values()):
        raise lib.ToolError(f"a program family is empty: {counts}")
    return {f: (ctx.path(f"prog_{f}.ndjson"), counts[f]) for f in STATIC}


def run_shards(ctx, progs, trace, extra, shards, timeout=1700):
    """Like lib.run_sharded, but every driver process gets its own range of loopback ports."""
    from concurrent.futures import ThreadPoolExecutor
    lines = lib.read_lines(progs)
    shards = max(1, min(shards, len(lines) // 150 + 1))
    per = (len(lines) + shards - 1) // shards
    span = (21000 // shards) & ~1
    parts = []
    for i in range(shards):
        chunk = lines[i * per:(i + 1) * per]
        if chunk:
            pp, tp = f"{progs}.s{i}", f"{trace}.s{i}"
            open(pp, "w").write("\n".join(chunk) + "\n")
            parts.append((pp, tp, 11000 + i * span))

    def one(pt):
        return lib.run_driver("drv_ribbit", ["--programs", pt[0], "--out", pt[1], "--port-base", pt[2], "--port-span", span] + list(extra),
                              timeout=timeout, check=False)

    t = time.time()
    with ThreadPoolExecutor(max_workers=len(parts)) as ex:
        infos = list(ex.map(one, parts))
    merged = {"wall_s": round(time.time() - t, 2), "shards": len(parts)}
    for inf in infos:
        if inf["returncode"] != 0:
            lib.log(inf["stderr_tail"])
            raise lib.ToolError(f"driver drv_ribbit exited {inf['returncode']}")
        for k, v in inf.items():
            if isinstance(v, int) and k != "returncode":
                merged[k] = merged.get(k, 0) + v
    with open(trace, "w") as out:
        for pp, tp, _ in parts:
            with open(tp) as f:
                for line in f:
                    out.write(line)
            os.remove(tp)
            os.remove(pp)
    return merged


def execute(ctx, family, progs, n, par=16):
    trace = ctx.path(f"trace_{family}.ndjson")
    big = (1 << 20) if ctx.quick else (8 << 20)
    if family == "flood":
        d = lib.run_driver("drv_ribbit", ["--programs", progs, "--out", trace, "--par", 1, "--flood",
                                          "--port-base", 10600, "--port-span", 200], timeout=1500)
    elif family == "slow":
        d = lib.run_driver("drv_ribbit", ["--programs", progs, "--out", trace, "--par", 64, "--big", big,
                                          "--port-base", 10000, "--port-span", 600], timeout=1500)
    else:
        d = run_shards(ctx, progs, trace, ["--par", par, "--big", big], shards=max(1, lib.NCPU // 4))
    ctx.stage("run", family=family, programs=d.get("programs"), events=d.get("events"), hangs=d.get("hangs"), wall_s=d["wall_s"])
    if d.get("programs") != n:
        raise lib.ToolError(f"driver executed {d.get('programs')} of {n} programs ({family})")
    return trace


def program_of(evs):
    if not evs or evs[0].get("op") != "new":
        return None
    steps = [{k: v for k, v in e.items() if k not in ("res", "seq", "ms")} for e in evs[1:] if e.get("op") not in ("end", "hang")]
    return {"fam": evs[0]["fam"], "cfg": evs[0]["cfg"], "db": evs[0]["db"], "steps": steps}


def judge_only(ctx, trace, source, kd):
    cfg = t_cfg(ctx, kd)
    v = lib.judge(ctx, MODULE_T, cfg, trace, max_events=6000 if ctx.quick else 10000)
    v["violations"] = sorted(set(v["violations"]))
    return v


def conclude(ctx, v, trace, source, classify=True):
    ctx.stage("judge", source=source, events=v["events"], queries=v.get("queries"), rows=v.get("rows"),
              violations=len(v["violations"]), deviations=len(v["deviations"]), wall_s=v["wall_s"])
    if v.get("ungraded"):
        raise lib.ToolError(f"{v['ungraded']} events of {source} are outside the grid of Ribbit.tla and could not be judged")
    if classify:
        lib.classify_trace(ctx, v, trace, source, program_of=program_of)
    return v


def judge_trace(ctx, trace, source, kd, classify=True):
    return conclude(ctx, judge_only(ctx, trace, source, kd), trace, source, classify)


# --------------------------------------------------------------------------- self-test, replay
def clean_runs(trace, verdict, limit=4000):
    """The runs (lists of lines) among the first `limit` lines of a trace in which the monitor judged every event as
    conforming to the ideal specification: no violation, no deviation.  Victims of the self-test are taken from
    these only, so the test means the same on a tree that behaves differently."""
    lines = lib.read_lines(trace)[:limit]
    bad = set(verdict["violations"]) | {d[0] for d in verdict["deviations"]}
    starts = [i for i, l in enumerate(lines) if lib.is_new(l)]
    runs = []
    for a, b in zip(starts, starts[1:]):           # the last (possibly cut) run is left out
        if not any(a < x <= b for x in bad):       # verdict lines are 1-based: the run is lines a+1 .. b
            runs.append(lines[a:b])
    return runs


def _corrupt(cell):
    if cell["k"] == "empty":
        cell["k"], cell["v"] = "str", "x"
    else:
        cell["v"] = cell["v"][:-1] + ("0" if cell["v"][-1:] != "0" else "1")


def selftest(ctx, fields_trace, fields_verdict, conc_trace, conc_verdict, kd):
    """Binding self-test on conforming runs of the traces at hand, one monitor run over all variants:
    (a) one variant per judged column of a versions row and of a cdns row with that cell corrupted,
    (b) a run with one event dropped, (c) a malformed request whose close is turned into a data reply.
    In every variant the monitor must flag exactly the manipulated event (for (b): the event after the gap)."""
    variants = []        # (name, lines, expected 1-based line within the variant)
    fruns = clean_runs(fields_trace, fields_verdict)
    want = {"versions": ["BuildConfig", "CDNConfig", "KeyRing", "BuildId", "VersionsName", "ProductConfig"],
            "cdns": ["Path", "Hosts", "ConfigPath"]}
    for ep, cols in want.items():
        hit = None
        for run in fruns:
            for i, l in enumerate(run):
                e = json.loads(l)
                # for cdns prefer a build with a CDN path of its own (Path / ConfigPath come from the record)
                if e.get("op") == "query" and e.get("ep") == ep and e["res"]["out"] == "rows" and \
                        (ep != "cdns" or json.loads(run[0])["db"][0]["cdn_path"]):
                    hit = (run, i)
                    break
            if hit:
                break
        if not hit:
            continue
        run, i = hit
        for col in cols:
            e = json.loads(run[i])
            _corrupt(next(x for x in e["res"]["rows"][-1] if x["n"] == col))
            v = list(run); v[i] = json.dumps(e, separators=(",", ":"))
            variants.append((f"corrupt_{ep}_{col}", v, i + 1))
    # the column text alone: a cell whose text differs from its canonical rendering (upper-case hex, "007") is given
    # the canonical text, the typed value stays
    done = False
    for run in fruns:
        for i, l in enumerate(run):
            if '"raw":' not in l:
                continue
            e = json.loads(l)
            cell = next((x for x in e["res"]["rows"][-1] if "raw" in x and x["n"] not in ("Region", "Name", "Servers")), None) \
                if e.get("op") == "query" and e["res"]["out"] == "rows" else None
            if cell:
                cell["raw"] = cell["v"]
                v = list(run); v[i] = json.dumps(e, separators=(",", ":"))
                variants.append(("normalise_column_text", v, i + 1))
                done = True
                break
        if done:
            break
    run = next((r for r in fruns if len(r) >= 5), None)
    if run:
        v = list(run); del v[2]
        variants.append(("drop_one_event", v, 3))
    for run in clean_runs(conc_trace, conc_verdict):
        i = next((i for i, l in enumerate(run) if '"op":"finish"' in l and '"out":"closed"' in l), None)
        if i is not None:
            e = json.loads(run[i])
            e["res"]["outs"] = [{"out": "reply", "status": 200, "rows": 7, "bytes": 700}]
            v = list(run); v[i] = json.dumps(e, separators=(",", ":"))
            variants.append(("data_reply_to_malformed", v, i + 1))
            break
    res = {}
    if variants:
        path = ctx.path("selftest.ndjson")
        open(path, "w").write("\n".join(l for _, seg, _ in variants for l in seg) + "\n")
        verdict = lib.tlc_trace(ctx, MODULE_T, t_cfg(ctx, kd), path)
        off = 0
        for name, seg, exp in variants:
            got = {x - off for x in verdict["violations"] if off < x <= off + len(seg)}
            res[name + "_flagged"] = got == {exp}
            off += len(seg)
    for name in [f"corrupt_{ep}_{c}" for ep, cs in want.items() for c in cs] + ["normalise_column_text", "drop_one_event", "data_reply_to_malformed"]:
        res.setdefault(name + "_flagged", "skipped: no conforming run with such an event in this execution")
    ctx.cov["binding_selftest"] = res
    return all(v is not False for v in res.values())


def replay(ctx, kd):
    obj = json.load(open(ctx.replay))
    prog = obj["program"]
    p = ctx.path("replay_prog.ndjson")
    open(p, "w").write(json.dumps(prog) + "\n")
    trace = ctx.path("replay_trace.ndjson")
    args = ["--programs", p, "--out", trace, "--par", 1]
    if prog.get("fam") == "flood":
        args += ["--flood"]
    lib.run_driver("drv_ribbit", args)
    v = judge_trace(ctx, trace, "replay", kd, classify=False)
    for l in lib.read_lines(trace):
        print(l[:2000])
    print(json.dumps(v))
    return 1 if v["violations"] else 0


# --------------------------------------------------------------------------- main
def nontrivial(line):
    """A program is non-trivial when it makes at least one request to a running server."""
    return '"op":"query"' in line or '"op":"send"' in line


def run(ctx):
    kd = known_findings(ctx)
    lib.build(["drv_ribbit"])
    if ctx.replay:
        return replay(ctx, kd)
    total = distinct = 0
    from concurrent.futures import ThreadPoolExecutor
    judging = ThreadPoolExecutor(max_workers=2)      # a family is judged while the next one is generated and executed
    waiting = ThreadPoolExecutor(max_workers=2)      # slow: dominated by the server's 10 s read time-out and the 45 s of
    pending = []                                     # server time before the driver records "still open"
    traces = {}
    try:
        model = judging.submit(model_check, ctx, kd)
        gen = generate(ctx, "static")
        slow = {fam: waiting.submit(execute, ctx, fam, *gen[fam]) for fam in ("slow", "flood")}
        for fam in ("unknown", "fields", "newest", "sample", "conc"):
            progs, n = gen[fam] if fam != "conc" else generate(ctx, "conc", conc=True)["conc"]
            traces[fam] = trace = execute(ctx, fam, progs, n)
            total += n
            distinct += lib.count_distinct(progs, key=lambda l: l if nontrivial(l) else "")[1]
            if len(ctx.cov["samples"]) < 4:
                ls = lib.read_lines(trace)[:4000]
                s, e = lib.run_of_line(ls, min(len(ls) - 1, 900))
                ctx.cov["samples"].append({"source": f"MC_Ribbit family={fam}", "trace": [json.loads(x) for x in ls[s:e]][:12]})
            if fam in ("fields", "conc"):     # the two large ones are judged on their own, as soon as they exist
                pending.append((fam, trace, judging.submit(judge_only, ctx, trace, fam, kd)))
        for fam in ("slow", "flood"):
            traces[fam] = slow[fam].result()
            total += gen[fam][1]
            distinct += lib.count_distinct(gen[fam][0])[1]
        # the small ones share one monitor run
        rest = ("unknown", "newest", "sample", "slow", "flood")
        merged = ctx.path("trace_rest.ndjson")
        with open(merged, "w") as out:
            for fam in rest:
                with open(traces[fam]) as f:
                    for line in f:
                        out.write(line)
        pending.append(("+".join(rest), merged, judging.submit(judge_only, ctx, merged, "rest", kd)))
        futs = {fam: fut for fam, _, fut in pending}
        # (the small families are still being judged while the self-test runs)
        binding_ok = selftest(ctx, traces["fields"], futs["fields"].result(), traces["conc"], futs["conc"].result(), kd)
        for fam, trace, fut in pending:      # VIOLATION lines first: they are the result of the check
            conclude(ctx, fut.result(), trace, f"MC_Ribbit family={fam}")
        model.result()
        if not binding_ok and not ctx.violations:
            raise lib.ToolError(f"binding self-test failed: {ctx.cov['binding_selftest']}")
    finally:
        waiting.shutdown(wait=True, cancel_futures=True)
        judging.shutdown(wait=True, cancel_futures=True)
    ctx.cov["traces_validated_against_impl"] = total
    ctx.cov["evaluations"] = total
    ctx.cov["distinct_nontrivial"] = distinct
    ctx.cov["exhaustive"] = True
    ctx.cov["exhaustive_scope"] = ("state machine: 3 connections x every request class, no state constraint, safety + liveness; "
                                   "programs: every pair of single-field deviations from a plain record over the grids of Ribbit.tla x all "
                                   "transports x endpoints; every assignment of the build_time grid to 1..3 builds (x one poisoned build); every "
                                   "interleaving of two malformed raw connections (open/send/finish) with one valid probe over the listed class "
                                   "pairs. The sample family (full cross product) is a seeded sample, not exhaustive")
    ctx.assumptions += ["TLC, the CommunityModules Json reader and the driver's projection (typed BPSV values rendered as text) are trusted",
                        "strings are drawn from the grid of Ribbit.tla; its attributes (separator, trailing white space, non-ASCII, numeric / hex "
                        "canon, time and string order of timestamps) are re-derived in Python at every run",
                        "time is counted in 100 ms ticks of a task on the server's own runtime (a paused process or a starved server thread "
                        "stops that clock): a valid probe must be answered within 300 ticks; a raw connection is recorded as still open only "
                        "after 450 ticks (4.5x the server's 10 s read time-out) without any socket of its group being answered or closed; a "
                        "probe that failed while the server clock lost > 3 s against the wall clock is repeated",
                        "server and clients share one process (library entry points); the flood family relies on that to make accept() fail with EMFILE"]
    return lib.finish(ctx, "model_checking",
                      rule="programs = initial states (static families) or complete client-step interleavings (family conc) of MC_Ribbit; "
                           "distinct = distinct program texts (md5); non-trivial = at least one request reaches a running server")
