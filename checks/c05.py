"""C05 - the local key index and the residency database behave as persistent maps.

spec/KvIndex.tla, spec/Residency.tla: property level (PStep / RStep) + code-shaped level.
MC_KvIndex / MC_Residency check the code-shaped model against the property level and enumerate every operation
sequence up to a depth (binding G); drv_index executes them on the real IndexManager / ResidencyContainer;
T_KvIndex / T_Residency judge every event with the same property-level operator (binding T).
"""
import glob, json, os, re
from concurrent.futures import ThreadPoolExecutor
from . import lib

PROP = "C05"
UPD_CAP = 1260          # documented capacity of one bucket's update section (60 pages x 21 entries)
MODEL_CAP = 3           # the same constant in the bounded model; `fill` operations bridge the two
CODE_DEFECTS = ["F05a", "F05b"]   # defects the code-shaped model can reproduce (KvIndex.tla, parameter cd)
DROP = ("res", "obs", "seq", "n", "cnt", "panic")
OP_RE = re.compile(r'\},"(?:off":\d+,")?op":"(\w+)".*?"res":"(\w+)"')


def merge_known(ctx):
    """findings.d/F05*.json is the source of KNOWN_FINDINGS.json (bin/mkmanifest); read it directly so that the
    check does not depend on the generated file being fresh."""
    have = {f["id"] for f in ctx.known.get("findings", [])}
    fixed = " ".join(ctx.known.get("fixed", []))
    for p in sorted(glob.glob(os.path.join(lib.ROOT, "findings.d", "F05*.json"))):
        f = json.load(open(p))
        if f.get("status", "known") == "known" and f["id"] not in have and f["what"] not in fixed:
            ctx.known.setdefault("findings", []).append(f)


def program_of(evs):
    if not evs:
        return None
    new = evs[0]
    ops = [{k: v for k, v in e.items() if k not in DROP} for e in evs[1:] if e.get("op") != "hang"]
    prog = {"sys": new.get("sys"), "keys": new.get("keys"), "ops": ops}
    if new.get("sys") == "index":
        prog["locs"] = new.get("locs")
    return prog


def monitor_cfg(ctx, sys_, kd):
    cfg = ctx.path(f"t_{sys_}.cfg")
    if sys_ == "index":
        lib.write_cfg(cfg, {"UpdCap": UPD_CAP, "KnownDeviations": lib.tla_set(kd)}, "TInit", "TNext", invariants=["Done"])
        return "T_KvIndex", cfg
    lib.write_cfg(cfg, {"KnownDeviations": lib.tla_set(kd)}, "TInit", "TNext", invariants=["Done"])
    return "T_Residency", cfg


def judge_trace(ctx, sys_, trace, source, kd, classify=True, max_events=40000):
    mod, cfg = monitor_cfg(ctx, sys_, kd)
    v = lib.judge(ctx, mod, cfg, trace, max_events=max_events)
    ctx.stage("judge", source=source, events=v["events"], violations=len(v["violations"]),
              deviations=len(v["deviations"]), wall_s=v["wall_s"])
    if classify:
        lib.classify_trace(ctx, v, trace, source, program_of=program_of)
    return v


def op_census(ctx, trace):
    """(operation, result) pairs seen on the real code - reported in evidence, decides nothing."""
    cen = ctx.cov.setdefault("op_result_census", {})
    with open(trace) as f:
        for i, line in enumerate(f):
            if i >= 300000:          # a census of the first 300k events of a trace is enough
                break
            if lib.is_new(line):
                continue
            m = OP_RE.search(line)     # "op" and "res" are top-level keys behind the (nested) "obs" object
            k = f"{m.group(1)}/{m.group(2)}" if m else "?"
            cen[k] = cen.get(k, 0) + 1


# --------------------------------------------------------------------------- model checking + generation
def mc_index(ctx, alpha, depth, kd, code_devs, pre="none", emit=True, expect_violation=False, tag="", workers=None):
    cfg = ctx.path(f"mc_index_{alpha}_{pre}_{depth}{tag}.cfg")
    inv = ["Refines", "Coherent", "Bounded", "GhostExact", "AckedUpper", "NoDevNeeded"] + (["Emit"] if emit else [])
    lib.write_cfg(cfg, {"UpdCap": MODEL_CAP, "KnownDeviations": lib.tla_set(kd), "D": depth, "Alpha": f'"{alpha}"', "PreName": f'"{pre}"',
                        "CodeDevs": lib.tla_set(code_devs)}, "MCInit", "MCNext", invariants=inv)
    progs = ctx.path(f"prog_index_{alpha}_{pre}_{depth}{tag}.ndjson")
    r = lib.tlc(ctx, "MC_KvIndex", cfg, tagged_out={"PROGRAM": progs}, timeout=1500, expect_violation=expect_violation, workers=workers)
    if not emit:
        os.remove(progs)
    return r, progs


def mc_res(ctx, depth, pre="none"):
    cfg = ctx.path(f"mc_res_{pre}_{depth}.cfg")
    lib.write_cfg(cfg, {"D": depth, "PreName": f'"{pre}"'}, "MCInit", "MCNext",
                  invariants=["Refines", "FilterSound", "SaveLoadId", "PathsAgree", "Emit"])
    progs = ctx.path(f"prog_res_{pre}_{depth}.ndjson")
    r = lib.tlc(ctx, "MC_Residency", cfg, tagged_out={"PROGRAM": progs}, timeout=1500)
    return r, progs


def generated(ctx, sys_, label, r, progs, kd, keep=False):
    """Run the programs TLC printed on the real code and judge the trace."""
    n = r["counts"]["PROGRAM"]
    ctx.cov["states"] += r["distinct"]
    ctx.cov["transitions"] += r["generated"]
    ctx.stage("mc", model=label, distinct_states=r["distinct"], programs=n, wall_s=r["wall_s"])
    trace = ctx.path(f"trace_{label.replace(' ', '_').replace('=', '')}.ndjson")
    d = lib.run_sharded(ctx, "drv_index", progs, trace, shards=12)
    ctx.stage("run", model=label, programs=d.get("programs"), events=d.get("events"), hangs=d.get("hangs"), wall_s=d["wall_s"])
    if d.get("programs") != n:
        raise lib.ToolError(f"driver executed {d.get('programs')} of {n} programs")
    _, dn = lib.count_distinct(progs)
    ctx.cov["traces_validated_against_impl"] += n
    ctx.cov["distinct_nontrivial"] += dn
    if len(ctx.cov["samples"]) < 4:
        ls = lib.read_lines(trace)
        s, e = lib.run_of_line(ls, max(1, len(ls) * 2 // 3))
        ctx.cov["samples"].append({"source": label, "trace": [json.loads(x) for x in ls[s:e]]})
    judge_trace(ctx, sys_, trace, label, kd)
    op_census(ctx, trace)
    os.remove(progs)
    if keep:
        return trace
    os.remove(trace)
    return None


def design_checks(ctx, kd):
    """The ideal design refines the property with no deviation; each code defect found so far (known or fixed), put
    into the code-shaped model alone and without its deviation, is refuted by TLC (the finding's model-level witness)."""
    jobs = [("ideal", "lean", 3, "boundary", [], False), ("ideal", "zero", 4, "none", [], False),
            # done for fixed findings too: it shows the specification would refute the defect if it came back
            ("F05a", "lean", 3, "none", ["F05a"], True), ("F05b", "zero", 4, "none", ["F05b"], True)]
    with ThreadPoolExecutor(max_workers=len(jobs)) as ex:
        rs = list(ex.map(lambda j: mc_index(ctx, j[1], j[2], [], j[4], pre=j[3], emit=False, expect_violation=j[5],
                                            tag=j[0], workers=max(1, lib.NCPU // 4))[0], jobs))
    res = {"ideal_design_refines": True}
    for j, r in zip(jobs, rs):
        ctx.cov["states"] += r["distinct"]
        ctx.cov["transitions"] += r["generated"]
        if j[5]:
            res[f"model_witness_{j[0]}"] = "Refines" in r["invariant_violated"]
            if not res[f"model_witness_{j[0]}"]:
                raise lib.ToolError(f"the code-shaped model with defect {j[0]} is not refuted by TLC: the deviation has lost its witness")
    ctx.cov["design_checks"] = res
    ctx.stage("design", **res)


# --------------------------------------------------------------------------- random tier
def random_tier(ctx, sys_, args, label, kd, max_events=8000):
    tag = label.split()[1]
    trace = ctx.path(f"trace_random_{tag}.ndjson")
    dump = ctx.path(f"prog_random_{tag}.ndjson")
    d = lib.run_driver("drv_index", args + ["--out", trace, "--dump-programs", dump], env={"VERIF_SEED": ctx.seed})
    ctx.stage("run", source=label, programs=d.get("programs"), events=d.get("events"), hangs=d.get("hangs"), wall_s=d["wall_s"])
    n, dn = lib.count_distinct(dump)
    ctx.cov["traces_validated_against_impl"] += n
    ctx.cov["distinct_nontrivial"] += dn
    judge_trace(ctx, sys_, trace, label, kd, max_events=max_events)
    op_census(ctx, trace)
    os.remove(trace)
    os.remove(dump)


# --------------------------------------------------------------------------- anti-vacuity
def selftest(ctx, sys_, trace, kd):
    """Binding self-test: corrupt one recorded field / drop one event -> the monitor must flag exactly that."""
    lines = lib.read_lines(trace)[:3000]
    while lines and not lib.is_new(lines[-1]):
        lines.pop()
    lines.pop()
    field, bad = ("look", "L1") if sys_ == "index" else ("res", None)
    # (a) corrupt one observed value
    ia = None
    for i, l in enumerate(lines):
        if i < 40 or lib.is_new(l):
            continue
        e = json.loads(l)
        o = e["obs"][field]
        if sys_ == "index":
            k = next((k for k, v in o.items() if v == "L0"), None)
            if k:
                o[k] = bad
                ia = i
        else:
            k = next((k for k, v in o.items() if v is True), None)
            if k:
                o[k] = False
                ia = i
        if ia is not None:
            la = list(lines)
            la[ia] = json.dumps(e, separators=(",", ":"))
            break
    if ia is None:
        raise lib.ToolError("self-test: no event to corrupt")
    # (b) drop an event that is not a run boundary and not the last of its run
    ib = next(i for i, l in enumerate(lines) if i > 60 and not lib.is_new(l) and not lib.is_new(lines[i + 1]))
    lb = list(lines)
    del lb[ib]
    mod, cfg = monitor_cfg(ctx, sys_, kd)
    paths = {}
    for name, ls in (("0", lines), ("a", la), ("b", lb)):
        paths[name] = ctx.path(f"selftest_{sys_}_{name}.ndjson")
        open(paths[name], "w").write("\n".join(ls) + "\n")
    with ThreadPoolExecutor(max_workers=3) as ex:
        base, va, vb = list(ex.map(lambda n: lib.tlc_trace(ctx, mod, cfg, paths[n]), ("0", "a", "b")))
    ok_a = (ia + 1) in va["violations"] and (ia + 1) not in base["violations"]
    ok_b = (ib + 1) in vb["violations"] and len(vb["violations"]) > len(base["violations"])
    res = {"corrupt_one_field_flagged": ok_a, "drop_one_event_flagged": ok_b}
    ctx.cov.setdefault("binding_selftest", {})[sys_] = res
    if not (ok_a and ok_b):
        raise lib.ToolError(f"binding self-test failed for {sys_}: {res}")


# --------------------------------------------------------------------------- replay
def replay(ctx, kd):
    obj = json.load(open(ctx.replay))
    prog = obj["program"]
    p = ctx.path("replay_prog.ndjson")
    open(p, "w").write(json.dumps(prog) + "\n")
    trace = ctx.path("replay_trace.ndjson")
    lib.run_driver("drv_index", ["--programs", p, "--out", trace])
    v = judge_trace(ctx, prog["sys"], trace, "replay", kd, classify=False)
    print(open(trace).read())
    print(json.dumps(v))
    for ln, fid in v["deviations"]:
        print(f"event {ln - 1}: explained only by the known deviation {fid}")
    for ln in v["violations"]:
        print(f"event {ln - 1}: VIOLATION (not explained by the specification)")
    return 1 if v["violations"] else 0


# --------------------------------------------------------------------------- main
def run(ctx):
    merge_known(ctx)
    kd = lib.known_ids(ctx, PROP)
    if os.environ.get("VERIF_C05_KD") is not None:
        # development aid (like VERIF_REPO): pretend only these findings are listed, e.g. to see a fix turn
        # the check green without its deviation, or a known finding turn it red. Registered commands never set it.
        kd = [x for x in os.environ["VERIF_C05_KD"].split(",") if x]
    code_devs = [f for f in CODE_DEFECTS if f in kd]
    lib.build(["drv_index"])
    if ctx.replay:
        return replay(ctx, kd)
    if ctx.quick:
        plan = [("lean", "none", 4), ("lean", "sorted", 3), ("lean", "boundary", 3), ("full", "none", 3),
                ("two", "none", 3), ("two", "boundary", 2), ("zero", "none", 4), ("zero", "sorted", 3)]
        res_plan = [("none", 3), ("saved", 3)]
        rnd_index = ["--random-index", 40, "--len", 300, "--long", 4, "--long-len", 3000]
        rnd_big = ["--big", 3]
        rnd_res = ["--random-res", 64, "--len", 300]
    else:
        plan = [("full", "none", 4), ("full", "sorted", 3), ("full", "boundary", 3), ("lean", "none", 5), ("lean", "sorted", 4),
                ("lean", "boundary", 4), ("two", "none", 4), ("two", "sorted", 3), ("two", "boundary", 3),
                ("zero", "none", 5), ("zero", "sorted", 4)]
        res_plan = [("none", 4), ("saved", 4)]
        rnd_index = ["--random-index", 300, "--len", 300, "--long", 40, "--long-len", 3000]
        rnd_big = ["--big", 16]
        rnd_res = ["--random-res", 400, "--len", 400]
    design_checks(ctx, kd)
    first = True
    for alpha, pre, depth in plan:
        r, progs = mc_index(ctx, alpha, depth, kd, code_devs, pre=pre)
        label = f"MC_KvIndex alpha={alpha} prefix={pre} depth={depth}"
        trace = generated(ctx, "index", label, r, progs, kd, keep=first)
        if first:
            selftest(ctx, "index", trace, kd)
            os.remove(trace)
            first = False
    first = True
    for pre, depth in res_plan:
        r, progs = mc_res(ctx, depth, pre=pre)
        trace = generated(ctx, "res", f"MC_Residency prefix={pre} depth={depth}", r, progs, kd, keep=first)
        if first:
            selftest(ctx, "res", trace, kd)
            os.remove(trace)
            first = False
    random_tier(ctx, "index", rnd_index, f"random index seed={ctx.seed}", kd)
    # sorted sections around the 64 KiB boundary at which the file's update section is aligned; one chunk per program
    random_tier(ctx, "index", rnd_big, f"random bigindex seed={ctx.seed}", kd, max_events=1)
    random_tier(ctx, "res", rnd_res, f"random residency seed={ctx.seed}", kd)
    ctx.cov["evaluations"] = ctx.cov["traces_validated_against_impl"]
    ctx.cov["exhaustive"] = True
    ctx.cov["exhaustive_scope"] = ("all operation sequences of the listed depth per alphabet (full/lean: keys a,b + filler in one bucket, "
                                   "fill-to-boundary; two: two buckets; zero: the all-zero key) and all residency sequences of the listed depth "
                                   "over 3 keys; the random tier is not exhaustive")
    ctx.assumptions += [
        "TLC, the CommunityModules JSON reader and the driver's projection (lookup of every key in both 16-byte variants, has_entry, "
        "iter_entries, entry_count / is_resident, query, scan_keys, resident_count) are trusted; key and location concretisation is injective (asserted by the driver)",
        "durability contract judged: save_all and a flush of acknowledged updates are durable points; a reload shows the last durable map plus a prefix of later "
        "acknowledged changes per bucket; clear_bucket/clear are volatile until the next save_all; no I/O faults or crashes (C06)",
        "a truthful refusal (false, nothing changed) of update_entry/update_entry_status/remove_entry is accepted once the bucket holds 1260 un-flushed entries, never earlier",
        "histories longer than the depth bound are covered by seeded random programs only"]
    return lib.finish(ctx, "model_checking",
                      rule="programs = complete operation sequences of length D over the alphabet enumerated by TLC from the code-shaped model of KvIndex.tla / "
                           "Residency.tla (history variable, every step checked against the property level) plus seeded random programs; distinct = distinct "
                           "program texts (md5); every program has >= 3 operations so all are non-trivial")
