"""C19 - install / download / size manifests select exactly the tagged files.

spec/Manifest.tla: the set model of a manifest under construction (files, tags, member sets), the queries
(FilesAll / FilesAny / SizeFor / ByPriority), MaskBytes = the on-disk MSB-first bit layout, and a byte-level
TLA+ reader (and, for model checking, writer) of the three container formats.
MC_Manifest: (reach) every reachable model state satisfies the design invariants - mask round trip for every
file count, query algebra, reader-inverts-writer for every container kind; (gen) every builder program of the
bounded families is printed (binding G).  drv_manifest executes each program on every container kind with the
real builders, serialises, re-parses, runs every query; T_Manifest judges each build event three ways: the raw
bytes through the TLA+ reader, the library's parse, and the queries, all against the set model (bindings T/E).
"""
import glob, hashlib, itertools, json, os
from . import lib

MODULE_MC = "MC_Manifest"
MODULE_T = "T_Manifest"
DRV = "drv_manifest"
REACH_INVS = ["InvModel", "InvQueries", "InvFormats", "InvCodeShaped"]
STAT_KEYS = ["builds", "refusals", "queries", "unspec_events", "ops", "bytes_read"]

K_INSTALL = {"kind": "install", "ver": 1}
K_DL1 = {"kind": "download", "ver": 1, "cs": True}
K_DL2 = {"kind": "download", "ver": 2, "cs": False, "fl": 3}
K_DL3 = {"kind": "download", "ver": 3, "cs": True, "fl": 1, "base": -3}
K_SZ1 = {"kind": "size", "ver": 1, "esb": 5, "eks": 9}
K_SZ1W = {"kind": "size", "ver": 1, "esb": 8, "eks": 16}
K_SZ2 = {"kind": "size", "ver": 2, "eks": 2}
FULL = [K_INSTALL, K_DL1, K_DL2, K_DL3]
SIZES = [K_SZ1, K_SZ1W, K_SZ2]
PQ = [[-128, 127], [-128, -1], [0, 0], [1, 2], [3, 5], [6, 127], [-3, 3], [5, 4]]


# --------------------------------------------------------------------------- known findings
def known(ctx):
    """findings.d/F19*.json is the source KNOWN_FINDINGS.json is generated from (bin/mkmanifest); reading it
    directly keeps the check independent of when that ran."""
    ids = set(lib.known_ids(ctx, "C19"))
    listed = {f["id"] for f in ctx.known.get("findings", [])}
    for p in sorted(glob.glob(os.path.join(lib.ROOT, "findings.d", "F19*.json"))):
        f = json.load(open(p))
        if f.get("property") != "C19":
            continue
        if f.get("status", "known") == "known":
            ids.add(f["id"])
            if f["id"] not in listed:
                ctx.known.setdefault("findings", []).append(f)
        else:
            ids.discard(f["id"])
    return sorted(ids)


# --------------------------------------------------------------------------- programs
def narrow(kind):
    return kind["kind"] == "install" or (kind["kind"] == "size" and kind["ver"] == 2)


def concretise(prog, kind):
    """A TLC program (container-independent) on one container kind: sizes are cut to what the container's
    size field holds, and the final build asks every combination of the tag names the program mentions
    (plus one name, Z, that never exists)."""
    names = sorted({o["t"] for o in prog["ops"] if "t" in o}) + ["Z"]
    q = [list(c) for r in range(len(names) + 1) for c in itertools.combinations(names, r)]
    ops = []
    for o in prog["ops"]:
        o = dict(o)
        if narrow(kind):
            if o["op"] == "add_file":
                o["sz"] = [o["sz"][0] % 256, o["sz"][1]]
            elif o["op"] == "add_files":
                o["files"] = [[f[0] % 256, f[1], f[2]] for f in o["files"]]
        if o["op"] == "build":
            o["q"] = q
            o["pq"] = PQ
            o["plat"] = [[names[0], names[min(1, len(names) - 1)]], [names[0], "Z"]]
        ops.append(o)
    p = dict(kind)
    p["ops"] = ops
    return p


def nontrivial(p):
    """a program is non-trivial when a file is associated with a tag somewhere and a build follows"""
    seen = False
    for o in p["ops"]:
        if o["op"] == "assoc" or (o["op"] == "assoc_set" and o["files"]):
            seen = True
        if o["op"] == "build" and seen:
            return True
    return False


def expand(src, dst, kinds, seen, opcount, rotate=()):
    """Write every TLC program of `src` once per container kind in `kinds`, plus once on one of `rotate`
    (chosen by the program's index). Returns (programs written, new distinct non-trivial ones)."""
    n = d = 0
    # TLC prints the programs in an order that depends on its worker scheduling: sort them, and pick the
    # rotating kind from the program text, so that a run is a function of the tier and the seed only
    with open(src) as f:
        lines = sorted(f.read().splitlines())
    with open(dst, "w") as out:
        for line in lines:
            prog = json.loads(line)
            ks = list(kinds) + ([rotate[int(hashlib.md5(line.encode()).hexdigest(), 16) % len(rotate)]] if rotate else [])
            for k in ks:
                p = concretise(prog, k)
                s = json.dumps(p, separators=(",", ":"))
                out.write(s + "\n")
                n += 1
                h = hashlib.md5(s.encode()).digest()
                if h not in seen:
                    seen.add(h)
                    if nontrivial(p):
                        d += 1
                for o in p["ops"]:
                    opcount[o["op"]] = opcount.get(o["op"], 0) + 1
    return n, d


def count_dump(path, seen, opcount):
    n = d = 0
    with open(path) as f:
        for line in f:
            n += 1
            h = hashlib.md5(line.strip().encode()).digest()
            p = json.loads(line)
            if h not in seen:
                seen.add(h)
                if nontrivial(p):
                    d += 1
            for o in p["ops"]:
                opcount[o["op"]] = opcount.get(o["op"], 0) + 1
    return n, d


def program_of(evs):
    if not evs:
        return None
    head = {k: v for k, v in evs[0].items() if k != "op"}
    head["ops"] = [{k: v for k, v in e.items() if k not in ("res", "obs", "seq", "stage", "msg")} for e in evs[1:]
                   if e.get("op") != "hang"]
    return head


# --------------------------------------------------------------------------- stages
def tla_intset(xs):
    return "{" + ", ".join(str(x) for x in xs) + "}"


BASE = {"Family": '"seq"', "NTs": "{3}", "D": 3, "D2": 1, "N0": "{0}", "Pats": "{1}", "Orders": '{"tf"}', "Universe": '{"A", "B"}', "MaxBad": 1, "Defects": "{}"}


def mc_cfg(ctx, name, mode, over):
    c = dict(BASE)
    c.update(over)
    cfg = ctx.path(f"mc_{name}_{mode}.cfg")
    if mode == "reach":
        lib.write_cfg(cfg, c, "MCInit", "MCNext", invariants=REACH_INVS, view="MCView")
    else:
        lib.write_cfg(cfg, c, "MCInit", "MCNext", invariants=["Emit"])
    return cfg


def mc_reach(ctx, name, over):
    """Design level: the invariants of Manifest.tla on every reachable model state (history hidden by the VIEW)."""
    r = lib.tlc(ctx, MODULE_MC, mc_cfg(ctx, name, "reach", over), timeout=1500)
    ctx.cov["states"] += r["distinct"]
    ctx.cov["transitions"] += r["generated"]
    ctx.stage("mc-reach", family=name, distinct_states=r["distinct"], generated=r["generated"], wall_s=r["wall_s"],
              invariants=" ".join(REACH_INVS))
    if r["distinct"] < 2:
        raise lib.ToolError(f"MC_Manifest reach {name}: no states explored")


def model_witness(ctx):
    """The code-shaped parts of the model *with* a finding's defect must violate the design invariant (this is
    how the finding's model-level witness is regenerated); with Defects = {} the same configuration passes
    (mc_reach)."""
    out = {}
    for fid, inv in (("F19a", "InvCodeShaped"), ("F19b", "InvFormats")):
        cfg = mc_cfg(ctx, f"witness_{fid}", "reach", dict(Family='"size"', D=5, Defects='{"%s"}' % fid))
        r = lib.tlc(ctx, MODULE_MC, cfg, timeout=300, expect_violation=True, workers=1)
        out[fid] = inv in r["invariant_violated"]
        if not out[fid]:
            raise lib.ToolError(f"model with defect {fid} does not violate {inv}: the model no longer explains the finding")
    ctx.cov["model_with_defect_violates_property"] = out


def mc_gen(ctx, name, over):
    progs = ctx.path(f"tlc_{name}.ndjson")
    r = lib.tlc(ctx, MODULE_MC, mc_cfg(ctx, name, "gen", over), tagged_out={"PROGRAM": progs}, timeout=1500)
    ctx.cov["states"] += r["distinct"]
    ctx.cov["transitions"] += r["generated"]
    n = r["counts"]["PROGRAM"]
    ctx.stage("mc-gen", family=name, distinct_states=r["distinct"], programs=n, wall_s=r["wall_s"],
              constants={k: v for k, v in over.items()})
    if n == 0:
        raise lib.ToolError(f"MC_Manifest gen {name}: no programs")
    return progs, n


def t_cfg(ctx, kd):
    cfg = ctx.path("t_manifest.cfg")
    lib.write_cfg(cfg, {"KnownDeviations": lib.tla_set(kd)}, "TInit", "TNext", invariants=["Done"], view="TView")
    return cfg


def judge_trace(ctx, trace, source, kd, totals, max_events=30000):
    # one chunk per available worker (a chunk is one JVM), within [3000, max_events] events
    with open(trace) as f:
        n = sum(1 for _ in f)
    max_events = max(3000, min(max_events, n // min(lib.NCPU, 16) + 1))
    v = lib.judge(ctx, MODULE_T, t_cfg(ctx, kd), trace, max_events=max_events, heap="3g")
    for k in STAT_KEYS:
        totals[k] = totals.get(k, 0) + v.get(k, 0)
    ctx.stage("judge", source=source, events=v["events"], violations=len(v["violations"]), deviations=len(v["deviations"]),
              wall_s=v["wall_s"], chunks=v["chunks"], **{k: v.get(k, 0) for k in STAT_KEYS if v.get(k, 0)})
    lib.classify_trace(ctx, v, trace, source, program_of=program_of)
    return v


def sample(ctx, trace, source, want):
    ls = lib.read_lines(trace)
    i = next((i for i, l in enumerate(ls) if lib.is_new(l) and want in l and i > len(ls) // 2), None)
    if i is None:
        return
    s, e = lib.run_of_line(ls, i + 1)
    if e - s <= 12:
        ctx.cov["samples"].append({"source": source, "trace": [json.loads(x) for x in ls[s:e]]})


def family(ctx, name, over, kinds, rotate, kd, totals, seen, opcount, keep=None):
    tlc_progs, n0 = mc_gen(ctx, name, over)
    progs = ctx.path(f"prog_{name}.ndjson")
    n, dn = expand(tlc_progs, progs, kinds, seen, opcount, rotate)
    os.remove(tlc_progs)
    trace = ctx.path(f"trace_{name}.ndjson")
    d = lib.run_sharded(ctx, DRV, progs, trace, shards=min(12, lib.NCPU))
    ctx.stage("run", family=name, tlc_programs=n0, programs=d.get("programs"), events=d.get("events"), hangs=d.get("hangs"),
              wall_s=d["wall_s"], kinds=[k["kind"] + str(k["ver"]) for k in list(kinds) + list(rotate)])
    if d.get("programs") != n:
        raise lib.ToolError(f"driver executed {d.get('programs')} of {n} programs")
    if len(ctx.cov["samples"]) < 4:
        sample(ctx, trace, f"MC_Manifest {name}", '"kind":"download"' if len(ctx.cov["samples"]) % 2 else '"kind":"')
    judge_trace(ctx, trace, f"MC_Manifest {name}", kd, totals)
    os.remove(progs)
    if keep is not None and not keep:
        keep.append(trace)
    else:
        os.remove(trace)
    return n, dn


def replay(ctx, kd):
    obj = json.load(open(ctx.replay))
    prog = obj.get("program") or obj.get("witness", {}).get("program")
    if prog is None:
        raise lib.ToolError("replay file has no program")
    p = ctx.path("replay_prog.ndjson")
    open(p, "w").write(json.dumps(prog) + "\n")
    trace = ctx.path("replay_trace.ndjson")
    lib.run_driver(DRV, ["--programs", p, "--out", trace])
    v = lib.tlc_trace(ctx, MODULE_T, t_cfg(ctx, kd), trace)
    for line in lib.read_lines(trace):
        e = json.loads(line)
        if "obs" in e and len(e["obs"].get("bytes", [])) > 400:
            e["obs"]["bytes"] = e["obs"]["bytes"][:400] + ["..."]
        print(json.dumps(e, separators=(",", ":")))
    print(json.dumps({k: v[k] for k in v if k != "wall_s"}))
    for _, fid in v["deviations"]:
        print(f"KNOWN-FINDING: property=C19 {fid} reproduced by this replay")
    if v["violations"]:
        print(f"VIOLATION property=C19 replay={ctx.replay}")
    return 1 if v["violations"] else 0


def bitrev(b):
    return int(f"{b:08b}"[::-1], 2)


def selftest(ctx, trace, kd):
    """Binding self-test: corrupt one logged field / drop one event -> the monitor must flag exactly that."""
    lines = lib.read_lines(trace)
    # a window of ~1500 events that starts at the first install run in which a tag has a member
    start = run0 = 0
    for i, l in enumerate(lines):
        if lib.is_new(l):
            run0 = i
        elif '"kind":"install"' in lines[run0] and '"op":"build"' in l and '"res":"ok"' in l:
            if any(t["files"] for t in json.loads(l)["obs"]["tags"]):
                start = run0
                break
    end = min(len(lines), start + 1500)
    while end < len(lines) and not lib.is_new(lines[end]):
        end += 1
    lines = lines[start:end]
    cfg = t_cfg(ctx, kd)

    def write(name, ls):
        p = ctx.path(name)
        open(p, "w").write("\n".join(ls) + "\n")
        return p

    base = lib.tlc_trace(ctx, MODULE_T, cfg, write("selftest_0.ndjson", lines))
    bad = set(base["violations"])
    jobs = {}

    def later(name, ls):
        jobs[name] = write(f"selftest_{name}.ndjson", ls)
    kind_at = {}
    cur = None
    for i, l in enumerate(lines):
        if lib.is_new(l):
            cur = json.loads(l)["kind"]
        kind_at[i] = cur

    def find(pred):
        for i, l in enumerate(lines):
            if lib.is_new(l) or (i + 1) in bad or '"op":"build"' not in l:
                continue
            e = json.loads(l)
            if e.get("res") == "ok" and pred(i, e):
                return i, e
        raise lib.ToolError("self-test: no suitable event in the trace")

    def mask_pos(e):
        """offset of the first mask byte of the first tag of an install manifest that is not a bit palindrome"""
        b = e["obs"]["bytes"]
        n = len(e["obs"]["files"])
        o = 10
        while b[o] != 0:
            o += 1
        o += 3
        for k in range((n + 7) // 8):
            if bitrev(b[o + k]) != b[o + k]:
                return o + k
        return None

    res = {}
    # (a1) the first mask byte written least-significant-bit first, in the raw bytes only
    ia, e = find(lambda i, e: kind_at[i] == "install" and e["obs"]["tags"] and mask_pos(e) is not None)
    o = mask_pos(e)
    e["obs"]["bytes"][o] = bitrev(e["obs"]["bytes"][o])
    la = list(lines); la[ia] = json.dumps(e, separators=(",", ":"))
    later("a1", la)
    # (a2) one file missing from an all-of answer
    ib, e = find(lambda i, e: any(len(a["all"]) >= 1 and len(q) >= 1 for a, q in zip(e["obs"].get("q", []), e["q"])))
    j = next(j for j, (a, q) in enumerate(zip(e["obs"]["q"], e["q"])) if len(a["all"]) >= 1 and len(q) >= 1)
    e["obs"]["q"][j]["all"] = e["obs"]["q"][j]["all"][1:]
    lb = list(lines); lb[ib] = json.dumps(e, separators=(",", ":"))
    later("a2", lb)
    # (a3) a size total off by one
    ic, e = find(lambda i, e: any(len(q) >= 1 for q in e["q"]) and "q" in e["obs"])
    j = next(j for j, q in enumerate(e["q"]) if len(q) >= 1)
    e["obs"]["q"][j]["size"][1] += 1
    lc = list(lines); lc[ic] = json.dumps(e, separators=(",", ":"))
    later("a3", lc)
    # (a4) the parsed projection of a tag gains a file
    idd, e = find(lambda i, e: any(len(t["files"]) < len(e["obs"]["files"]) for t in e["obs"]["tags"]))
    t = next(t for t in e["obs"]["tags"] if len(t["files"]) < len(e["obs"]["files"]))
    extra = next(x for x in range(len(e["obs"]["files"])) if x not in t["files"])
    t["files"] = sorted(t["files"] + [extra])
    ld = list(lines); ld[idd] = json.dumps(e, separators=(",", ":"))
    later("a4", ld)
    # (b) drop one event inside a run
    ie = next(i for i, l in enumerate(lines) if i > 20 and not lib.is_new(l) and i + 1 < len(lines) and not lib.is_new(lines[i + 1])
              and (i + 2) not in bad)
    le = list(lines); del le[ie]
    later("b", le)
    from concurrent.futures import ThreadPoolExecutor
    with ThreadPoolExecutor(max_workers=min(5, lib.NCPU)) as ex:
        vs = dict(zip(jobs, ex.map(lambda p: lib.tlc_trace(ctx, MODULE_T, cfg, p), jobs.values())))
    res["lsb_first_mask_in_raw_bytes_flagged"] = (ia + 1) in vs["a1"]["violations"] and [ia + 1, "bytes"] in vs["a1"]["why"]
    res["wrong_query_answer_flagged"] = (ib + 1) in vs["a2"]["violations"] and [ib + 1, "query"] in vs["a2"]["why"]
    res["wrong_size_total_flagged"] = (ic + 1) in vs["a3"]["violations"]
    res["wrong_parsed_membership_flagged"] = (idd + 1) in vs["a4"]["violations"] and [idd + 1, "parsed"] in vs["a4"]["why"]
    res["drop_one_event_flagged"] = (ie + 1) in vs["b"]["violations"]
    for k in ("lsb_first_mask_in_raw_bytes_flagged", "wrong_query_answer_flagged", "wrong_size_total_flagged", "wrong_parsed_membership_flagged"):
        res[k] = res[k] and not bad
    ctx.cov["binding_selftest"] = res
    if not all(res.values()):
        raise lib.ToolError(f"binding self-test failed: {res} (baseline violations: {sorted(bad)[:5]})")


def run(ctx):
    kd = known(ctx)
    lib.build([DRV])
    if ctx.replay:
        return replay(ctx, kd)
    totals, seen, opcount = {}, set(), {}
    n017 = tla_intset(range(18))
    if ctx.quick:
        reach = [("seq", dict(Family='"seq"', D=4)),
                 ("edge", dict(Family='"edge"', D=1, D2=1, N0=n017, Pats="{1, 2, 5}", Orders='{"tf", "ft"}')),
                 ("tags", dict(Family='"tags"', D=2, N0="{2}", NTs="{3, 4}", Orders='{"tf"}', MaxBad=0)),
                 ("size", dict(Family='"size"', D=5))]
        gen = [("seq", dict(Family='"seq"', D=4), [K_INSTALL], (K_DL1, K_DL2, K_DL3)),
               ("seq5v", dict(Family='"seq"', D=5, MaxBad=0), [K_INSTALL], (K_DL3, K_DL1, K_DL2)),
               # depth 2 around the byte boundaries: each program on ONE kind (install every other one); depth 1 below
               # runs every position of every count 0..17 on install AND a download version
               ("edge2", dict(Family='"edge"', D=2, N0="{1, 7, 8, 9, 16}", Pats="{1}", Orders='{"tf"}'), [],
                (K_INSTALL, K_DL1, K_INSTALL, K_DL2, K_INSTALL, K_DL3)),
               ("edge1", dict(Family='"edge"', D=1, D2=1, N0=n017, Pats="{1, 2, 5}", Orders='{"tf", "ft"}'), [K_INSTALL], (K_DL3, K_DL2, K_DL1)),
               # 3-4 tags, one removed (early / middle / late), the others then used by name
               ("tags", dict(Family='"tags"', D=2, N0="{2}", NTs="{3, 4}", Orders='{"tf"}', MaxBad=0), [K_INSTALL], (K_DL1, K_DL2, K_DL3)),
               ("sizetags", dict(Family='"sizetags"', D=2, N0="{2}", NTs="{3, 4}", Orders='{"tf"}', MaxBad=0), [K_SZ1], (K_SZ1W, K_SZ2)),
               ("size", dict(Family='"size"', D=5), [K_SZ1], (K_SZ1W, K_SZ2))]
        nrand = 150
    else:
        reach = [("seq", dict(Family='"seq"', D=5)),
                 ("edge", dict(Family='"edge"', D=2, D2=1, N0=n017, Pats="{1, 2, 3, 4, 5}", Orders='{"tf", "ft"}')),
                 ("tags", dict(Family='"tags"', D=3, N0="{2, 3}", NTs="{3, 4}", Orders='{"tf", "ft"}', MaxBad=0)),
                 ("sizetags", dict(Family='"sizetags"', D=3, N0="{2}", NTs="{3, 4}", Orders='{"tf", "ft"}', MaxBad=0)),
                 ("size", dict(Family='"size"', D=6))]
        gen = [("seq", dict(Family='"seq"', D=5), FULL, ()),
               ("seq6v", dict(Family='"seq"', D=6, MaxBad=0), [K_INSTALL], (K_DL3, K_DL1, K_DL2)),
               ("edge2", dict(Family='"edge"', D=2, N0=n017, Pats="{1}", Orders='{"tf"}'), [K_INSTALL, K_DL3], (K_DL1, K_DL2)),
               ("edge1", dict(Family='"edge"', D=1, D2=1, N0=n017, Pats="{1, 2, 3, 4, 5}", Orders='{"tf", "ft"}'), FULL, ()),
               ("edge3", dict(Family='"edge"', D=3, N0="{8}", Pats="{1}", Orders='{"ft"}'), [K_INSTALL], (K_DL2, K_DL3, K_DL1)),
               ("tags", dict(Family='"tags"', D=3, N0="{2}", NTs="{3, 4}", Orders='{"tf"}', MaxBad=0), [K_INSTALL], (K_DL1, K_DL2, K_DL3)),
               ("sizetags", dict(Family='"sizetags"', D=3, N0="{2}", NTs="{3, 4}", Orders='{"tf", "ft"}', MaxBad=0), [K_SZ1], (K_SZ1W, K_SZ2)),
               ("size", dict(Family='"size"', D=6), SIZES, ())]
        nrand = 1500
    only = [x for x in os.environ.get("C19_ONLY", "").split(",") if x]   # development aid: run a subset of the stages
    if only:
        reach = [r for r in reach if "reach" in only]
        gen = [g for g in gen if g[0] in only or (g[0] == "seq")]   # "seq" always: its trace feeds the self-test
        ctx.assumptions.append(f"C19_ONLY={','.join(only)}: partial run (development)")
    for name, over in reach:
        mc_reach(ctx, name, over)
    if not only or "reach" in only:
        model_witness(ctx)
    total = distinct = 0
    keep = []
    for name, over, kinds, rotate in gen:
        n, dn = family(ctx, name, over, kinds, rotate, kd, totals, seen, opcount, keep if name == "seq" else None)
        total += n
        distinct += dn
    # deterministic sweep over every file count 0..70 on every container kind + seeded random programs
    sweep_args = ["--sweep", 70] + (["--lite"] if ctx.quick else [])
    for source, args, maxev in (("sweep 0..70", sweep_args, 4000), (f"random seed={ctx.seed}", ["--random", nrand], 4000)):
        tag = source.split()[0]
        if only and tag not in only:
            continue
        trace, dump = ctx.path(f"trace_{tag}.ndjson"), ctx.path(f"prog_{tag}.ndjson")
        d = lib.run_driver(DRV, args + ["--out", trace, "--dump-programs", dump], env={"VERIF_SEED": ctx.seed})
        n, dn = count_dump(dump, seen, opcount)
        ctx.stage("run", source=source, programs=d.get("programs"), events=d.get("events"), hangs=d.get("hangs"), wall_s=d["wall_s"])
        if d.get("programs") != n:
            raise lib.ToolError(f"driver executed {d.get('programs')} of {n} {tag} programs")
        total += n
        distinct += dn
        judge_trace(ctx, trace, source, kd, totals, max_events=maxev)
    try:
        selftest(ctx, keep[0], kd)
    except lib.ToolError:
        # on a tree that already violates the property the self-test may find no clean event to corrupt;
        # the verdict (exit 1) must not be turned into a tool error by that
        if not ctx.violations:
            raise
        ctx.cov["binding_selftest"] = {"skipped": "violations present"}
    ctx.cov["traces_validated_against_impl"] = total
    ctx.cov["evaluations"] = totals.get("builds", 0)
    ctx.cov["distinct_nontrivial"] = distinct
    ctx.cov["queries_judged"] = totals.get("queries", 0)
    ctx.cov["bytes_read_by_tla_reader"] = totals.get("bytes_read", 0)
    ctx.cov["builder_refusals"] = totals.get("refusals", 0)
    ctx.cov["unspecified_events"] = totals.get("unspec_events", 0)
    ctx.cov["operations_executed"] = opcount
    ctx.cov["exhaustive"] = True
    ctx.cov["exhaustive_scope"] = ("the TLC families (every operation sequence of the listed depth from the empty builder / from every "
                                   "prefill of 0..17 files x membership pattern, over all positions) and the deterministic sweep of file "
                                   "counts 0..70 are complete; the random tier is not")
    if totals.get("builds", 0) == 0:
        raise lib.ToolError("no build event was judged")
    ctx.assumptions += ["TLC and the CommunityModules JSON reader are trusted; the driver's projection (indices returned by the query "
                        "API, sizes split into 24-bit halves, the file id read from the first two key bytes) is trusted",
                        "tag names are unique within a manifest (documented precondition of add_tag); programs never add a name twice",
                        "a builder may refuse only what the container cannot express (a size wider than its field; a size-manifest "
                        "tag naming a position no entry fills); such refusals conform and are counted as builder_refusals",
                        "the answer to a query with no tag names is left open (install answers none, download answers all)",
                        "install manifests: version 1 only (the builder cannot produce version 2)"]
    return lib.finish(ctx, "model_checking",
                      rule="programs = builder programs enumerated by TLC from Manifest.tla (history variable) run on every listed "
                           "container kind, the deterministic 0..70 sweep and seeded random programs; evaluations = build events "
                           "(serialise + re-parse + all queries) judged; distinct = distinct program texts (md5); non-trivial = a "
                           "file is associated with a tag and a build follows")
