"""Per-property registration data; bin/mkmanifest turns this into MANIFEST.json."""
CHECKS = {
 "C17": dict(
  level="model_checking",
  text="TLC enumerates every operation sequence up to depth 4-6 per capacity 0-3 over 3-4 keys (incl. the all-zero key) from the property-level spec Lru.tla, checks the design invariants on it, and every enumerated program is executed on the real LruManager; each event (result + order/len/membership/generations/files read back through the public API) is judged by the trace monitor T_Lru that reuses the spec's operators. Seeded random long histories with capacities up to 64 go through the same monitor.",
  note="Trusted: TLC, the CommunityModules JSON reader, the driver's projection (for_each_entry/contains/len/dir listing). Bounded: depth and capacities above are exhaustive; larger ones sampled.",
  technique="TLA+ spec + TLC program enumeration replayed on the real code + TLC trace validation (total resynchronising monitor)",
  design_ref="DESIGN.md §5 C17", engine="lru"),
}
PENDING_REASON = "check not built yet (planned in DESIGN.md §5; this list shrinks as checks land) - not claimed until its quick tier is green on the unchanged tree"
NOT_APPLICABLE = {}
