"""C07 - integrity checks reject every corruption of what they protect.

spec/Integrity.tla defines, from the bytes of an undamaged artifact, which byte ranges are covered by which
check value (encoding-table pages, archive-index footer, LRU checkpoint file, update-section entries, local
entry headers, V1 MIME responses), the judgement rule (a fault is judged iff it changes a covered byte and
leaves that byte's check value in place) and the ValidatedCache machine.

MC_Integrity (TLC): (art) checks on abstract artifacts that an ideal loader never breaks the rule and
enumerates <<kind, variant, loader, fault class, region class>>; (cache) checks the ideal validated cache and
enumerates every operation sequence of a bounded depth that ends in a validating read (binding G).
drv_integrity builds the artifacts with the real builders, applies EVERY single-bit flip, substitutions, every
truncation length and extensions, loads with the real loaders; runs the cache programs on
ContentAddressedCache / MultiLayerCacheImpl with the backing store damaged in between; calls the validation
functions.  T_Integrity (TLC) judges every recorded verdict (bindings T and E: regions from the recorded bytes,
MD5 / lookup3 by the TLA+ definitions).
"""
import glob, hashlib, json, os, time
from concurrent.futures import ThreadPoolExecutor
from . import lib

PROP = "C07"
MODULE_MC = "MC_Integrity"
MODULE_T = "T_Integrity"
DRV = "drv_integrity"
COUNTERS = ["faults", "judged", "judged_rejected", "unjudged_accepted", "unjudged_accepted_altered", "panics", "huge_allocs",
            "produce_checked", "val_true", "val_false", "cache_events", "gets_valid", "gets_refused", "gets_refused_corrupt",
            "puts_ok", "puts_refused", "damages", "cac_corrupt_left_in_place", "gone_after_checked", "races", "races_parked", "races_refused", "runs_art", "runs_cache", "runs_val"]
# counters that mean "the machinery could not decide" (exit 2, never a verdict)
INCONCLUSIVE = ["spec_mismatch", "malformed_artifact", "baseline_rejected", "table_mismatch", "coverage_gap"]
MC_BASE = {"SecondLook": '"none"', "Family": '"art"', "Rule": '"spec"', "Tier": '"quick"', "MaxN": 3, "Comp": '"ml"', "Layers": '"d"', "Hooks": '"md5"', "Keys": '{"a"}',
           "Vals": "{v1, v2}", "Hows": '{"flip"}', "D": 0}


# --------------------------------------------------------------------------- known findings
def known(ctx):
    """Known (not fixed) findings of C07: KNOWN_FINDINGS.json plus findings.d/F07*.json (the former is regenerated
    from the latter by bin/mkmanifest; reading both keeps the check independent of when that ran)."""
    ids = set(lib.known_ids(ctx, PROP))
    listed = {f["id"] for f in ctx.known.get("findings", [])}
    for p in sorted(glob.glob(os.path.join(lib.ROOT, "findings.d", "F07*.json"))):
        f = json.load(open(p))
        if f.get("property") != PROP:
            continue
        if f.get("status", "known") == "known":
            ids.add(f["id"])
            if f["id"] not in listed:
                ctx.known.setdefault("findings", []).append(f)
        else:
            ids.discard(f["id"])
    # development aid (trying a fix in a scratch worktree, VERIF_REPO=...): judge as if these findings were fixed
    ids -= set(os.environ.get("VERIF_C07_ASSUME_FIXED", "").split(","))
    return sorted(ids)


# --------------------------------------------------------------------------- programs
def program_of(evs):
    """The program of a run, rebuilt from its recorded events (for replay files)."""
    if not evs:
        return None
    h = evs[0]
    if h.get("part") == "art":
        return {k: h[k] for k in ("part", "kind", "variant", "loader", "fault", "stride", "edge")}
    if h.get("part") == "conc":
        return h["prog"]
    if h.get("part") == "val":
        return {"part": "val", "cases": [{"api": e["api"], "n": e["n"], "rel": e["rel"]} for e in evs[1:] if e.get("op") == "validate"]}
    ops = [{k: v for k, v in e.items() if k not in ("res", "obs", "seq", "vc", "msg")} for e in evs[1:] if e.get("op") != "hang"]
    p = {k: h[k] for k in ("part", "comp", "kinds", "hooks", "keys", "strategy")}
    p["ops"] = ops
    if any(str(o.get("v", "")).startswith("big") for o in ops):
        p["big"] = True
    return p


def slim(ev, cap=24):
    if isinstance(ev, dict):
        return {k: slim(v, cap) for k, v in ev.items()}
    if isinstance(ev, list):
        if len(ev) > cap and all(isinstance(x, int) for x in ev):
            return ev[:cap] + [f"... {len(ev) - cap} more"]
        return [slim(x, cap) for x in ev[:cap]] + ([f"... {len(ev) - cap} more"] if len(ev) > cap else [])
    return ev


def write_lines(path, objs):
    with open(path, "w") as f:
        for o in objs:
            f.write(json.dumps(o, separators=(",", ":")) + "\n")
    return path


def write_tcfg(ctx, kd):
    cfg = ctx.path("t_integrity.cfg")
    lib.write_cfg(cfg, {"KnownDeviations": lib.tla_set(kd)}, "TInit", "TNext", invariants=["Done"])
    return cfg


def judge_trace(ctx, trace, source, kd, totals, max_events=None):
    cfg = write_tcfg(ctx, kd)
    with open(trace) as f:
        n = sum(1 for _ in f)
    max_events = max_events or min(250000, max(150, n // (2 * lib.NCPU) + 1))
    v = lib.judge(ctx, MODULE_T, cfg, trace, max_events=max_events, heap="3g")
    for k, val in v.items():
        if isinstance(val, int) and k not in ("events", "chunks"):
            totals[k] = totals.get(k, 0) + val
    ctx.stage("judge", source=source, events=v["events"], violations=len(v["violations"]), deviations=len(v["deviations"]),
              wall_s=v["wall_s"], **{k: v.get(k, 0) for k in COUNTERS + INCONCLUSIVE if v.get(k, 0)})
    lib.classify_trace(ctx, v, trace, source, program_of=program_of)
    bad = {k: v.get(k, 0) for k in INCONCLUSIVE if v.get(k, 0)}
    # a judged fault that was accepted is a verdict even when the artifact's check value is not what the format says
    # (a checksum that covers less than it should shows up as both); without such a verdict the run is inconclusive
    if bad and not ctx.violations:
        raise lib.ToolError(f"{source}: the monitor could not decide ({bad}): an artifact does not have the format the "
                            "specification describes, the undamaged artifact was not accepted by its own loader, or a run "
                            "did not report every position it had to visit")
    return v


def execute(ctx, name, progs, kd, totals, shards=None, keep=False, max_events=None):
    n = len(lib.read_lines(progs))
    trace = ctx.path("trace_" + "".join(c if c.isalnum() else "_" for c in name) + ".ndjson")
    d = lib.run_sharded(ctx, DRV, progs, trace, shards=shards or min(12, lib.NCPU), timeout=2400)
    ctx.stage("run", source=name, programs=d.get("programs"), events=d.get("events"), hangs=d.get("hangs"), wall_s=d["wall_s"])
    if d.get("programs") != n:
        raise lib.ToolError(f"driver executed {d.get('programs')} of {n} programs")
    if len(ctx.cov["samples"]) < 6:
        ls = lib.read_lines(trace)
        if ls:
            s, e = lib.run_of_line(ls, max(1, int(len(ls) * 0.41)))
            ctx.cov["samples"].append({"source": name, "trace": [slim(json.loads(x)) for x in ls[s:e]][:4]})
    v = judge_trace(ctx, trace, name, kd, totals, max_events=max_events)
    if not keep:
        os.remove(trace)
    return trace, n, v


# --------------------------------------------------------------------------- stages
def mc_art(ctx, tier):
    """TLC on abstract artifacts: rule soundness + enumeration of <<kind, variant, loader, fault, region class>>."""
    cfg = ctx.path("mc_art.cfg")
    lib.write_cfg(cfg, dict(MC_BASE, Family='"art"', Tier=f'"{tier}"', MaxN=3), "MCInit", "MCNext", symmetry="Sym",
                  constraints=["Constr"], invariants=["AbsBaseline", "AbsRuleSound", "ArtEmit"])
    out = ctx.path("mc_art.ndjson")
    r = lib.tlc(ctx, MODULE_MC, cfg, tagged_out={"PROGRAM": out}, timeout=1500)
    ctx.cov["states"] += r["distinct"]
    ctx.cov["transitions"] += r["generated"]
    rows = {l for l in lib.read_lines(out)}
    rows = [json.loads(l) for l in sorted(rows)]
    ctx.stage("mc", family="art", distinct_states=r["distinct"], generated=r["generated"], rows=len(rows), wall_s=r["wall_s"])
    os.remove(out)
    return rows


def art_programs(rows, tier):
    seen, progs = set(), []
    produced = set()
    for r in rows:
        key = (r["kind"], r["variant"], r["loader"], r["fault"])
        if key in seen:
            continue
        seen.add(key)
        # every position of every artifact; only the two-chunk archive index (thorough) is sampled in its data section
        stride, edge = (8, 256) if (r["kind"], r["variant"]) == ("aidx", "v3") else (1, 0)
        if (r["kind"], r["variant"]) not in produced:
            produced.add((r["kind"], r["variant"]))
            progs.append({"part": "art", "kind": r["kind"], "variant": r["variant"], "loader": r["loader"], "fault": "produce", "stride": 1, "edge": 0})
        progs.append({"part": "art", "kind": r["kind"], "variant": r["variant"], "loader": r["loader"], "fault": r["fault"],
                      "stride": stride, "edge": edge})
    return progs


def mc_conc(ctx, layers, hooks):
    """The validating read look by look with one operation of another user at any point: ValidatedOnly on every
    interleaving of the design at HEAD; the realisable <<placement, writer operation, looks before it>> as programs."""
    cfg = ctx.path(f"mc_conc_{layers}_{hooks}.cfg")
    lib.write_cfg(cfg, dict(MC_BASE, Family='"conc"', Layers=f'"{layers}"', Hooks=f'"{hooks}"', D=40), "MCInit", "MCNext",
                  constraints=["Constr"], invariants=["ValidatedOnly", "ConcEmit"])
    out = ctx.path(f"prog_conc_{layers}_{hooks}.ndjson")
    r = lib.tlc(ctx, MODULE_MC, cfg, tagged_out={"PROGRAM": out}, timeout=900, workers=2)
    progs = sorted(set(lib.read_lines(out)))
    open(out, "w").write("".join(l + "\n" for l in progs))
    ctx.stage("mc", family="conc", layers=layers, hooks=hooks, distinct_states=r["distinct"], generated=r["generated"],
              programs=len(progs), wall_s=r["wall_s"])
    return out, len(progs), r


def conc_witness(ctx):
    """A second pass over the faster layers that returns what it finds unhashed (SecondLook = "unvalidated") must
    violate ValidatedOnly in the model - only on an interleaving, never sequentially."""
    cfg = ctx.path("mc_conc_witness.cfg")
    lib.write_cfg(cfg, dict(MC_BASE, Family='"conc"', Layers='"md"', SecondLook='"unvalidated"', D=40), "MCInit", "MCNext",
                  constraints=["Constr"], invariants=["ValidatedOnly"])
    r = lib.tlc(ctx, MODULE_MC, cfg, timeout=900, expect_violation=True, workers=1)
    ok = "ValidatedOnly" in r["invariant_violated"]
    ctx.cov["unvalidated_second_look_refuted_in_model"] = ok
    if not ok:
        raise lib.ToolError("the model of an unvalidated second look does not violate ValidatedOnly")


def mc_cache(ctx, name, comp, layers, hooks, depth, hows, keys=("a",)):
    cfg = ctx.path(f"mc_{name}.cfg")
    lib.write_cfg(cfg, dict(MC_BASE, Family='"cache"', Comp=f'"{comp}"', Layers=f'"{layers}"', Hooks=f'"{hooks}"', D=depth,
                            Hows=lib.tla_set(hows), Keys=lib.tla_set(keys)), "MCInit", "MCNext", symmetry="Sym", constraints=["Constr"],
                  invariants=["SafeGet", "PutSafe", "GoneAfter", "CacheEmit"])
    out = ctx.path(f"prog_{name}.ndjson")
    r = lib.tlc(ctx, MODULE_MC, cfg, tagged_out={"PROGRAM": out}, timeout=1500)
    ctx.cov["states"] += r["distinct"]
    ctx.cov["transitions"] += r["generated"]
    n = r["counts"]["PROGRAM"]
    ctx.stage("mc", family=name, comp=comp, layers=layers, hooks=hooks, depth=depth, distinct_states=r["distinct"],
              generated=r["generated"], programs=n, wall_s=r["wall_s"])
    return out, n


def rule_witness(ctx):
    """The judgement rule is as wide as it can be: with Rule = "wide" (every truncation that removes a covered byte
    is judged, even when the check value is cut off with it) TLC must refute AbsRuleSound on the IDEAL loader - the
    model-level reason why such truncations (a V1 response cut before its checksum line) are recorded, not judged."""
    cfg = ctx.path("mc_art_wide.cfg")
    lib.write_cfg(cfg, dict(MC_BASE, Family='"art"', Rule='"wide"', MaxN=2), "MCInit", "MCNext", symmetry="Sym",
                  constraints=["Constr"], invariants=["AbsBaseline", "AbsRuleSound"])
    r = lib.tlc(ctx, MODULE_MC, cfg, timeout=900, expect_violation=True, workers=1)
    ok = "AbsRuleSound" in r["invariant_violated"]
    ctx.cov["widened_rule_refuted_on_ideal_loader"] = ok
    if not ok:
        raise lib.ToolError("the widened judgement rule is not refuted by the ideal loader: the model no longer explains the rule")


def val_program():
    cases = [{"api": a, "n": n, "rel": r}
             for a in ("md5_hooks", "md5_on_get", "ngdp_hooks", "ngdp_batch", "new_validated", "if_needed", "with_hooks")
             for n in (0, 1, 2, 55, 56, 57, 63, 64, 65, 119, 120, 128, 160)
             for r in ("match", "flip", "other", "trunc")]
    return {"part": "val", "cases": cases}


def big_programs(quick):
    ops = [{"op": "put_val", "k": "a", "v": "big1", "ck": "v1"}, {"op": "get_val", "k": "a", "ck": "v1"},
           {"op": "put_val", "k": "a", "v": "v2", "ck": "v1"}, {"op": "get_val", "k": "a", "ck": "v1"},
           {"op": "put_raw", "k": "a", "v": "big2", "layer": 0}, {"op": "get_val", "k": "a", "ck": "v2"}]
    ps = [{"part": "cache", "comp": "ml", "kinds": ["mem"], "hooks": "md5", "keys": ["a"], "strategy": "on_hit", "big": True, "ops": ops}]
    if not quick:
        ps.append(dict(ps[0], hooks="ngdp", kinds=["mem", "mem"]))
    return ps


# --------------------------------------------------------------------------- replay / self-test
def replay(ctx, kd):
    obj = json.load(open(ctx.replay))
    prog = obj.get("program") or obj.get("witness", {}).get("program")
    if prog is None:
        raise lib.ToolError("replay file has no program")
    p = write_lines(ctx.path("replay_prog.ndjson"), [prog])
    trace = ctx.path("replay_trace.ndjson")
    lib.run_driver(DRV, ["--programs", p, "--out", trace])
    v = judge_trace(ctx, trace, "replay", kd, {})
    for line in lib.read_lines(trace):
        print(json.dumps(slim(json.loads(line), 40), separators=(",", ":")))
    print(json.dumps(v))
    for fid in sorted({d[1] for d in v["deviations"]}):
        print(f"KNOWN-FINDING: property={PROP} {fid} reproduced by this replay")
    return 1 if v["violations"] else 0


def selftest(ctx, kd):
    """Binding self-test on a small trace of all three parts: corrupt one logged field / drop one event ->
    the monitor must flag exactly that line."""
    progs = [{"part": "art", "kind": "lru", "variant": "v1", "loader": "deserialize", "fault": "flip", "stride": 1, "edge": 0},
             {"part": "art", "kind": "enc", "variant": "v1", "loader": "parse", "fault": "trunc", "stride": 1, "edge": 0},
             {"part": "val", "cases": [{"api": "md5_hooks", "n": 5, "rel": "match"}, {"api": "if_needed", "n": 5, "rel": "flip"}]},
             {"part": "cache", "comp": "cac_disk", "kinds": ["disk"], "hooks": "ngdp", "keys": ["v1", "v2"], "strategy": "on_hit",
              "ops": [{"op": "put_val", "k": "v1", "v": "v1", "ck": "v1"}, {"op": "get_val", "k": "v1", "ck": "v1"},
                      {"op": "corrupt", "k": "v1", "how": "flip"}, {"op": "get_val", "k": "v1", "ck": "v1"}]},
             {"part": "cache", "comp": "ml", "kinds": ["disk"], "hooks": "md5", "keys": ["a"], "strategy": "on_hit",
              "ops": [{"op": "put_val", "k": "a", "v": "v1", "ck": "v1"}, {"op": "corrupt", "k": "a", "how": "trunc"},
                      {"op": "get_val", "k": "a", "ck": "v1"}, {"op": "get_val", "k": "a", "ck": "v1"}]}]
    p = write_lines(ctx.path("selftest_prog.ndjson"), progs)
    trace = ctx.path("selftest_trace.ndjson")
    lib.run_driver(DRV, ["--programs", p, "--out", trace])
    lines = lib.read_lines(trace)
    cfg = write_tcfg(ctx, kd)

    def write(name, ls):
        path = ctx.path(name)
        open(path, "w").write("\n".join(ls) + "\n")
        return path

    base = lib.tlc_trace(ctx, MODULE_T, cfg, write("selftest_0.ndjson", lines), heap="2g")
    if base["violations"] or base["deviations"]:
        raise lib.ToolError(f"self-test trace is not clean: {base['violations']} {base['deviations']}")
    evs = [json.loads(l) for l in lines]

    def idx(pred):
        return next(i for i, e in enumerate(evs) if pred(e))

    muts = {}
    # (a1) a judged flip reported as accepted
    i = idx(lambda e: e.get("op") == "flip" and 30 in e["ps"])
    e = json.loads(lines[i]); e["v"][e["ps"].index(30)][3] = 2
    muts["accepted_flip_in_protected_region_flagged"] = (i, e)
    # (a2) a judged truncation (inside the last page) reported as accepted with altered content
    i = max(j for j, e in enumerate(evs) if e.get("op") == "trunc")
    e = json.loads(lines[i]); e["v"][-1] = 3
    muts["accepted_truncation_flagged"] = (i, e)
    # (a3) validation function: result negated
    i = idx(lambda e: e.get("op") == "validate" and e["res"] == "true")
    e = json.loads(lines[i]); e["res"] = "false"
    muts["wrong_validation_result_flagged"] = (i, e)
    # (a4) a validated read: one byte of the returned content changed
    i = idx(lambda e: e.get("op") == "get_val" and "some" in e["res"])
    e = json.loads(lines[i]); e["res"]["some"]["b"][0] ^= 1
    muts["returned_bytes_not_matching_key_flagged"] = (i, e)
    # (a5) the corrupted entry still observed after the validating read that met it (multi-layer run)
    ml = idx(lambda e: e.get("op") == "new" and e.get("comp") == "ml")
    i = ml + 3
    e = json.loads(lines[i]); e["obs"] = json.loads(lines[i - 1])["obs"]
    muts["corrupted_entry_left_in_place_flagged"] = (i, e)
    jobs = {}
    for name, (i, e) in muts.items():
        ls = list(lines); ls[i] = json.dumps(e, separators=(",", ":"))
        path = write(f"selftest_{name}.ndjson", ls)
        jobs[name] = (lambda path=path, i=i: (i + 1) in lib.tlc_trace(ctx, MODULE_T, cfg, path, heap="2g")["violations"])
    # (b) drop one event inside a run
    i = idx(lambda e: e.get("op") == "flip" and e["seq"] == 2)
    ls = list(lines); del ls[i]
    pb = write("selftest_drop.ndjson", ls)
    jobs["drop_one_event_flagged"] = lambda: (i + 1) in lib.tlc_trace(ctx, MODULE_T, cfg, pb, heap="2g")["violations"]
    with ThreadPoolExecutor(max_workers=min(lib.NCPU, len(jobs))) as ex:
        futs = {k: ex.submit(f) for k, f in jobs.items()}
        res = {k: f.result() for k, f in futs.items()}
    ctx.cov["binding_selftest"] = res
    if not all(res.values()):
        raise lib.ToolError(f"binding self-test failed: {res}")


# --------------------------------------------------------------------------- main
def run(ctx):
    kd = known(ctx)
    bt = lib.build([DRV])
    if ctx.replay:
        return replay(ctx, kd)
    ctx.stage("build", wall_s=round(bt, 2))
    quick = ctx.quick
    tier = "quick" if quick else "thorough"
    totals = {}
    allhows = ["flip", "trunc", "swap", "empty", "extend"]
    if quick:
        plan = [("cac_mem", "cac_mem", "m", "ngdp", 4, allhows[:3]), ("cac_disk", "cac_disk", "d", "ngdp", 4, allhows[:3]),
                ("ml_d", "ml", "d", "md5", 4, allhows[:3]), ("ml_md", "ml", "md", "md5", 4, allhows[:2]),
                ("ml_mm", "ml", "mm", "md5", 3, ["flip"]), ("ml_d_ngdp", "ml", "d", "ngdp", 3, allhows),
                ("ml_md_nohooks", "ml", "md", "none", 3, ["flip"])]
        nrand, rlen = 150, 40
    else:
        plan = [("cac_mem", "cac_mem", "m", "ngdp", 5, allhows), ("cac_disk", "cac_disk", "d", "ngdp", 5, allhows),
                ("ml_d", "ml", "d", "md5", 6, allhows[:3]), ("ml_d_all", "ml", "d", "md5", 5, allhows),
                ("ml_md", "ml", "md", "md5", 5, allhows[:3]),
                ("ml_mm", "ml", "mm", "md5", 4, ["flip"]), ("ml_mmd", "ml", "mmd", "md5", 4, allhows[:2]),
                ("ml_md_2keys", "ml", "md", "md5", 4, allhows[:2], ("a", "b")),
                ("ml_d_ngdp", "ml", "d", "ngdp", 4, allhows), ("ml_md_nohooks", "ml", "md", "none", 4, allhows[:2])]
        nrand, rlen = 3000, 80

    # ---- TLC: abstract artifacts (rule soundness, fault classes), widened rule, cache machines - side by side
    with ThreadPoolExecutor(max_workers=max(2, min(lib.NCPU // 2, 6))) as ex:
        f_art = ex.submit(mc_art, ctx, tier)
        f_wide = ex.submit(rule_witness, ctx)
        f_cache = [ex.submit(mc_cache, ctx, *row) for row in plan]
        conc_plan = [("md", "md5"), ("dd", "md5"), ("mdd", "ngdp")] if quick else [("md", "md5"), ("md", "ngdp"), ("dd", "md5"), ("mdd", "md5"), ("mmd", "ngdp")]
        f_conc = [ex.submit(mc_conc, ctx, *row) for row in conc_plan]
        f_cw = ex.submit(conc_witness, ctx)
        rows = f_art.result()
        f_wide.result()
        cache_files = [f.result() for f in f_cache]
        for f in f_conc:
            path, n, r = f.result()
            ctx.cov["states"] += r["distinct"]
            ctx.cov["transitions"] += r["generated"]
            cache_files.append((path, n))
        f_cw.result()
    ctx.stage("mc_all", wall_s=round(time.time() - ctx.t0, 2))

    # ---- artifacts + validation functions: one trace
    progs = art_programs(rows, tier)
    vprog = val_program()
    p = write_lines(ctx.path("prog_art.ndjson"), progs + [vprog])
    execute(ctx, "artifacts and validation functions", p, kd, totals, shards=min(8, lib.NCPU), max_events=70)
    runs = len(progs) + 1
    # every judged class TLC enumerated must have been exercised on the real code
    must = sorted({(r["kind"], r["fault"], r["cls"]) for r in rows if r["judged"]})
    missing = [m for m in must if not totals.get("cls_%s_%s_%s" % m)]
    ctx.cov["judged_classes"] = {"enumerated_by_tlc": len(must), "exercised_on_real_code": len(must) - len(missing)}
    ctx.cov["fault_classes"] = {k[4:]: val for k, val in sorted(totals.items()) if k.startswith("cls_")}
    if missing:
        raise lib.ToolError(f"judged classes never exercised on the real code: {missing}")
    distinct = {hashlib.md5(json.dumps(c, sort_keys=True).encode()).digest() for c in vprog["cases"]}

    # ---- validating caches: TLC-enumerated programs, the value above the threshold, long seeded programs: one trace
    cprog = ctx.path("prog_cache.ndjson")
    cache_runs = 0
    with open(cprog, "w") as out:
        for path, n in cache_files:
            for l in lib.read_lines(path):
                out.write(l + "\n")
                distinct.add(hashlib.md5(l.encode()).digest())
            cache_runs += n
            os.remove(path)
        for bp in big_programs(quick):
            l = json.dumps(bp, separators=(",", ":"))
            out.write(l + "\n")
            distinct.add(hashlib.md5(l.encode()).digest())
            cache_runs += 1
    trace = ctx.path("trace_cache.ndjson")
    d = lib.run_sharded(ctx, DRV, cprog, trace, shards=min(12, lib.NCPU), timeout=2400)
    ctx.stage("run", source="cache programs (MC_Integrity, 100 MiB value)", programs=d.get("programs"), events=d.get("events"),
              hangs=d.get("hangs"), wall_s=d["wall_s"])
    if d.get("programs") != cache_runs:
        raise lib.ToolError(f"driver executed {d.get('programs')} of {cache_runs} programs")
    rtrace = ctx.path("trace_random.ndjson")
    dump = ctx.path("prog_random.ndjson")
    d = lib.run_driver(DRV, ["--random", nrand, "--len", rlen, "--out", rtrace, "--dump-programs", dump], env={"VERIF_SEED": ctx.seed}, timeout=2400)
    ctx.stage("run", source=f"random seed={ctx.seed}", programs=d.get("programs"), events=d.get("events"), wall_s=d["wall_s"])
    if d.get("programs") != nrand:
        raise lib.ToolError(f"driver executed {d.get('programs')} of {nrand} random programs")
    distinct |= {hashlib.md5(l.encode()).digest() for l in lib.read_lines(dump)}
    cache_runs += nrand
    ls = lib.read_lines(trace)
    for frac in (0.07, 0.55, 0.93):
        s_, e_ = lib.run_of_line(ls, max(1, int(len(ls) * frac)))
        ctx.cov["samples"].append({"source": "cache program (MC_Integrity)", "trace": [slim(json.loads(x)) for x in ls[s_:e_]]})
    del ls
    with open(trace, "a") as out, open(rtrace) as f:
        for l in f:
            out.write(l)
    os.remove(rtrace)
    judge_trace(ctx, trace, f"cache programs (MC_Integrity, 100 MiB value, random seed={ctx.seed})", kd, totals)
    os.remove(trace)
    runs += cache_runs

    t = time.time()
    selftest(ctx, kd)
    ctx.stage("selftest", wall_s=round(time.time() - t, 2), **ctx.cov["binding_selftest"])

    # ---- anti-vacuity: the interesting classes were really met on the real code
    for k in ("judged", "judged_rejected", "unjudged_accepted", "produce_checked", "val_true", "val_false", "gets_valid",
              "gets_refused_corrupt", "puts_ok", "puts_refused", "damages", "gone_after_checked", "races_parked", "races_refused"):
        if not totals.get(k):
            raise lib.ToolError(f"vacuous run: no record of class {k}")
    ctx.cov["counters"] = {k: totals.get(k, 0) for k in COUNTERS}
    ctx.cov["information_only"] = {
        "accepted_faults_outside_the_protected_regions": totals.get("unjudged_accepted", 0),
        "of_which_with_altered_logical_content": totals.get("unjudged_accepted_altered", 0),
        "loads_that_panicked": totals.get("panics", 0),
        "loads_that_requested_2GiB_or_more": totals.get("huge_allocs", 0),
        "content_addressed_cache_left_corrupt_entry_in_place": totals.get("cac_corrupt_left_in_place", 0)}
    ctx.cov["traces_validated_against_impl"] = runs
    nval = totals.get("val_true", 0) + totals.get("val_false", 0)
    ctx.cov["evaluations"] = totals.get("faults", 0) + cache_runs + nval
    ctx.cov["distinct_nontrivial"] = totals.get("faults", 0) + len(distinct)
    ctx.cov["exhaustive"] = True
    ctx.cov["exhaustive_scope"] = ("every single-bit flip of every byte, 3-4 substitutions per byte (all 255 for the 24- and 30-byte "
                                   "artifacts), every truncation length and 41 extensions of every listed artifact (the two-chunk "
                                   "archive index of the thorough tier is sampled in its data section); every operation sequence of "
                                   "the listed depth per cache configuration that ends in a validating read, modulo renaming of the "
                                   "two values.  Seeded random cache programs are not exhaustive")
    ctx.assumptions += [
        "TLC, the CommunityModules Json reader, and the TLA+ transcriptions of MD5 (spec/lib/Md5.tla) and lookup3 (spec/Lookup3.tla), both validated by C09, and of SHA-256 (in spec/Integrity.tla, compared with four reference digests by hand) are trusted",
        "the driver's rendering of the loaded logical content (Debug text) only distinguishes 'accepted, same' from 'accepted, altered'; no verdict except the guard of F07a depends on it",
        "contents above 160 bytes (the 100 MiB value) are judged by the MD5 the driver computed with the md5 crate",
        "a truncation that removes the check value itself, a fault in the check value, its label or bytes no checksum covers is recorded, not judged (DESIGN.md 5 C07: protected is an under-approximation)",
        "a panic on a judged fault is not a clean rejection (F07c); a panic or an oversized allocation on an unjudged fault is counted for information only",
    ]
    return lib.finish(ctx, "fault_enumeration",
                      rule="evaluations = concrete faults applied to an artifact and loaded by a real loader (a fault = one bit flip, one byte "
                           "substitution, one truncation length or one extension of one <<artifact kind, variant, loader>> enumerated by TLC from "
                           "MC_Integrity) + cache programs executed (operation sequences enumerated by TLC, seeded ones, the 100 MiB program) + "
                           "validation-function cases.  distinct: the faults of a run differ by construction and the monitor checks it (positions "
                           "ascending within a report, substituted byte different from the original, number of judged positions reported = number "
                           "the specification says the run visits), runs differ in artifact, loader or class; cache programs and validation cases "
                           "are counted by distinct text (md5).  All are non-trivial: every fault changes the artifact, every cache program ends in "
                           "a validating read or is a seeded history of 40+ operations")
