"""Shared machinery for bin/check: build -> TLC(mc) -> driver -> TLC(trace) -> classify -> evidence.

Exit codes of a check: 0 held (known findings printed), 1 VIOLATION, 2 tool failure / inconclusive.
"""
import json, os, re, shutil, subprocess, sys, time, hashlib, itertools
from concurrent.futures import ThreadPoolExecutor

ROOT = os.path.dirname(os.path.dirname(os.path.abspath(__file__)))
SPEC = os.path.join(ROOT, "spec")
REPO = os.environ.get("VERIF_REPO", "/repo").rstrip("/")
# VERIF_REPO=<scratch worktree of /repo>: development aid (trying a fix or a seeded change without touching
# /repo): the harness is mirrored next to that worktree with its path dependencies rewritten. Registered
# commands never set it, so they always build /repo itself.
HARNESS = os.path.join(ROOT, "harness") if REPO == "/repo" else os.path.join(REPO, ".verif-harness")
JAR = "/opt/veriftools/tla/tla2tools.jar:/opt/veriftools/tla/CommunityModules-deps.jar"
NCPU = int(os.environ.get("VERIF_WORKERS", "0")) or min(os.cpu_count() or 8, 16)


def is_new(line):
    return '"op":"new"' in line


class ToolError(Exception):
    pass


def log(*a):
    print(*a, file=sys.stderr, flush=True)


# --------------------------------------------------------------------------- context
class Ctx:
    def __init__(self, pid_, tier, seed, replay=None, selftest=False):
        self.id = pid_
        self.tier = tier
        self.seed = seed
        self.replay = replay
        self.selftest = selftest
        self.t0 = time.time()
        self.work = os.path.join(ROOT, ".work", f"{pid_}.{os.getpid()}")
        shutil.rmtree(self.work, ignore_errors=True)
        os.makedirs(self.work)
        self.known = load_known()
        self.violations = []          # dicts: {what, replay}
        self.known_seen = {}          # finding id -> count
        self.cov = {"states": 0, "transitions": 0, "traces_validated_against_impl": 0,
                    "evaluations": 0, "distinct_nontrivial": 0, "samples": [],
                    "stages": [], "deviations_observed": {}, "actions_never_taken": []}
        self.assumptions = []

    @property
    def quick(self):
        return self.tier == "quick"

    def path(self, name):
        return os.path.join(self.work, name)

    def cleanup(self):
        shutil.rmtree(self.work, ignore_errors=True)

    def stage(self, name, **kw):
        d = {"stage": name, **kw}
        self.cov["stages"].append(d)
        log(f"[{self.id}] {name}: " + ", ".join(f"{k}={v}" for k, v in kw.items()))


def load_known():
    p = os.path.join(ROOT, "KNOWN_FINDINGS.json")
    if not os.path.exists(p):
        return {"findings": [], "fixed": []}
    return json.load(open(p))


def known_ids(ctx, prop):
    """ids of findings listed as known (not fixed) for a property -> KnownDeviations constant."""
    return sorted(f["id"] for f in ctx.known.get("findings", []) if f["property"] == prop and f.get("status", "known") == "known")


def tla_set(xs):
    return "{" + ", ".join('"%s"' % x for x in xs) + "}"


# --------------------------------------------------------------------------- build
def build(bins, features=None):
    """(Re)build the drivers from /repo's current working tree."""
    if REPO != "/repo":
        src_h = os.path.join(ROOT, "harness")
        os.makedirs(HARNESS, exist_ok=True)
        subprocess.run(["rsync", "-a", "--delete", "--exclude", "target", "--exclude", "Cargo.lock", src_h + "/", HARNESS + "/"], check=True)
        ct = open(os.path.join(src_h, "Cargo.toml")).read().replace("/repo/crates/", REPO + "/crates/")
        open(os.path.join(HARNESS, "Cargo.toml"), "w").write(ct)
    lock = os.path.join(HARNESS, "Cargo.lock")
    src = os.path.join(REPO, "Cargo.lock")
    if not os.path.exists(lock):
        shutil.copy(src, lock)
    cmd = ["cargo", "build", "--release", "--offline"]
    for b in bins:
        cmd += ["--bin", b]
    if features:
        cmd += ["--features", ",".join(features)]
    env = dict(os.environ, CARGO_NET_OFFLINE="true")
    t = time.time()
    r = subprocess.run(cmd, cwd=HARNESS, env=env, stdout=subprocess.PIPE, stderr=subprocess.STDOUT, text=True)
    if r.returncode != 0:
        # a lock file that no longer matches (repo dependency change): refresh once
        shutil.copy(src, lock)
        r = subprocess.run(cmd, cwd=HARNESS, env=env, stdout=subprocess.PIPE, stderr=subprocess.STDOUT, text=True)
    if r.returncode != 0:
        log(r.stdout[-6000:])
        raise ToolError("cargo build failed")
    return time.time() - t


def bin_path(name):
    return os.path.join(HARNESS, "target", "release", name)


def run_driver(name, args, timeout=1800, env=None, stdin=None, check=True):
    e = dict(os.environ)
    if env:
        e.update({k: str(v) for k, v in env.items()})
    t = time.time()
    try:
        r = subprocess.run([bin_path(name)] + [str(a) for a in args], env=e, stdin=stdin,
                           stdout=subprocess.PIPE, stderr=subprocess.PIPE, text=True, timeout=timeout)
    except subprocess.TimeoutExpired:
        raise ToolError(f"driver {name} timed out after {timeout}s")
    if check and r.returncode != 0:
        log(r.stderr[-4000:])
        raise ToolError(f"driver {name} exited {r.returncode}")
    info = {}
    for line in r.stderr.splitlines()[::-1]:
        line = line.strip()
        if line.startswith("{"):
            try:
                info = json.loads(line)
                break
            except Exception:
                pass
    info["wall_s"] = round(time.time() - t, 2)
    info["returncode"] = r.returncode
    info["stdout"] = r.stdout
    info["stderr_tail"] = r.stderr[-2000:]
    return info


def run_sharded(ctx, name, progs_path, trace_path, extra_args=(), shards=8, timeout=1800, env=None,
                prog_flag="--programs", out_flag="--out"):
    """Run a driver over a program file in `shards` parallel processes; traces are concatenated in order.
    Returns merged info (sums of integer counters)."""
    lines = read_lines(progs_path)
    shards = max(1, min(shards, len(lines) // 200 + 1))
    per = (len(lines) + shards - 1) // shards
    parts = []
    for i in range(shards):
        chunk = lines[i * per:(i + 1) * per]
        if not chunk:
            continue
        pp = f"{progs_path}.s{i}"
        open(pp, "w").write("\n".join(chunk) + "\n")
        parts.append((pp, f"{trace_path}.s{i}"))

    def one(pt):
        return run_driver(name, [prog_flag, pt[0], out_flag, pt[1]] + list(extra_args), timeout=timeout, env=env, check=False)

    t = time.time()
    with ThreadPoolExecutor(max_workers=len(parts)) as ex:
        infos = list(ex.map(one, parts))
    merged = {"wall_s": round(time.time() - t, 2), "shards": len(parts)}
    for inf in infos:
        if inf["returncode"] not in (0,):
            log(inf["stderr_tail"])
            raise ToolError(f"driver {name} exited {inf['returncode']}")
        for k, v in inf.items():
            if isinstance(v, int) and k != "returncode":
                merged[k] = merged.get(k, 0) + v
    with open(trace_path, "w") as out:
        for pp, tp in parts:
            with open(tp) as f:
                shutil.copyfileobj(f, out)
            os.remove(tp)
            os.remove(pp)
    return merged


# --------------------------------------------------------------------------- TLC
def _prep_spec_dir(ctx, sub):
    """Copy all modules into one scratch dir (TLC resolves EXTENDS by directory)."""
    d = ctx.path(sub)
    os.makedirs(d, exist_ok=True)
    for base, _, files in os.walk(SPEC):
        for f in files:
            if f.endswith(".tla"):
                shutil.copy(os.path.join(base, f), os.path.join(d, f))
    return d


def write_cfg(path, constants, init, next_, invariants=(), constraints=(), symmetry=None, view=None,
              properties=(), specification=None, postcondition=None, action_constraints=(), deadlock=False):
    lines = []
    if constants:
        lines.append("CONSTANTS")
        for k, v in constants.items():
            lines.append(f"  {k} = {v}")
    if specification:
        lines.append(f"SPECIFICATION {specification}")
    else:
        lines.append(f"INIT {init}")
        lines.append(f"NEXT {next_}")
    if symmetry:
        lines.append(f"SYMMETRY {symmetry}")
    if view:
        lines.append(f"VIEW {view}")
    for i in invariants:
        lines.append(f"INVARIANT {i}")
    for p in properties:
        lines.append(f"PROPERTY {p}")
    for c in constraints:
        lines.append(f"CONSTRAINT {c}")
    for c in action_constraints:
        lines.append(f"ACTION_CONSTRAINT {c}")
    if postcondition:
        lines.append(f"POSTCONDITION {postcondition}")
    lines.append("CHECK_DEADLOCK " + ("TRUE" if deadlock else "FALSE"))
    open(path, "w").write("\n".join(lines) + "\n")


_uniq = itertools.count()
PRINT_RE = re.compile(r'^<<"([A-Z_]+)", (".*")>>$')


def tlc(ctx, module, cfg_path, workers=None, timeout=900, env=None, tagged_out=None, coverage=False,
        simulate=None, heap="8g", dfs=False, expect_violation=False):
    """Run TLC on spec/<...>/module.tla with cfg; returns dict with counts and tagged PrintT payloads.

    tagged_out: {TAG: file path} - payload JSON strings of PrintT(<<"TAG", ToJson(x)>>) are written one per line.
    Other tags are collected in result["tagged"][TAG] (list of decoded JSON values).
    """
    d = _prep_spec_dir(ctx, f"tlc_{module}_{next(_uniq)}")
    cfg_local = os.path.join(d, module + ".cfg")
    shutil.copy(cfg_path, cfg_local)
    workers = workers or min(NCPU, 16)
    opts = f"-Xss1g -Xmx{heap} -XX:+UseParallelGC"
    if dfs:
        opts += " -Dtlc2.tool.queue.IStateQueue=StateDeque"
    cmd = ["java"] + opts.split() + ["-cp", JAR, "tlc2.TLC", "-workers", str(workers), "-metadir", os.path.join(d, "states"),
           "-cleanup", "-noGenerateSpecTE", "-config", module + ".cfg"]
    if coverage:
        cmd += ["-coverage", "1"]
    if simulate:
        cmd += ["-simulate", simulate]
    cmd += [module + ".tla"]
    e = dict(os.environ)
    e.pop("JAVA_TOOL_OPTIONS", None)
    if env:
        e.update({k: str(v) for k, v in env.items()})
    t = time.time()
    outs = {k: open(v, "w") for k, v in (tagged_out or {}).items()}
    tagged = {}
    counts = {k: 0 for k in outs}
    other = []
    p = subprocess.Popen(cmd, cwd=d, env=e, stdout=subprocess.PIPE, stderr=subprocess.STDOUT, text=True, bufsize=1 << 20)
    try:
        import threading
        timer = threading.Timer(timeout, p.kill)
        timer.start()
        for line in p.stdout:
            m = PRINT_RE.match(line.rstrip("\n"))
            if m:
                tag = m.group(1)
                payload = json.loads(m.group(2))   # the TLA+ string literal -> python str (JSON text)
                if tag in outs:
                    outs[tag].write(payload + "\n")
                    counts[tag] += 1
                else:
                    try:
                        tagged.setdefault(tag, []).append(json.loads(payload))
                    except Exception:
                        tagged.setdefault(tag, []).append(payload)
            else:
                other.append(line)
                if len(other) > 20000:
                    del other[:10000]
        p.wait()
        timer.cancel()
    finally:
        for f in outs.values():
            f.close()
    wall = time.time() - t
    text = "".join(other)
    res = {"module": module, "wall_s": round(wall, 2), "returncode": p.returncode, "tagged": tagged,
           "counts": counts, "generated": 0, "distinct": 0, "text": text}
    m = re.search(r"(\d+) states generated, (\d+) distinct states found", text)
    if m:
        res["generated"], res["distinct"] = int(m.group(1)), int(m.group(2))
    m = re.search(r"The depth of the complete state graph search is (\d+)", text)
    if m:
        res["depth"] = int(m.group(1))
    res["invariant_violated"] = re.findall(r"Invariant (\S+) is violated", text)
    res["property_violated"] = "Temporal properties were violated" in text or bool(re.search(r"Action property \S+ is violated", text))
    res["deadlock"] = "Deadlock reached" in text
    res["finished"] = "Model checking completed" in text or "Finished in" in text
    if coverage:
        never = []
        for mm in re.finditer(r"^<(\w+) line (\d+), col \d+ to line \d+, col \d+ of module (\w+)>: (\d+):(\d+)", text, re.M):
            if int(mm.group(5)) == 0 and mm.group(1) not in ("Init",):
                never.append(f"{mm.group(3)}!{mm.group(1)}")
        res["actions_never_taken"] = sorted(set(never))
    shutil.rmtree(d, ignore_errors=True)
    if p.returncode in (-9, 137):
        raise ToolError(f"TLC timed out / was killed on {module} after {timeout}s")
    if p.returncode not in (0, 10, 11, 12, 13):
        log(text[-5000:])
        raise ToolError(f"TLC failed on {module} (rc={p.returncode})")
    if p.returncode != 0 and not expect_violation:
        log(text[-5000:])
        raise ToolError(f"TLC reports a violation of the *model* on {module} (rc={p.returncode}): {res['invariant_violated']}")
    return res


def tlc_trace(ctx, module, cfg_path, trace_path, timeout=900, heap="3g", env=None):
    """Judge one ndjson trace with a T_* module. Returns the VERDICT dict."""
    e = {"TRACE": trace_path}
    if env:
        e.update(env)
    r = tlc(ctx, module, cfg_path, workers=1, timeout=timeout, env=e, heap=heap, dfs=True)
    v = r["tagged"].get("VERDICT")
    if not v:
        log(r["text"][-4000:])
        raise ToolError(f"monitor {module} produced no VERDICT for {trace_path}")
    v = v[-1]
    v["wall_s"] = r["wall_s"]
    return v


def split_trace(path, out_prefix, is_boundary, max_events):
    """Split an ndjson trace at run boundaries into chunks of <= max_events (approximately)."""
    chunks = []
    cur = None
    n = 0
    idx = 0
    with open(path) as f:
        for line in f:
            if cur is None or (n >= max_events and is_boundary(line)):
                if cur:
                    cur.close()
                p = f"{out_prefix}.{idx}.ndjson"
                idx += 1
                cur = open(p, "w")
                chunks.append([p, 0])
                n = 0
            cur.write(line)
            n += 1
            chunks[-1][1] = n
    if cur:
        cur.close()
    return chunks


def judge(ctx, module, cfg_path, trace_path, is_boundary=is_new, max_events=120000,
          parallel=None, timeout=1200, heap="3g"):
    """Judge a (possibly large) trace in parallel chunks; returns merged verdict with global line numbers."""
    chunks = split_trace(trace_path, trace_path + ".part", is_boundary, max_events)
    parallel = parallel or min(NCPU, 16)
    offs = []
    o = 0
    for p, n in chunks:
        offs.append(o)
        o += n

    def one(i):
        return tlc_trace(ctx, module, cfg_path, chunks[i][0], timeout=timeout, heap=heap)

    with ThreadPoolExecutor(max_workers=parallel) as ex:
        vs = list(ex.map(one, range(len(chunks))))
    merged = {"events": 0, "violations": [], "deviations": [], "wall_s": 0.0, "chunks": len(chunks)}
    for i, v in enumerate(vs):
        merged["events"] += v["events"]
        merged["violations"] += [x + offs[i] for x in v["violations"]]
        merged["deviations"] += [[d[0] + offs[i], d[1]] for d in v["deviations"]]
        merged["wall_s"] = max(merged["wall_s"], v["wall_s"])
        for k, val in v.items():
            if k not in ("events", "violations", "deviations", "wall_s"):
                if isinstance(val, int):
                    merged[k] = merged.get(k, 0) + val
    if merged["events"] != o:
        raise ToolError(f"monitor consumed {merged['events']} of {o} events")
    for p, _ in chunks:
        os.remove(p)
    return merged


# --------------------------------------------------------------------------- traces / replay
def read_lines(path):
    with open(path) as f:
        return f.read().splitlines()


def run_of_line(lines, lineno, is_boundary=is_new):
    """(start, end) 0-based half-open range of the run containing 1-based line number."""
    i = lineno - 1
    s = i
    while s > 0 and not is_boundary(lines[s]):
        s -= 1
    e = i + 1
    while e < len(lines) and not is_boundary(lines[e]):
        e += 1
    return s, e


def save_replay(ctx, name, obj):
    d = os.path.join(ROOT, "replay")
    os.makedirs(d, exist_ok=True)
    p = os.path.join(d, f"{ctx.id}_{name}.json")
    json.dump(obj, open(p, "w"), indent=1)
    return p


def report_violation(ctx, what, replay_obj, name=None):
    name = name or f"v{len(ctx.violations)+1}"
    p = save_replay(ctx, name, replay_obj)
    ctx.violations.append({"what": what, "replay": p})
    print(f"VIOLATION property={ctx.id} replay={p}", flush=True)
    log(f"[{ctx.id}] VIOLATION: {what}")


def note_known(ctx, fid, n=1):
    ctx.known_seen[fid] = ctx.known_seen.get(fid, 0) + n


def classify_trace(ctx, verdict, trace_path, source, max_reports=5, program_of=None):
    """Turn a merged monitor verdict into VIOLATION lines / known-finding counts."""
    for _, fid in verdict["deviations"]:
        note_known(ctx, fid)
        ctx.cov["deviations_observed"][fid] = ctx.cov["deviations_observed"].get(fid, 0) + 1
    if not verdict["violations"]:
        return
    lines = read_lines(trace_path)
    seen_runs = set()
    for ln in verdict["violations"]:
        s, e = run_of_line(lines, ln)
        if s in seen_runs:
            continue
        seen_runs.add(s)
        if len(seen_runs) > max_reports:
            break
        evs = [json.loads(x) for x in lines[s:e]]
        prog = program_of(evs) if program_of else None
        report_violation(ctx, f"{source}: event {ln - s} of run at line {s+1} not explained by the specification",
                         {"property": ctx.id, "source": source, "program": prog, "offending_event_index": ln - s,
                          "trace": evs[: ln - s + 1], "explanation": "no action of the specification (ideal or listed deviation) explains this event, or a state invariant is false in the observed state"})
    ctx.cov["violating_runs"] = ctx.cov.get("violating_runs", 0) + len(seen_runs)


# --------------------------------------------------------------------------- evidence
def finish(ctx, level, extra=None, rule=""):
    for fid, n in sorted(ctx.known_seen.items()):
        f = next((x for x in ctx.known.get("findings", []) if x["id"] == fid), None)
        what = f["what"] if f else fid
        print(f"KNOWN-FINDING: property={ctx.id} {fid}: {what} (observed {n}x)", flush=True)
    cov = ctx.cov
    if rule:
        cov["rule"] = rule
    if extra:
        cov.update(extra)
    cov["samples"] = cov["samples"][:6]
    ev = {"property_id": ctx.id, "tier": ctx.tier, "seed": ctx.seed, "level": level, "coverage": cov,
          "assumptions": ctx.assumptions, "wall_s": round(time.time() - ctx.t0, 2), "violations": len(ctx.violations),
          "known_findings_observed": ctx.known_seen}
    os.makedirs(os.path.join(ROOT, "evidence"), exist_ok=True)
    json.dump(ev, open(os.path.join(ROOT, "evidence", f"{ctx.id}.json"), "w"), indent=1)
    ctx.cleanup()
    return 1 if ctx.violations else 0


def count_distinct(path, key=lambda line: line):
    s = set()
    n = 0
    with open(path) as f:
        for line in f:
            n += 1
            s.add(hashlib.md5(key(line).encode()).digest())
    return n, len(s)
