"""X03 - the four CASC containers and their composition (DynamicContainer + LRU tracker + residency container,
ResidencyContainer, StaticContainer, HardLinkContainer with its FD cache).

spec/Containers.tla composes Storage.tla (C04), Lru.tla (C17) and Residency.tla (C05) by INSTANCE and states the
interaction properties (module header).  MC_Containers: TLC checks the design invariants of the composed model and
enumerates every operation sequence of a depth per (component, family, prefix) as a program (binding G);
drv_containers executes the programs on the real containers; T_Containers judges every event (binding T).
Seeded random long histories (dyn, hl) go through the same monitor.
"""
import glob, json, os
from concurrent.futures import ThreadPoolExecutor
from . import lib

PROP = "X03"
MODULE_MC = "MC_Containers"
MODULE_T = "T_Containers"
ALL_DEVS = ["FX03a", "FX03b", "FX03c", "FX03d", "FX03e", "FX03f", "FX03g"]
COUNTERS = ["n_touch", "n_cutread", "n_exact", "n_denied", "n_hquery", "n_stale", "n_sexact", "n_rtrait"]
DROP = ("seq", "res", "rc", "obs", "kind", "n", "md5", "wmd5", "smd5", "end", "flen", "panic", "ro")


def own_findings(ctx):
    """findings.d/FX03*.json is the source (X03 is not a MANIFEST property; KNOWN_FINDINGS.json may or may not carry it)."""
    mine = [json.load(open(p)) for p in sorted(glob.glob(os.path.join(lib.ROOT, "findings.d", "FX03*.json")))]
    ctx.known["findings"] = [f for f in ctx.known.get("findings", []) if f.get("property") != PROP] + \
                            [f for f in mine if f.get("status", "known") == "known"]
    kd = lib.known_ids(ctx, PROP)
    if os.environ.get("VERIF_X03_KD") is not None:
        # development aid (like VERIF_REPO): pretend only these findings are listed, e.g. to see a fix turn the check
        # green without its deviation.  Registered commands never set it.
        kd = [x for x in os.environ["VERIF_X03_KD"].split(",") if x]
    return kd


def program_of(evs):
    if not evs or evs[0].get("op") != "new":
        return None
    h = evs[0]
    ops = []
    for e in evs[1:]:
        if e.get("op") == "hang":
            continue
        o = {k: v for k, v in e.items() if k not in DROP}
        if e.get("op") == "write" or h["comp"] == "static":
            o.pop("off", None)
        if e.get("op") == "reload":
            o["ro"] = e.get("ro", False)
        ops.append(o)
    prog = {"comp": h["comp"], "ops": ops}
    if h["comp"] == "dyn":
        prog.update(cap=h["cap"], lru=h["lru"], resm=h["resm"], mode=h["mode"], payloads=[p[:2] for p in h["pl"]])
    elif h["comp"] == "static":
        prog.update(payloads=[p[:2] for p in h["pl"]])
    elif h["comp"] == "res":
        prog.update(mode=h["mode"], keys=h["keys"])
    else:
        prog.update(mode=h["mode"], keys=h["keys"], obsq=h["obsq"], probe=h["sup"] == "true")
    return prog


def t_cfg(ctx, kd):
    cfg = ctx.path("t_containers.cfg")
    lib.write_cfg(cfg, {"KnownDeviations": lib.tla_set(kd), "LruCap": 0}, "TInit", "TNext", invariants=["Done"], view="View")
    return cfg


def judge_trace(ctx, trace, source, kd, totals):
    v = lib.judge(ctx, MODULE_T, t_cfg(ctx, kd), trace, max_events=25000)
    ndev = {fid: v.get("dev_" + fid, 0) for fid in ALL_DEVS if v.get("dev_" + fid, 0)}
    ctx.stage("judge", source=source, events=v["events"], violations=v.get("nviol", 0), deviations=ndev,
              wall_s=v["wall_s"], chunks=v["chunks"])
    totals["events"] += v["events"]
    for c in COUNTERS:
        totals[c] = totals.get(c, 0) + v.get(c, 0)
    for fid, n in ndev.items():
        lib.note_known(ctx, fid, n)
        ctx.cov["deviations_observed"][fid] = ctx.cov["deviations_observed"].get(fid, 0) + n
    lib.classify_trace(ctx, dict(v, deviations=[]), trace, source, program_of=program_of)
    return v


def count_ops(ctx, info):
    """operations the driver executed, by component and kind (counted by the driver)"""
    oc = ctx.cov.setdefault("ops_executed", {})
    for k, v in info.items():
        if k.startswith("n_") and isinstance(v, int):
            oc[k[2:]] = oc.get(k[2:], 0) + v


def tag_of(c):
    return "_".join(str(c[k]) for k in ("comp", "fam", "pre", "D", "cap", "resm", "lru", "fcap"))


def mc_one(ctx, c):
    """TLC on one configuration: design invariants + action property, every sequence of depth D printed as a program."""
    tag = tag_of(c)
    cfg = ctx.path(f"mc_{tag}.cfg")
    lib.write_cfg(cfg, {"KnownDeviations": "{}", "LruCap": c["cap"], "Comp": f'"{c["comp"]}"', "Family": f'"{c["fam"]}"',
                        "Pre": f'"{c["pre"]}"', "D": c["D"], "ResM": f'"{c["resm"]}"', "LruOn": "TRUE" if c["lru"] else "FALSE",
                        "FCap": c["fcap"]},
                  "MCInit", "MCNext", constraints=["Constr"], invariants=["Inv", "Emit"], properties=["FrozenProp"])
    progs = ctx.path(f"prog_{tag}.ndjson")
    r = lib.tlc(ctx, MODULE_MC, cfg, tagged_out={"PROGRAM": progs}, timeout=1500, workers=c.get("workers", 1), heap="4g")
    n = r["counts"]["PROGRAM"]
    if n == 0:
        raise lib.ToolError(f"MC_Containers printed no program for {tag}")
    return dict(tag=tag, progs=progs, n=n, distinct=r["distinct"], generated=r["generated"], wall_s=r["wall_s"])


def model_refutations(ctx):
    """Anti-vacuity of the design invariants: the FD cache as the code keeps it does not satisfy 'everything cached is
    true' (HCoherentStrict) - TLC must refute it (the counterexamples are FX03c / FX03d at the level of the model)."""
    cfg = ctx.path("mc_refute.cfg")
    lib.write_cfg(cfg, {"KnownDeviations": "{}", "LruCap": 0, "Comp": '"hl"', "Family": '"links"', "Pre": '"la"', "D": 2,
                        "ResM": '"off"', "LruOn": "FALSE", "FCap": 3},
                  "MCInit", "MCNext", constraints=["Constr"], invariants=["HCoherentStrict"])
    r = lib.tlc(ctx, MODULE_MC, cfg, timeout=600, workers=1, expect_violation=True)
    ok = "HCoherentStrict" in r["invariant_violated"]
    ctx.cov["model_refutes_strict_cache_coherence"] = ok
    if not ok:
        raise lib.ToolError("the code-shaped FD cache model no longer refutes HCoherentStrict (model out of date?)")
    return r


def cfgs(quick):
    def c(comp, fam, pre, D, cap=2, resm="rw", lru=True, fcap=3, workers=1):
        return dict(comp=comp, fam=fam, pre=pre, D=D, cap=cap, resm=resm, lru=lru, fcap=fcap, workers=workers)
    if quick:
        return [c("dyn", "modes", "wa", 3), c("res", "all", "none", 3), c("dyn", "trunc", "wab", 3), c("dyn", "trunc", "cut", 3),
                c("dyn", "lru", "none", 3, cap=2, resm="off"), c("dyn", "lru", "none", 3, cap=1, resm="off"),
                c("dyn", "lru", "none", 2, cap=0, resm="off"),
                c("dyn", "trunc", "cut", 2, resm="ro"), c("dyn", "trunc", "wab", 2, lru=False), c("dyn", "trunc", "wab", 2, resm="off"),
                c("res", "all", "saved", 2),
                c("static", "all", "wos", 3),
                c("hl", "links", "none", 2), c("hl", "links", "la", 2), c("hl", "trait", "unprobed", 2), c("hl", "trait", "none", 2),
                c("hl", "cache", "none", 3), c("hl", "cache", "qa", 3)]
    return [c("hl", "links", "none", 4, workers=4), c("dyn", "trunc", "none", 5, workers=2), c("dyn", "modes", "wa", 4, workers=2),
            c("hl", "cache", "qa", 5, workers=2),
            c("dyn", "lru", "none", 4, cap=2, resm="off"), c("dyn", "lru", "none", 4, cap=1, resm="off"),
            c("dyn", "lru", "none", 4, cap=3, resm="off"), c("dyn", "lru", "none", 3, cap=0, resm="off"),
            c("dyn", "trunc", "wab", 4), c("dyn", "trunc", "cut", 4), c("dyn", "trunc", "cut", 3, resm="ro"),
            c("dyn", "trunc", "wab", 3, lru=False), c("dyn", "trunc", "wab", 3, resm="off"),
            c("dyn", "modes", "none", 3),
            c("res", "all", "none", 4), c("res", "all", "saved", 3),
            c("static", "all", "none", 4), c("static", "all", "wos", 3),
            c("hl", "links", "la", 3), c("hl", "trait", "unprobed", 3), c("hl", "trait", "none", 3),
            c("hl", "cache", "none", 4), c("hl", "cache", "la", 4, fcap=2)]


def replay(ctx, kd):
    obj = json.load(open(ctx.replay))
    prog = obj.get("program") or obj.get("witness") or obj
    p = ctx.path("replay_prog.ndjson")
    open(p, "w").write(json.dumps(prog) + "\n")
    trace = ctx.path("replay_trace.ndjson")
    lib.run_driver("drv_containers", ["--programs", p, "--out", trace])
    v = lib.tlc_trace(ctx, MODULE_T, t_cfg(ctx, kd), trace)
    print(open(trace).read())
    print(json.dumps(v))
    if v["violations"]:
        print(f"VIOLATION property={PROP} replay={ctx.replay}")
    return 1 if v["violations"] else 0


def selftest(ctx, trace, kd):
    """Binding self-test: corrupt one logged field / drop one event -> the monitor must flag exactly that."""
    allc = lib.read_lines(trace)
    # a window of runs starting at the first run whose LRU order has two entries
    i0 = next(i for i, l in enumerate(allc) if '"order":["' in l and len(json.loads(l)["obs"]["order"]) >= 2)
    s0, _ = lib.run_of_line(allc, i0 + 1)
    lines = allc[s0:s0 + 4000]
    del allc
    while lines and not lib.is_new(lines[-1]):
        lines.pop()
    lines.pop()
    cfg = t_cfg(ctx, kd)
    p0 = ctx.path("selftest_0.ndjson"); open(p0, "w").write("\n".join(lines) + "\n")
    # (a) corrupt: reverse an observed LRU order of length >= 2
    cand_a = [i for i, l in enumerate(lines) if '"order":["' in l and len(json.loads(l)["obs"]["order"]) >= 2]
    ia = cand_a[min(3, len(cand_a) - 1)]
    e = json.loads(lines[ia]); e["obs"]["order"] = e["obs"]["order"][::-1]
    la = list(lines); la[ia] = json.dumps(e, separators=(",", ":"))
    pa = ctx.path("selftest_a.ndjson"); open(pa, "w").write("\n".join(la) + "\n")
    # (b) drop an event that is not a run boundary
    ib = next(i for i, l in enumerate(lines) if i > 60 and not lib.is_new(l) and not lib.is_new(lines[i + 1]))
    lb = list(lines); del lb[ib]
    pb = ctx.path("selftest_b.ndjson"); open(pb, "w").write("\n".join(lb) + "\n")
    with ThreadPoolExecutor(max_workers=3) as ex:
        base, va, vb = ex.map(lambda p: lib.tlc_trace(ctx, MODULE_T, cfg, p), [p0, pa, pb])
    flagged0 = set(base["violations"])
    ok_a = (ia + 1) in va["violations"] and (ia + 1) not in flagged0
    ok_b = (ib + 1) in vb["violations"] and len(vb["violations"]) > len(base["violations"])
    res = {"corrupt_one_field_flagged": ok_a, "drop_one_event_flagged": ok_b}
    ctx.cov["binding_selftest"] = res
    for p in (p0, pa, pb):
        os.remove(p)
    if not (ok_a and ok_b):
        raise lib.ToolError(f"binding self-test failed: {res}")


def run(ctx):
    kd = own_findings(ctx)
    lib.build(["drv_containers"])
    if ctx.replay:
        return replay(ctx, kd)
    totals = {"events": 0}
    plan = cfgs(ctx.quick)
    # ---- G: all configurations are model-checked side by side (TLC start-up dominates the small ones)
    with ThreadPoolExecutor(max_workers=max(2, min(lib.NCPU, 8))) as ex:
        fut_ref = ex.submit(model_refutations, ctx)
        res = list(ex.map(lambda c: mc_one(ctx, c), plan))
        ref = fut_ref.result()
    allprogs = ctx.path("programs.ndjson")
    total_programs = 0
    with open(allprogs, "w") as out:
        for c, r in zip(plan, res):
            ctx.cov["states"] += r["distinct"]
            ctx.cov["transitions"] += r["generated"]
            total_programs += r["n"]
            ctx.stage("mc", config=r["tag"], distinct_states=r["distinct"], programs=r["n"], wall_s=r["wall_s"])
            with open(r["progs"]) as f:
                out.write(f.read())
            os.remove(r["progs"])
    ctx.cov["states"] += ref["distinct"]
    ctx.cov["transitions"] += ref["generated"]
    _, distinct = lib.count_distinct(allprogs)
    # ---- execution on the real code
    trace = ctx.path("trace_mc.ndjson")
    d = lib.run_sharded(ctx, "drv_containers", allprogs, trace, shards=min(lib.NCPU, 12))
    ctx.stage("run", source="MC_Containers", programs=d.get("programs"), events=d.get("events"), hangs=d.get("hangs"), wall_s=d["wall_s"])
    if d.get("programs") != total_programs:
        raise lib.ToolError(f"driver executed {d.get('programs')} of {total_programs} programs")
    count_ops(ctx, d)
    # samples: one run per component
    seen = set()
    ls = lib.read_lines(trace)
    for i, line in enumerate(ls):
        if lib.is_new(line) and i > 50:
            comp = json.loads(line)["comp"]
            if comp not in seen:
                seen.add(comp)
                s, e = lib.run_of_line(ls, i + 1)
                ctx.cov["samples"].append({"source": f"MC_Containers {comp}", "trace": [json.loads(x) for x in ls[s:e]]})
    del ls
    # ---- T
    judge_trace(ctx, trace, "MC_Containers (all configurations)", kd, totals)
    if ctx.violations:
        # the self-test presupposes a conforming trace; the violation is the verdict
        ctx.cov["binding_selftest"] = {"skipped": "violations were reported"}
    else:
        selftest(ctx, trace, kd)
    # ---- seeded random long histories (dyn and hl alternate)
    nrand, rlen = (40, 60) if ctx.quick else (1200, 100)
    rtrace = ctx.path("trace_random.ndjson")
    dump = ctx.path("prog_random.ndjson")
    lib.run_driver("drv_containers", ["--random", nrand, "--len", rlen, "--out", rtrace, "--dump-programs", dump, "--dump-only"], env={"VERIF_SEED": ctx.seed})
    d = lib.run_sharded(ctx, "drv_containers", dump, rtrace, shards=min(lib.NCPU, 12))
    ctx.stage("run", source="random", programs=d.get("programs"), events=d.get("events"), hangs=d.get("hangs"), wall_s=d["wall_s"])
    count_ops(ctx, d)
    _, dn = lib.count_distinct(dump)
    judge_trace(ctx, rtrace, f"random seed={ctx.seed}", kd, totals)
    total_programs += nrand
    distinct += dn
    # anti-vacuity: the interaction properties were really exercised
    need = {"n_touch": 1000, "n_cutread": 100, "n_exact": 1000, "n_denied": 500, "n_hquery": 500, "n_stale": 20, "n_sexact": 100, "n_rtrait": 100}
    if not ctx.violations:
        short = {k: totals.get(k, 0) for k, v in need.items() if totals.get(k, 0) < v}
        if short:
            raise lib.ToolError(f"anti-vacuity: too few judged events of kind {short} (needed {need})")
    ctx.cov["judged"] = {k: totals.get(k, 0) for k in ["events"] + COUNTERS}
    ctx.cov["traces_validated_against_impl"] = total_programs
    ctx.cov["evaluations"] = total_programs
    ctx.cov["distinct_nontrivial"] = distinct
    ctx.cov["exhaustive"] = True
    ctx.cov["exhaustive_scope"] = ("all operation sequences of the listed depth behind the listed prefix per (component, family, LRU capacity, "
                                   "residency mode); the random tier is not exhaustive")
    ctx.assumptions += ["TLC, the CommunityModules Json reader and the driver's recording (public-API read-back, stat/nlink/content of files, "
                        "md5 of returned bytes, directory digests) are trusted",
                        "the FD cache capacity (64, a private constant of hardlink.rs) is the documented one; floods are sized relative to it",
                        "hard links are supported by the scratch file system (/dev/shm); truncation is applied while the container is closed"]
    return lib.finish(ctx, "model_checking",
                      rule="programs = complete operation sequences of length D behind a fixed prefix over the family's alphabet, enumerated by TLC "
                           "from Containers.tla (history variable) plus seeded random programs; distinct = distinct program texts (md5); every "
                           "program has >= 2 operations and every event carries a full read-back, so all are non-trivial")
