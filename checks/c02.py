"""C02 - parsers fail closed on arbitrary bytes: no panic, abort or unbounded memory.

spec/ParserGuard.tla (abstract fail-closed parser over the control fields of every format, allocation bound,
named deviations) -> MC_ParserGuard enumerates the boundary vectors (binding G) -> drv_parse patches them into
real fixtures and builder outputs and feeds them, the fixtures themselves and seeded mutations of them to the
real parsers in child processes under a counting allocator -> T_ParserGuard judges every call (binding T).
Level: exploration (TLC enumerates structured vectors only; arbitrary bytes are sampled by the mutation driver).
"""
import json
from . import lib
from . import parse_common as pc

MODULE_T = "T_ParserGuard"


def what_of(e):
    return f"{e.get('fmt')} {e.get('src')}: outcome {e.get('o')} {e.get('why', '')} {e.get('mc', '')} peak {e.get('peak_kib')} KiB largest {e.get('largest_kib')} KiB for {e.get('len')} bytes"


def selftest(ctx, trace, cfg):
    lines = pc.sample_lines(trace)

    def corrupt(ls):
        # an accepted parse is turned into an abort
        i = next(i for i, l in enumerate(ls) if '"op":"parse"' in l and '"o":"ok"' in l and '"src":"fixture"' in l)
        e = json.loads(ls[i])
        e["o"], e["why"] = "abort", "other"
        ls[i] = json.dumps(e, separators=(",", ":"))
        return ls, i + 1

    def inflate(ls):
        # a recorded peak is blown up beyond the bound
        # victim: an unmodified fixture that parsed - its header claims fit the input, so no listed allocation
        # deviation can excuse the inflated figure (a mutant with an oversized count field could be excused)
        i = next(i for i, l in enumerate(ls) if '"op":"parse"' in l and '"o":"ok"' in l and '"src":"fixture"' in l and '"decomp":false' in l
                 and json.loads(l)["fmt"] in ("root", "tvfs", "patch_archive", "bpsv", "build_config", "keyring_config", "espec", "archive_index", "cdn_config", "mime", "lru", "residency", "update_section", "build_info"))
        e = json.loads(ls[i])
        e["peak_kib"] = e["len"] // 4 + 16384 + 1
        ls[i] = json.dumps(e, separators=(",", ":"))
        return ls, i + 1

    def drop(ls):
        # an event disappears: the id sequence of the shard has a gap
        i = next(i for i in range(5, len(ls) - 2) if '"op":"parse"' in ls[i] and '"more":false' in ls[i] and '"op":"parse"' in ls[i + 1]
                 and json.loads(ls[i + 1])["id"] > json.loads(ls[i])["id"] > json.loads(ls[i - 1])["id"]
                 and json.loads(ls[i + 1])["id"] - json.loads(ls[i])["id"] == json.loads(ls[i])["id"] - json.loads(ls[i - 1])["id"])
        del ls[i]
        return ls, i + 1

    res = {"corrupt_outcome_flagged": pc.selftest_lines(ctx, MODULE_T, cfg, lines, corrupt, "a"),
           "inflate_peak_flagged": pc.selftest_lines(ctx, MODULE_T, cfg, lines, inflate, "b"),
           "drop_one_event_flagged": pc.selftest_lines(ctx, MODULE_T, cfg, lines, drop, "c")}
    ctx.cov["binding_selftest"] = res
    # a run that already reports violations keeps its verdict (exit 1); the self-test result is in the evidence
    if not all(res.values()) and not ctx.violations:
        raise lib.ToolError(f"binding self-test failed: {res}")


def run(ctx):
    kd = pc.known_findings(ctx, "C02", "F02")
    lib.build([pc.DRV])
    if ctx.replay:
        return pc.replay(ctx, MODULE_T, kd, stride=1)
    vectors, nvec = pc.gen_vectors(ctx, kd)
    nmut = 60000 if ctx.quick else 1200000
    # thorough: two generated decompression bombs beyond the 1 GiB cap (about 2 GiB of memory for a few seconds each)
    run_ = pc.Run(ctx, "c02", vectors=vectors, mutations=nmut, bombs=not ctx.quick)
    d = run_.execute()
    v, cfg = pc.judge(ctx, MODULE_T, run_.trace, kd, f"fixtures + model vectors + mutations seed={ctx.seed}", stride=run_.jobs)
    # one report per (format, kind of failure)
    pc.classify(ctx, v, run_, "drv_parse", what_of, group_of=lambda e: (e.get("fmt"), e.get("o") if e.get("o") not in ("ok", "err") else "alloc", e.get("mc", "")))
    try:
        selftest(ctx, run_.trace, cfg)
    except StopIteration:
        ctx.cov["binding_selftest"] = {"no_victim_event_in_sample": True}
        if not ctx.violations:
            raise lib.ToolError("binding self-test found no event to corrupt in the sample")
    wants = ('"src":"model"', '"src":"mut"', '"src":"fixture"')
    for want, e in zip(wants, pc.first_matching(run_.trace, [lambda l, w=w: w in l and '"op":"parse"' in l for w in wants])):
        if e:
            ctx.cov["samples"].append({"source": want, "trace": [e]})
    ctx.cov["traces_validated_against_impl"] = v.get("judged", 0)
    ctx.cov["evaluations"] = v.get("judged", 0)
    ctx.cov["distinct_nontrivial"] = d.get("distinct_inputs", 0)
    ctx.cov["inputs_by_source"] = d.get("by_src")
    ctx.cov["model_generated_inputs"] = d.get("model_jobs")
    ctx.cov["mutated_inputs"] = d.get("mutations")
    ctx.cov["outcomes"] = d.get("outcomes")
    ctx.cov["by_format_inputs_accepted_notclosed"] = d.get("by_fmt")
    ctx.cov["deaths_rerun_alone"] = d.get("reruns")
    ctx.cov["deaths_not_reproduced"] = d.get("flaky")
    ctx.cov["exhaustive"] = False
    ctx.cov["exhaustive_scope"] = ("exhaustive only over the boundary vectors of MC_ParserGuard (all assignments with at most W fields off their typical value "
                                   "plus the full product over the count/size fields where it is small); the mutated inputs are a seeded sample")
    ctx.assumptions += ["TLC, the CommunityModules Json reader, the counting allocator and the child-process protocol of drv_parse are trusted",
                        "allocation bound: 256 bytes per input byte + 16 MiB (+ the documented 1 GiB cap for entry points that decompress); a single request above 2 GiB is refused by the harness allocator and observed as an abort",
                        "per-input watchdog 3 s (the parsers are microsecond-scale; 60 s for the generated bombs), started when the child has acknowledged its initialisation; a hang counts only if the same input, re-run alone in a fresh child, is still running after 9 s; after 3 confirmed hangs an entry point is not fed any more (its remaining inputs are logged as skipped) so that the run ends in normal time with the violations reported"]
    return lib.finish(ctx, "exploration",
                      rule="one evaluation = one call of a real parser on one input, judged by T_ParserGuard; distinct = distinct input byte strings (md5)")
