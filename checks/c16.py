"""C16 - applying a generated binary patch to the old file yields the new file.

spec/Bsdiff.tla: the ZBSDIFF1 format as an executable definition (header, sign-magnitude control triples,
bspatch = Apply, its length abstraction ApplyLen), the patcher as a state machine with its invariants, and
code-shaped models of the simple and chunked builders.
MC_Bsdiff: every input of a bounded space is an initial state (all (old, new) over two letters x model builder
configurations; all small arbitrary patches); the patcher machine is stepped to completion; TLC checks the
invariants, machine = Apply, length exactness, and prints every input as a program (binding G).
drv_bsdiff executes the programs on the real builders and patchers; T_Bsdiff judges every patch record with
Bsdiff!Apply on the recorded old file and the patch's decompressed blocks (binding E).
"""
import glob, hashlib, json, os, time
from concurrent.futures import ThreadPoolExecutor
from . import lib

MODULE_MC = "MC_Bsdiff"
MODULE_T = "T_Bsdiff"
DRV = "drv_bsdiff"
PROP = "C16"
INVS = ["MachInv", "MachApply", "LenExact", "PairFinal", "PairRefusal", "ShapeLemma", "Emit"]
STAT_KEYS = ["records", "patches", "refusals", "builder_panics", "applies", "undecided", "with_diff", "with_seek",
             "fmt_only", "impl_only", "model_checked", "model_agrees", "arb", "arb_ok", "arb_fail", "arb_panics",
             "arb_agree", "long_records", "by_simple", "by_chunked", "by_optimized"]
ALPHABETS = "97:98,0:255"


# --------------------------------------------------------------------------- known findings
def known(ctx):
    """Known (not fixed) findings of C16: KNOWN_FINDINGS.json plus findings.d/F16*.json (the former is
    regenerated from the latter by bin/mkmanifest; reading both keeps the check independent of when that ran)."""
    ids = set(lib.known_ids(ctx, PROP))
    listed = {f["id"] for f in ctx.known.get("findings", [])}
    for p in sorted(glob.glob(os.path.join(lib.ROOT, "findings.d", "F16*.json"))):
        f = json.load(open(p))
        if f.get("property") != PROP:
            continue
        if f.get("status", "known") == "known":
            ids.add(f["id"])
            if f["id"] not in listed:
                ctx.known.setdefault("findings", []).append(f)
        else:
            ids.discard(f["id"])
    # development aid (trying a fix in a scratch worktree, VERIF_REPO=...): judge as if these findings were fixed
    ids -= set(os.environ.get("VERIF_C16_ASSUME_FIXED", "").split(","))
    return sorted(ids)


# --------------------------------------------------------------------------- programs
def program_of(evs):
    return evs[0].get("prog") if evs else None


def run_key(e):
    """(distinct key, non-trivial?) of a run, from its "new" event."""
    if e["tier"] == "arb":
        return json.dumps(e["prog"], sort_keys=True), len(e["ctrl"]) >= 1 and e["size"] > 0
    if e["tier"] == "short":
        return json.dumps([e["old"], e["new"]]), bool(e["old"]) and bool(e["new"]) and e["old"] != e["new"]
    return json.dumps([e["prog"], e["oldlen"], e["newmd5"]], sort_keys=True), e["oldlen"] > 0 and e["newlen"] > 0


def count_runs(trace, seen):
    """(runs, new distinct non-trivial runs) - distinctness is global over the check run (`seen`)."""
    n = d = 0
    with open(trace) as f:
        for line in f:
            if not lib.is_new(line):
                continue
            n += 1
            k, nontrivial = run_key(json.loads(line))
            h = hashlib.md5(k.encode()).digest()
            if h in seen:
                continue
            seen.add(h)
            if nontrivial:
                d += 1
    return n, d


def slim(ev, cap=24):
    """An event with long byte arrays cut down (for the samples in the evidence file)."""
    if isinstance(ev, dict):
        return {k: slim(v, cap) for k, v in ev.items()}
    if isinstance(ev, list):
        if len(ev) > cap and all(isinstance(x, int) for x in ev):
            return ev[:cap] + [f"... {len(ev) - cap} more"]
        return [slim(x, cap) for x in ev[:cap]] + ([f"... {len(ev) - cap} more"] if len(ev) > cap else [])
    return ev


def sample(ctx, trace, source, frac=0.5, max_samples=6):
    if len(ctx.cov["samples"]) >= max_samples:
        return
    ls = lib.read_lines(trace)
    if not ls:
        return
    s, e = lib.run_of_line(ls, max(1, int(len(ls) * frac)))
    ctx.cov["samples"].append({"source": source, "trace": [slim(json.loads(x)) for x in ls[s:e]][:5]})


# --------------------------------------------------------------------------- stages
BASE = {"Family": '"pair"', "MaxLen": 5, "A0": 97, "A1": 98, "MaxBlocks": "{1, 2, 64}", "MinMatch": 2, "ExtraChunk": 1,
        "Defects": "{}", "ArbOldLen": 1, "ArbX": "{0, 1, 2}", "ArbZPos": "{0, 1}", "ArbZNeg": "{2}", "ArbEntries": 2,
        "ArbDiffBytes": "{1, 255}", "ArbExtraBytes": "{7}", "ArbBlockLen": 2, "ArbSizes": "{0, 1, 2, 3}"}


def mc_cfg(ctx, name, **over):
    c = dict(BASE)
    c.update(over)
    cfg = ctx.path(f"mc_{name}.cfg")
    lib.write_cfg(cfg, c, "MCInit", "MCNext", invariants=INVS)
    return cfg


def write_tcfg(ctx, kd):
    cfg = ctx.path("t_bsdiff.cfg")
    lib.write_cfg(cfg, {"KnownDeviations": lib.tla_set(kd)}, "TInit", "TNext", invariants=["Done"], view="TView")
    return cfg


def judge_trace(ctx, trace, source, kd, totals):
    cfg = write_tcfg(ctx, kd)
    with open(trace) as f:
        n = sum(1 for _ in f)
    # about two chunks per worker (a JVM start costs ~2 s; records of long files cost far more than short ones)
    max_events = max(300, n // (2 * lib.NCPU) + 1)
    v = lib.judge(ctx, MODULE_T, cfg, trace, max_events=max_events, heap="3g")
    for k in STAT_KEYS:
        totals[k] = totals.get(k, 0) + v.get(k, 0)
    ctx.stage("judge", source=source, events=v["events"], violations=len(v["violations"]),
              deviations=len(v["deviations"]), wall_s=v["wall_s"], **{k: v.get(k, 0) for k in STAT_KEYS if v.get(k, 0)})
    lib.classify_trace(ctx, v, trace, source, program_of=program_of)
    if v.get("undecided", 0):
        lib.log(f"[{ctx.id}] {source}: {v['undecided']} patch records could not be decided")
    return v


def inconclusive(ctx, totals):
    """Records the monitor could not decide (a zlib block the driver's inflater rejects but the library's reads, or a
    block of 2^24 bytes or more) make the run inconclusive - unless a violation was found anyway."""
    n = totals.get("undecided", 0)
    ctx.cov["undecided_records"] = n
    if n and not ctx.violations:
        raise lib.ToolError(f"{n} patch records could not be decided: inconclusive")


def execute(ctx, name, progs, n, kd, totals, seen, frac=0.5):
    trace = ctx.path(f"trace_{name}.ndjson")
    d = lib.run_sharded(ctx, DRV, progs, trace, extra_args=["--alphabets", ALPHABETS], shards=min(12, lib.NCPU))
    ctx.stage("run", source=name, programs=d.get("programs"), events=d.get("events"), hangs=d.get("hangs"), wall_s=d["wall_s"])
    if d.get("programs") != n:
        raise lib.ToolError(f"driver executed {d.get('programs')} of {n} programs")
    runs, dn = count_runs(trace, seen)
    sample(ctx, trace, name, frac)
    judge_trace(ctx, trace, name, kd, totals)
    return trace, runs, dn


def mc_and_run(ctx, name, kd, totals, seen, **over):
    cfg = mc_cfg(ctx, name, **over)
    progs = ctx.path(f"prog_{name}.ndjson")
    r = lib.tlc(ctx, MODULE_MC, cfg, tagged_out={"PROGRAM": progs}, timeout=1800)
    ctx.cov["states"] += r["distinct"]
    ctx.cov["transitions"] += r["generated"]
    n = r["counts"]["PROGRAM"]
    ctx.stage("mc", family=name, distinct_states=r["distinct"], generated=r["generated"], programs=n, wall_s=r["wall_s"],
              constants={k: v for k, v in over.items()})
    trace, runs, dn = execute(ctx, f"MC_Bsdiff {name}", progs, n, kd, totals, seen)
    os.remove(trace)
    os.remove(progs)
    return runs, dn


def model_witness(ctx):
    """The code-shaped model of build_chunked_patch *with* the defect must violate PairFinal (this regenerates the
    finding's model-level witness); with Defects = {} the same model passes (checked in mc_and_run)."""
    cfg = mc_cfg(ctx, "witness_F16a", Family='"pair"', MaxLen=5, MaxBlocks="{2}", Defects='{"F16a"}')
    r = lib.tlc(ctx, MODULE_MC, cfg, tagged_out={"PROGRAM": ctx.path("ignored.ndjson")}, timeout=600,
                expect_violation=True, workers=1)
    ok = "PairFinal" in r["invariant_violated"]
    ctx.cov["model_with_defect_violates_property"] = {"F16a": ok}
    if not ok:
        raise lib.ToolError("model with defect F16a does not violate PairFinal: the model no longer explains the finding")


def listed_programs(ctx, seed, nmed, nlong, grid):
    """Structured pairs (a deterministic grid) and seeded pairs (content and edits derived from seed, idx)."""
    struct, med, long_ = [], [], []
    P, I, S = grid
    for shape in ("insert", "delete", "move", "dup", "subst"):
        for alpha in (0, 3, 4, 6):           # {a,b}, {0,255}, acgt, all bytes
            for p in P:
                for i in I:
                    for s in S:
                        struct.append({"kind": "struct", "shape": shape, "p": p, "i": i, "s": s, "alpha": alpha})
    med = [{"kind": "gen", "tier": "med", "seed": seed, "idx": i} for i in range(nmed)]
    long_ = [{"kind": "gen", "tier": "long", "seed": seed, "idx": i} for i in range(nlong)]
    out = {}
    for name, ps in (("struct", struct), ("med", med), ("long", long_)):
        path = ctx.path(f"prog_{name}.ndjson")
        with open(path, "w") as f:
            for p in ps:
                f.write(json.dumps(p, separators=(",", ":")) + "\n")
        out[name] = (path, len(ps))
    return out


def fixtures(ctx, kd):
    """Validation of the format definition itself: real CDN triplets (old, new, patch made by Blizzard's encoder) from
    the repository's test fixtures.  Bsdiff!Apply(old, real patch) must be the real new file.  These patches were not
    generated by this library, so a failure here is not a C16 verdict: it means the TLA+ definition (or a patcher) does
    not read real patches, and the check stops as inconclusive."""
    d = os.path.join(lib.REPO, "crates", "cascette-formats", "test_fixtures", "zbsdiff")
    names = sorted(os.path.basename(p)[:-8] for p in glob.glob(os.path.join(d, "*.zbsdiff"))
                   if os.path.exists(p[:-8] + ".old") and os.path.exists(p[:-8] + ".new"))
    if not names:
        ctx.cov["cdn_fixture_triplets"] = "none found"
        return
    progs = ctx.path("prog_fixtures.ndjson")
    with open(progs, "w") as f:
        for n in names:
            f.write(json.dumps({"kind": "fixture", "dir": d, "name": n}) + "\n")
    trace = ctx.path("trace_fixtures.ndjson")
    lib.run_driver(DRV, ["--programs", progs, "--out", trace])
    v = lib.judge(ctx, MODULE_T, write_tcfg(ctx, kd), trace, max_events=3, heap="3g")
    ctx.stage("spec_validation", source="CDN fixtures", triplets=len(names), events=v["events"], violations=len(v["violations"]),
              with_seek=v.get("with_seek", 0), wall_s=v["wall_s"])
    impl_only = v.get("impl_only", 0)          # Apply = new, but a real patcher returned something else
    ctx.cov["cdn_fixture_triplets"] = {"triplets": len(names), "format_definition_yields_new": len(names) - (len(v["violations"]) - impl_only),
                                       "real_patchers_yield_new": len(names) - len(v["violations"]),
                                       "records_with_effective_seek": v.get("with_seek", 0)}
    if len(v["violations"]) > impl_only or v.get("undecided") or v.get("patches") != len(names):
        raise lib.ToolError(f"format definition not validated by the real CDN patches: {v}")
    if impl_only:
        # not a C16 verdict (these patches were not generated by this library); the repository's own fixture tests cover it
        lib.log(f"[{ctx.id}] NOTE: the real patchers do not reproduce the new file for {impl_only} of {len(names)} real CDN patches "
                "(Bsdiff!Apply does) - outside the C16 statement, reported in evidence")


def replay(ctx, kd):
    obj = json.load(open(ctx.replay))
    prog = obj.get("program") or obj.get("witness", {}).get("program")
    if prog is None:
        raise lib.ToolError("replay file has no program")
    p = ctx.path("replay_prog.ndjson")
    open(p, "w").write(json.dumps(prog) + "\n")
    trace = ctx.path("replay_trace.ndjson")
    lib.run_driver(DRV, ["--programs", p, "--out", trace, "--alphabets", ALPHABETS])
    totals = {}
    v = judge_trace(ctx, trace, "replay", kd, totals)
    for line in lib.read_lines(trace):
        print(json.dumps(slim(json.loads(line), 64), separators=(",", ":")))
    print(json.dumps(v))
    for _, fid in v["deviations"]:
        print(f"KNOWN-FINDING: property={PROP} {fid} reproduced by this replay")
    inconclusive(ctx, totals)
    return 1 if v["violations"] else 0


def selftest(ctx, traces, kd):
    """Binding self-test: corrupt one logged field of five different records and drop one event -> the monitor
    must flag exactly those (one monitor run on the original lines, one on the modified ones)."""
    lines = []
    for t, limit in traces:
        ls = lib.read_lines(t)
        cut = min(limit, len(ls))
        while cut < len(ls) and not lib.is_new(ls[cut]):
            cut += 1
        lines += ls[:cut]
    cfg = write_tcfg(ctx, kd)

    def write(name, ls):
        p = ctx.path(name)
        open(p, "w").write("\n".join(ls) + "\n")
        return p

    with ThreadPoolExecutor(max_workers=2) as ex:
        fbase = ex.submit(lib.tlc_trace, ctx, MODULE_T, cfg, write("selftest_0.ndjson", lines), heap="3g")
        # the modified trace is built from the original lines only, so it can be judged concurrently
        tier_of, run_of = {}, {}
        cur, start = None, 0
        for i, l in enumerate(lines):
            if lib.is_new(l):
                cur, start = json.loads(l)["tier"], i
            tier_of[i], run_of[i] = cur, start
        used_runs = set()
        mod = list(lines)
        targets = {}

        def corrupt(name, pred, change):
            for i, l in enumerate(lines):
                if '"op":"patch"' not in l or run_of[i] in used_runs:
                    continue
                e = json.loads(l)
                if e["res"]["ok"] and pred(e, tier_of[i]):
                    change(e)
                    mod[i] = json.dumps(e, separators=(",", ":"))
                    used_runs.add(run_of[i])
                    targets[name] = i + 1
                    return
            raise lib.ToolError(f"self-test: no suitable event for {name}")

        def flip_out(e):
            e["outs"][0]["b"][1] ^= 1

        def flip_diff(e):
            e["diff"][len(e["diff"]) // 2] ^= 0x40

        def bump_size(e):
            e["hdr"][24] += 1

        def zero_md5(e):
            e["outs"][0]["md5"] = "0" * 32

        def bump_ctrl(e):
            e["ctrl3"][0][0] += 1

        # (a1) one byte of one applier's output; (a2) one byte of the recorded diff block - only the independent
        # patcher (ii) can notice; (a3) the size stated in the header; (a4) long tier: the digest of an output;
        # (a5) long tier: a control entry's diff size
        corrupt("corrupt_output_byte_flagged", lambda e, t: t == "short" and e["outs"][0]["ok"] and len(e["outs"][0]["b"]) >= 3, flip_out)
        corrupt("corrupt_diff_block_flagged", lambda e, t: t == "short" and len(e["diff"]) >= 2, flip_diff)
        corrupt("corrupt_header_size_flagged", lambda e, t: t == "short" and e["hdr"][24] < 255, bump_size)
        corrupt("corrupt_long_digest_flagged", lambda e, t: t == "long" and e["outs"][0]["ok"], zero_md5)
        corrupt("corrupt_long_control_flagged", lambda e, t: t == "long" and len(e["ctrl3"]) >= 2, bump_ctrl)
        # (b) drop one patch event of yet another run (last, so that the line numbers above stay valid)
        idx = max(i for i, l in enumerate(lines) if '"op":"patch"' in l and run_of[i] not in used_runs)
        del mod[idx]
        vmod = lib.tlc_trace(ctx, MODULE_T, cfg, write("selftest_1.ndjson", mod), heap="3g")
        base = fbase.result()
    shift = lambda ln: ln if ln <= idx else ln - 1          # line numbers of the modified trace (one line deleted)
    clean = {shift(x) for x in set(base["violations"]) | {d[0] for d in base["deviations"]} if x != idx + 1}
    targets = {k: shift(ln) for k, ln in targets.items()}
    got = set(vmod["violations"])
    res = {k: ln in got and ln not in clean for k, ln in targets.items()}
    res["drop_one_event_flagged"] = any(idx + 1 <= x <= idx + 12 for x in got - clean)
    res["nothing_else_flagged"] = all(x in clean or x in targets.values() or idx + 1 <= x <= idx + 12 for x in got)
    ctx.cov["binding_selftest"] = res
    if not all(res.values()):
        raise lib.ToolError(f"binding self-test failed: {res} (flagged {sorted(got)}, targets {targets}, dropped line {idx + 1})")


def run(ctx):
    kd = known(ctx)
    ctx.stage("build", wall_s=round(lib.build([DRV]), 2))
    if ctx.replay:
        return replay(ctx, kd)
    totals, seen = {}, set()
    if ctx.quick:
        plan = [("pair", dict(Family='"pair"', MaxLen=6)),
                ("arb", dict(Family='"arb"', ArbOldLen=1, ArbSizes="{0, 2, 3}", ArbDiffBytes="{255}"))]
        nmed, nlong, grid = 1200, 250, ((0, 9), (8, 256, 257), (0, 12))
    else:
        plan = [("pair", dict(Family='"pair"', MaxLen=7)),
                ("pair_mm3", dict(Family='"pair"', MaxLen=6, MinMatch=3, ExtraChunk=2, MaxBlocks="{3, 4, 64}", A0=0, A1=255)),
                ("arb", dict(Family='"arb"', ArbOldLen=2, ArbSizes="{0, 1, 2, 3}"))]
        nmed, nlong, grid = 10000, 3000, ((0, 4, 9, 40), (1, 8, 255, 256, 257, 512), (0, 4, 12, 300))
    runs = distinct = 0
    for name, over in plan:
        n, dn = mc_and_run(ctx, name, kd, totals, seen, **over)
        runs += n
        distinct += dn
    t = time.time()
    model_witness(ctx)
    ctx.stage("model_witness", wall_s=round(time.time() - t, 2))
    fixtures(ctx, kd)
    listed = listed_programs(ctx, ctx.seed, nmed, nlong, grid)
    traces = {}
    for name in ("struct", "med", "long"):
        path, n = listed[name]
        traces[name], r, dn = execute(ctx, f"{name} seed={ctx.seed}", path, n, kd, totals, seen, frac=0.37)
        runs += r
        distinct += dn
    t = time.time()
    selftest(ctx, [(traces["med"], 250), (traces["long"], 120)], kd)
    ctx.stage("binding_selftest", wall_s=round(time.time() - t, 2))
    inconclusive(ctx, totals)
    # anti-vacuity: the interesting classes were really exercised on the real code
    for k in ("patches", "with_diff", "with_seek", "long_records", "arb_ok", "arb_fail", "by_simple", "by_chunked", "by_optimized"):
        if not totals.get(k):
            raise lib.ToolError(f"vacuous run: no record of class {k}")
    ctx.cov["record_classes"] = totals
    ctx.cov["builder_refusals"] = totals.get("refusals", 0)
    ctx.cov["builder_panics"] = totals.get("builder_panics", 0)
    ctx.cov["code_shaped_builder_model_agreement"] = f"{totals.get('model_agrees', 0)}/{totals.get('model_checked', 0)}"
    ctx.cov["arbitrary_patches_real_patchers_agree_with_format"] = f"{totals.get('arb_agree', 0)}/{totals.get('arb', 0)}"
    ctx.cov["traces_validated_against_impl"] = runs
    ctx.cov["evaluations"] = totals.get("patches", 0) + totals.get("arb", 0)
    ctx.cov["distinct_nontrivial"] = distinct
    ctx.cov["exhaustive"] = True
    ctx.cov["exhaustive_scope"] = ("every (old, new) over two letters up to the listed MaxLen under the alphabets " + ALPHABETS +
                                   " x 3 builders x max_diff_block_size {1, 4, 1 MiB} x 4 appliers; every arbitrary patch of the listed "
                                   "arb bounds. Structured, medium and long pairs are sampled (seeded), not exhaustive")
    ctx.assumptions += [
        "TLC, the CommunityModules Json reader and SequencesExt!FoldLeft / SelectInSeq are trusted",
        "the driver's independent reader of a patch (header split, RFC 1950/1951 inflate, Adler-32) is trusted; it shares no code with the library "
        "(VERIF_BSDIFF_XCHECK=1 compares it with the library's decompress_zlib during development)",
        "pairs longer than ~1.4 KB are judged by output length + MD5 and by Bsdiff!ApplyLen on the decoded control block, not byte by byte",
        "old-file positions are kept exactly (three 24-bit limbs), so any 63-bit seek is judged; sizes of 2^24 or more exceed every block judged here and fail like in bspatch",
        "a zlib block that the driver's inflater rejects but the library's reads is a dispute between two inflaters: the record is undecided and the check exits 2, never 1",
        "a builder that returns Err (or panics) produced no patch: counted as builder_refusals / builder_panics, not judged (the statement quantifies over produced patches)",
        "arbitrary (not library-generated) patches are only required to fail or be length-exact; agreement of their output with the format is reported, not judged",
    ]
    return lib.finish(ctx, "model_checking",
                      rule="a run = one (old, new) pair (or one arbitrary patch) executed on the real code: inputs enumerated by TLC from MC_Bsdiff "
                           "(every initial state prints its input) plus a structured grid and seeded pairs; evaluations = patches built and applied "
                           "(+ arbitrary patches applied); distinct = distinct run contents (md5 of old/new bytes, or of program + digests for long pairs) "
                           "over the whole check run; non-trivial = old and new both non-empty and different (arb: at least one control entry and size > 0)")
