"""C20 - no key or endpoint string makes the library touch files outside its directories.

Paths.tla defines the lexical meaning of root.join(key) per API template and Confined; MC_Paths enumerates every
key string of <= N components over the component alphabet per API (binding G, with the model's own prediction);
drv_paths executes put/get/remove (store/get, download, open_installation) for each key in a fresh sandbox with
decoy files around the configured directory and records every path created/changed/deleted and every decoy read;
T_Paths judges the observations (binding T) with Paths!Confined.
"""
import json, os
from . import lib


def gen(ctx, name, init, nxt, emit, consts, extra_inv=()):
    cfg = ctx.path(f"mc_{name}.cfg")
    lib.write_cfg(cfg, consts, init, nxt, invariants=[emit])
    progs = ctx.path(f"prog_{name}.ndjson")
    r = lib.tlc(ctx, "MC_Paths", cfg, tagged_out={"PROGRAM": progs}, timeout=1200, workers=min(lib.NCPU, 8))
    ctx.cov["states"] += r["distinct"]
    ctx.cov["transitions"] += r["generated"]
    # design-level question on the model (expected to be refuted for raw-join templates): informational
    cfg2 = ctx.path(f"mc_{name}_design.cfg")
    lib.write_cfg(cfg2, consts, init, nxt, invariants=list(extra_inv))
    r2 = lib.tlc(ctx, "MC_Paths", cfg2, timeout=1200, workers=min(lib.NCPU, 8), expect_violation=True)
    ctx.stage("mc", family=name, programs=r["counts"]["PROGRAM"], distinct_states=r["distinct"], wall_s=r["wall_s"],
              design_invariant_refuted_on_model=r2["invariant_violated"])
    return progs, r["counts"]["PROGRAM"]


def extra_programs(ctx):
    p = ctx.path("prog_extra.ndjson")
    with open(p, "w") as f:
        for n in range(0, 33):
            f.write(json.dumps({"api": "cdn.keylen", "len": n}) + "\n")
        for off, ln in [(0, 0), (0, 1), (5, 0), (100, 100), (2**63, 2**63), (2**64 - 1, 1), (2**64 - 1, 2), (0, 2**64 - 1)]:
            # 64-bit values travel as strings (TLC integers are 32-bit); zero-ness is what the monitor needs
            f.write(json.dumps({"api": "cdn.range", "offset": str(off), "length": str(ln), "length_zero": ln == 0, "offset_zero": off == 0}) + "\n")
        for s in range(3):
            f.write(json.dumps({"api": "fixed.paths", "seed": ctx.seed + s, "n": 200}) + "\n")
        for disk in (True, False):
            f.write(json.dumps({"api": "cdn.objects", "disk": disk}) + "\n")
        names = ["", "a", "ab", "abc", "abcd", "0123456789abcdef0123456789abcdef", "a\u00e9", "\u20acuro", "ab\u20ac", "abc\u00e9x",
                 "\u65e5\u672c\u8a9e", "a\u00e912", "ab\u00e9\u00e9", "\u0130" * 16, "\u00e9" * 16, "0123456789abcdef0123456789abcde\u00e9"[:31] + "\u00e9", "ABCDEF0123456789ABCDEF0123456789", "a/b", "../x", "../../../../x", "ab/../../x", "/abs", "a b", "a\tb", "x" * 300]
        for nm in names:
            # names travel hex-encoded: the strings are deliberately not ASCII
            f.write(json.dumps({"api": "cdn.archive_name", "name_hex": nm.encode().hex(), "len": len(nm.encode())}) + "\n")
    return p, 33 + 8 + 3 + 2 + len(names)


def judge(ctx, trace, source, kd):
    cfg = ctx.path("t_paths.cfg")
    lib.write_cfg(cfg, {"KnownDeviations": lib.tla_set(kd)}, "TInit", "TNext", invariants=["Done"])
    v = lib.judge(ctx, "T_Paths", cfg, trace, is_boundary=lambda l: True, max_events=4000)
    ctx.stage("judge", source=source, events=v["events"], violations=len(v["violations"]), deviations=len(v["deviations"]))
    for _, fid in v["deviations"]:
        lib.note_known(ctx, fid)
        ctx.cov["deviations_observed"][fid] = ctx.cov["deviations_observed"].get(fid, 0) + 1
    if v["violations"]:
        lines = lib.read_lines(trace)
        seen = set()
        for ln in v["violations"]:
            e = json.loads(lines[ln - 1])
            key = (e.get("api"), tuple(sorted(set(s["outcome"][:5] for s in e.get("steps", [])))))
            if key in seen or len(seen) >= 6:
                continue
            seen.add(key)
            lib.report_violation(ctx, f"{source}: api {e.get('api')} key {json.dumps(e.get('prog'))[:200]} touched a path outside the configured directory, read a decoy, panicked, or two well-formed keys interfered",
                                 {"property": "C20", "source": source, "program": e.get("prog"), "event": e,
                                  "explanation": "T_Paths: a touched path is not Paths!Confined(Root, p), or decoy_read, or a step outcome is a panic, or a pair of well-formed keys did not each read back its own value"})
    return v


def run_progs(ctx, progs, name, kd):
    trace = ctx.path("trace_" + "".join(c if c.isalnum() else "_" for c in name) + ".ndjson")
    d = lib.run_sharded(ctx, "drv_paths", progs, trace, shards=8, timeout=1500)
    ctx.stage("run", family=name, programs=d.get("programs"), hangs=d.get("hangs", 0), wall_s=d["wall_s"])
    v = judge(ctx, trace, name, kd)
    return trace, d.get("programs", 0)


def selftest(ctx, trace, kd):
    lines = lib.read_lines(trace)[:400]
    base_cfg = ctx.path("t_paths.cfg")
    p0 = ctx.path("st0.ndjson"); open(p0, "w").write("\n".join(lines) + "\n")
    v0 = lib.tlc_trace(ctx, "T_Paths", base_cfg, p0)
    i = next(i for i, l in enumerate(lines) if (i + 1) not in v0["violations"] and json.loads(l).get("touched"))
    e = json.loads(lines[i]); e["touched"][0]["p"] = ["l1", "l2", "l3", "x"]; lines[i] = json.dumps(e)
    j = next(j for j, l in enumerate(lines) if j > i and (j + 1) not in v0["violations"])
    e = json.loads(lines[j]); e["decoy_read"] = True; lines[j] = json.dumps(e)
    p1 = ctx.path("st1.ndjson"); open(p1, "w").write("\n".join(lines) + "\n")
    v1 = lib.tlc_trace(ctx, "T_Paths", base_cfg, p1)
    res = {"corrupt_touched_path_flagged": (i + 1) in v1["violations"], "corrupt_decoy_flag_flagged": (j + 1) in v1["violations"],
           "others_unchanged": set(v1["violations"]) - {i + 1, j + 1} == set(v0["violations"])}
    ctx.cov["binding_selftest"] = res
    if not all(res.values()):
        raise lib.ToolError(f"binding self-test failed: {res}")


def run(ctx):
    kd = lib.known_ids(ctx, "C20")
    lib.build(["drv_paths"])
    if ctx.replay:
        obj = json.load(open(ctx.replay))
        p = ctx.path("replay.ndjson"); open(p, "w").write(json.dumps(obj["program"]) + "\n")
        trace, _ = run_progs(ctx, p, "replay", kd)
        print(open(trace).read())
        return 1 if ctx.violations else 0
    n = 3 if ctx.quick else 4
    total = 0
    progs, c = gen(ctx, f"keys_N{n}", "MCInit", "MCNext", "Emit", {"N": n}, extra_inv=["DesignConfines"])
    trace, k = run_progs(ctx, progs, f"MC_Paths keys N={n}", kd); total += k
    selftest(ctx, trace, kd)
    ls = lib.read_lines(trace)
    ctx.cov["samples"] += [json.loads(ls[7]), json.loads(ls[len(ls) // 2])]
    progs, c = gen(ctx, "pairs", "PairInit", "PairNext", "EmitPair", {"N": 1}, extra_inv=["Injective"])
    trace, k = run_progs(ctx, progs, "MC_Paths pairs", kd); total += k
    ctx.cov["samples"].append(json.loads(lib.read_lines(trace)[3]))
    progs, c = gen(ctx, "typed", "TypedInit", "TypedNext", "EmitTyped", {"N": 1})
    trace, k = run_progs(ctx, progs, "MC_Paths typed key pairs", kd); total += k
    progs, c = extra_programs(ctx)
    trace, k = run_progs(ctx, progs, "cdn key lengths / ranges / fixed-width helpers", kd); total += k
    ctx.cov["traces_validated_against_impl"] = total
    ctx.cov["evaluations"] = total
    ctx.cov["distinct_nontrivial"] = total
    ctx.cov["exhaustive"] = True
    ctx.cov["exhaustive_scope"] = f"every key string of <= {n} components over the 9-class component alphabet, relative and absolute, for 9 API templates; every ordered pair of distinct well-formed keys of <= 2 components for 5 templates; CDN key lengths 0..=32"
    ctx.assumptions += ["escapes are observed by recursive listings of a sandbox five levels deeper than any traversal the alphabet allows, plus decoy files next to every ancestor of the configured directory",
                        "RibbitTactClient's private validate_endpoint is represented by its whitelist in Paths!EndpointAdmitted; the protocol cache is driven with api/ribbit/<endpoint> directly"]
    return lib.finish(ctx, "model_checking", rule="one case = one (API, key string) or (API, key pair) executed in a fresh sandbox; cases are enumerated by TLC and pairwise distinct")
