"""X02 (growth) - CDN streaming: range planning and failure recovery.

spec/RangePlan.tla + spec/Recovery.tla + spec/Streaming.tla (properties P1-P10, D1-D4, F1-F3, R1-R7, L1-L6)
-> MC_Streaming checks the documented procedures / correct machines against the judge and the properties in
their own words and enumerates the programs per family (binding G); drv_streaming executes every program on the
real cascette-protocol streaming components (paused tokio clock where time matters); T_Streaming judges every
recorded event (binding T).
"""
import glob, json, os, shutil, time
from concurrent.futures import ThreadPoolExecutor
from . import lib

MODULE_MC = "MC_Streaming"
MODULE_T = "T_Streaming"
DRV = "drv_streaming"
IDS = ["FX02a", "FX02b", "FX02c", "FX02d", "FX02e", "FX02f", "FX02g", "FX02h", "FX02i"]

INV = {
    "plan": ["CanonConforms", "AdvIdealConforms", "AdvCodeLabelled", "SlicingAgrees", "NoWasteAgrees"],
    "ctor": ["ChunksPartition"],
    "rm": ["IdealDelayConforms", "BackoffShape", "RosTransient"],
    "fo": [],
    "rec": ["RecBounded", "RecBreaker", "RecNoRepeat", "RecStopsFirst", "RecResult", "RecJudgeAccepts", "RecNeverStuck"],
    "pool": ["PoolLimit", "PoolReuse", "PoolGuardIds"],
    "brk": ["BrkShape"],
    "cdn": ["CdnWalkShape", "CdnWantedIsBody"],
}


def known_findings(ctx):
    """Findings of this check listed as known: findings.d is the source KNOWN_FINDINGS.json is generated from."""
    out = []
    for p in sorted(glob.glob(os.path.join(lib.ROOT, "findings.d", "FX02*.json"))):
        f = json.load(open(p))
        if f.get("property") == "X02" and f.get("status", "known") == "known":
            out.append(f)
            if not any(x.get("id") == f["id"] for x in ctx.known.setdefault("findings", [])):
                ctx.known["findings"].append(f)
    # development aid (trying a fix in a scratch worktree, VERIF_REPO=...): ids to treat as fixed, i.e. NOT accepted
    fixed = set(filter(None, os.environ.get("X02_FIXED", "").split(",")))
    return sorted(f["id"] for f in out if f["id"] not in fixed)


def plan(quick):
    """(family, N, K) instances of MC_Streaming."""
    if quick:
        return [("plan", 5, 3), ("ctor", 5, 0), ("rm", 0, 0), ("fo", 3, 0), ("rec", 3, 1), ("rec", 3, 3),
                ("pool", 5, 1), ("pool", 5, 2), ("brk", 10, 0), ("cdn", 0, 2), ("cdn", 0, 3)]
    return [("plan", 6, 3), ("plan", 4, 4), ("ctor", 7, 0), ("rm", 0, 0), ("fo", 4, 0), ("rec", 4, 1), ("rec", 3, 2), ("rec", 4, 3),
            ("pool", 5, 1), ("pool", 6, 2), ("pool", 5, 3), ("brk", 13, 0), ("cdn", 0, 1), ("cdn", 0, 2), ("cdn", 0, 3)]


def mc_cfg(ctx, family, n, k, tier, invariants, tag):
    cfg = ctx.path(f"mc_{tag}.cfg")
    lib.write_cfg(cfg, {"KnownDeviations": "{}", "Family": f'"{family}"', "N": n, "K": k, "Tier": f'"{tier}"'},
                  "MCInit", "MCNext", invariants=invariants)
    return cfg


def mc_one(ctx, family, n, k):
    tag = f"{family}_{n}_{k}"
    cfg = mc_cfg(ctx, family, n, k, ctx.tier, INV[family] + ["Emit"], tag)
    progs = ctx.path(f"prog_{tag}.ndjson")
    r = lib.tlc(ctx, MODULE_MC, cfg, tagged_out={"PROGRAM": progs}, timeout=1700, workers=2 if family in ("rec", "fo", "pool") else 1,
                heap="6g")
    return {"family": family, "N": n, "K": k, "progs": progs, "programs": r["counts"]["PROGRAM"], "distinct": r["distinct"],
            "generated": r["generated"], "wall_s": r["wall_s"]}


def pinned(ctx):
    """The advanced coalescer AS CODED must be refuted by the model checker (regenerates FX02a/FX02b at model level)."""
    cfg = mc_cfg(ctx, "plan", 4, 2, "quick", ["AdvCodeConforms"], "pinned")
    r = lib.tlc(ctx, MODULE_MC, cfg, timeout=600, workers=1, expect_violation=True)
    refuted = "AdvCodeConforms" in r["invariant_violated"]
    ctx.cov["pinned_variant"] = {"AdvAsCoded satisfies P1-P6": "refuted by TLC" if refuted else "NOT refuted"}
    if not refuted:
        raise lib.ToolError("the code-shaped advanced coalescer is no longer refuted by the model: RangePlan!AdvAsCoded or the judge is out of date")


def program_of(evs):
    if not evs:
        return None
    ops = []
    for e in evs[1:]:
        if e.get("op") in ("call", "hang"):
            continue
        ops.append({k: v for k, v in e.items() if k not in ("res", "obs", "seq", "t")})
    return {"fam": evs[0].get("fam"), "cfg": evs[0].get("cfg"), "ops": ops}


def judge_trace(ctx, trace, source, kd, max_events=25000):
    cfg = ctx.path("t_streaming.cfg")
    lib.write_cfg(cfg, {"KnownDeviations": lib.tla_set(kd)}, "TInit", "TNext", invariants=["Done"])
    v = lib.judge(ctx, MODULE_T, cfg, trace, max_events=max_events)
    # the monitor keeps the first occurrences of each deviation per chunk and counts the rest
    listed = {}
    for _, fid in v["deviations"]:
        listed[fid] = listed.get(fid, 0) + 1
    ctx.stage("judge", source=source, events=v["events"], violations=v.get("nviol", len(v["violations"])),
              deviations={i: v.get("n_" + i, 0) for i in IDS if v.get("n_" + i, 0)}, wall_s=v["wall_s"])
    lib.classify_trace(ctx, v, trace, source, program_of=program_of)
    for i in IDS:
        extra = v.get("n_" + i, 0) - listed.get(i, 0)
        if extra > 0:
            lib.note_known(ctx, i, extra)
            ctx.cov["deviations_observed"][i] = ctx.cov["deviations_observed"].get(i, 0) + extra
    return v


def run_programs(ctx, progs, trace, source, kd, patience=30):
    d = lib.run_sharded(ctx, DRV, progs, trace, extra_args=["--patience", patience], shards=min(lib.NCPU, 8))
    n = len(lib.read_lines(progs))
    ctx.stage("run", source=source, programs=d.get("programs"), events=d.get("events"), hangs=d.get("hangs", 0), wall_s=d["wall_s"])
    if d.get("programs") != n:
        raise lib.ToolError(f"driver executed {d.get('programs')} of {n} programs")
    return judge_trace(ctx, trace, source, kd)


def replay(ctx, kd):
    obj = json.load(open(ctx.replay))
    p = ctx.path("replay_prog.ndjson")
    open(p, "w").write(json.dumps(obj["program"]) + "\n")
    trace = ctx.path("replay_trace.ndjson")
    lib.run_driver(DRV, ["--programs", p, "--out", trace])
    v = judge_trace(ctx, trace, "replay", kd)
    print(open(trace).read())
    print(json.dumps(v))
    return 1 if v["violations"] else 0


def selftest(ctx, trace, kd):
    """Binding self-test: corrupt one logged field / drop one event -> the monitor must flag exactly that."""
    lines = lib.read_lines(trace)
    cfg = ctx.path("t_streaming.cfg")

    def window(i):
        s, e = lib.run_of_line(lines, i + 1)
        return s, e

    def judge_lines(ls, name):
        p = ctx.path(name)
        open(p, "w").write("\n".join(ls) + "\n")
        return lib.tlc_trace(ctx, MODULE_T, cfg, p)

    jobs = {}   # name -> (lines of the untouched run, lines of the corrupted run, 1-based index of the touched event or None)

    # (a) plan (basic coalescer): an empty plan for a non-empty request
    def basic_ok(i):
        l = lines[i]
        if not ('"op":"coalesce"' in l and '"kind":"Ok"' in l and '"plan":[[' in l):
            return False
        s0, _ = window(i)
        return '"impl":"basic"' in lines[s0]
    ia = next(i for i in range(len(lines)) if basic_ok(i))
    s, e = window(ia)
    ev = json.loads(lines[ia]); ev["res"]["plan"] = []; ev["res"]["n"] = 0; ev["obs"].pop("eff", None)
    jobs["plan_emptied_flagged"] = (lines[s:e], lines[s:ia] + [json.dumps(ev, separators=(",", ":"))] + lines[ia + 1:e], ia - s + 1)
    # (b) rec: a successful result turned into an error
    ib = next(i for i, l in enumerate(lines) if '"op":"exec"' in l and '"res":{"id":' in l)
    s, e = window(ib)
    ev = json.loads(lines[ib]); ev["res"] = {"kind": "Err", "err": "Timeout", "code": 0, "beyond": False}
    jobs["rec_result_flipped_flagged"] = (lines[s:e], lines[s:ib] + [json.dumps(ev, separators=(",", ":"))] + lines[ib + 1:e], ib - s + 1)
    # (c) pool: one more active connection than guards alive
    ic = next(i for i, l in enumerate(lines) if '"op":"get"' in l and '"g":' in l)
    s, e = window(ic)
    ev = json.loads(lines[ic]); ev["obs"]["active"] += 1
    jobs["pool_books_corrupted_flagged"] = (lines[s:e], lines[s:ic] + [json.dumps(ev, separators=(",", ":"))] + lines[ic + 1:e], ic - s + 1)
    # (d) cdn: the order of two contacted servers swapped
    def two_ranks(i):       # two servers of DIFFERENT priority were contacted (equal priorities may be tried in any order)
        if '"contacted":["' not in lines[i]:
            return False
        c = json.loads(lines[i])["obs"]["contacted"]
        if len(c) < 2:
            return False
        pr = {x["h"]: x["prio"] for x in json.loads(lines[window(i)[0]])["cfg"]["servers"]}
        return pr[c[0]] != pr[c[1]]
    idc = next((i for i in range(len(lines)) if two_ranks(i)), None)
    if idc is not None:
        s, e = window(idc)
        ev = json.loads(lines[idc]); c = ev["obs"]["contacted"]; c[0], c[1] = c[1], c[0]
        jobs["cdn_order_swapped_flagged"] = (lines[s:e], lines[s:idc] + [json.dumps(ev, separators=(",", ":"))] + lines[idc + 1:e], idc - s + 1)
    # (e) drop an event that is not a run boundary (fo family: every event depends on the one before)
    idd = next(i for i, l in enumerate(lines) if '"op":"fail"' in l and not lib.is_new(lines[i + 1]) and not lib.is_new(lines[i - 1]))
    s, e = window(idd)
    jobs["drop_one_event_flagged"] = (lines[s:e], lines[s:idd] + lines[idd + 1:e], None)

    def one(item):
        name, (base_ls, bad_ls, idx) = item
        base = judge_lines(base_ls, f"st_{name}_0.ndjson")
        bad = judge_lines(bad_ls, f"st_{name}_1.ndjson")
        if idx is None:
            return name, len(bad["violations"]) > len(base["violations"])
        return name, idx in bad["violations"] and idx not in base["violations"]
    with ThreadPoolExecutor(max_workers=max(2, min(lib.NCPU, len(jobs)))) as ex:
        res = dict(ex.map(one, jobs.items()))
    ctx.cov["binding_selftest"] = res
    if not all(res.values()):
        raise lib.ToolError(f"binding self-test failed: {res}")


# real-clock programs (thorough): the breakers close again after their time-out
EXPIRY_PROGRAMS = [
    {"fam": "fo", "cfg": {"servers": [{"h": "a", "https": True, "prio": 10}, {"h": "b", "https": True, "prio": 20}]},
     "ops": [{"op": "fail", "h": "a", "err": {"kind": "HttpStatus", "code": 429}}, {"op": "fail", "h": "b", "err": {"kind": "HttpStatus", "code": 503}},
             {"op": "select", "set": ["a", "b"]}, {"op": "wait", "ms": 30000}, {"op": "select", "set": ["a", "b"]},
             {"op": "wait", "ms": 32000}, {"op": "select", "set": ["a", "b"]}, {"op": "select", "set": ["b"]}, {"op": "cleanup"},
             {"op": "select", "set": ["a"]}]},
    {"fam": "pool", "cfg": {"per_host": 2, "total": 4, "hosts": ["a", "b"]},
     "ops": [{"op": "add", "h": "a"}] + [{"op": "record", "h": "a", "ok": False}] * 10 +
            [{"op": "get", "h": "a"}, {"op": "wait", "ms": 30000}, {"op": "get", "h": "a"}, {"op": "wait", "ms": 33000},
             {"op": "get", "h": "a"}, {"op": "advance", "ms": 31000}, {"op": "get", "h": "a"}, {"op": "record", "h": "a", "ok": False},
             {"op": "get", "h": "a"}]},
]


def run_expiry(ctx):
    et = ctx.path("trace_expiry.ndjson")

    def one(ip):
        i, p = ip
        pp, tp = ctx.path(f"prog_expiry{i}.ndjson"), ctx.path(f"trace_expiry{i}.ndjson")
        open(pp, "w").write(json.dumps(p) + "\n")
        return lib.run_driver(DRV, ["--programs", pp, "--out", tp, "--patience", 120]), tp
    t0 = time.time()
    with ThreadPoolExecutor(max_workers=len(EXPIRY_PROGRAMS)) as ex:
        rs = list(ex.map(one, enumerate(EXPIRY_PROGRAMS)))
    with open(et, "w") as f:
        for _, tp in rs:
            f.write(open(tp).read())
    return et, rs, round(time.time() - t0, 2)


def run(ctx):
    kd = known_findings(ctx)
    lib.build([DRV])
    if ctx.replay:
        return replay(ctx, kd)
    bg = ThreadPoolExecutor(max_workers=1)
    fe = None if ctx.quick or os.environ.get("X02_ONLY") else bg.submit(run_expiry, ctx)
    # ---- model checking + program generation, families in parallel
    insts = plan(ctx.quick)
    only = set(filter(None, os.environ.get("X02_ONLY", "").split(",")))      # development aid: a subset of the families
    if only:
        insts = [t for t in insts if t[0] in only]
    nrand = 2000 if ctx.quick else 40000
    rtrace = ctx.path("trace_random.ndjson")
    dump = ctx.path("prog_random.ndjson")
    with ThreadPoolExecutor(max_workers=max(2, min(lib.NCPU, 6))) as ex:
        fp = ex.submit(pinned, ctx)
        fr = ex.submit(lib.run_driver, DRV, ["--random", nrand, "--out", rtrace, "--dump-programs", dump], env={"VERIF_SEED": ctx.seed})
        outs = list(ex.map(lambda t: mc_one(ctx, *t), insts))
        fp.result()
        drand = fr.result()
    allp = ctx.path("prog_all.ndjson")
    total = 0
    with open(allp, "w") as f:
        for o in outs:
            ctx.cov["states"] += o["distinct"]
            ctx.cov["transitions"] += o["generated"]
            ctx.stage("mc", family=o["family"], N=o["N"], K=o["K"], distinct_states=o["distinct"], programs=o["programs"], wall_s=o["wall_s"])
            if o["programs"] == 0:
                raise lib.ToolError(f"MC_Streaming {o['family']} emitted no program")
            with open(o["progs"]) as g:
                shutil.copyfileobj(g, f)
            total += o["programs"]
            os.remove(o["progs"])
    _, distinct = lib.count_distinct(allp)
    trace = ctx.path("trace_all.ndjson")
    run_programs(ctx, allp, trace, f"MC_Streaming {ctx.tier}", kd)
    ls = lib.read_lines(trace)
    for needle in ('"fam":"plan"', '"fam":"rec"', '"fam":"pool"', '"fam":"fo"', '"fam":"cdn"'):
        i = next((j for j in range(len(ls) - 1, -1, -1) if lib.is_new(ls[j]) and needle in ls[j]), None)
        if i is not None:
            s, e = lib.run_of_line(ls, i + 1)
            ctx.cov["samples"].append({"source": "MC_Streaming", "trace": [json.loads(x) for x in ls[s:e]]})
    if not only:
        selftest(ctx, trace, kd)
    os.remove(trace)
    # ---- seeded random programs: large offsets (2^24-byte hulls at 0, 2^32, top of u64), bandwidth-scaled thresholds, long pool histories
    d = drand
    ctx.stage("run", source="random", programs=d.get("programs"), events=d.get("events"), wall_s=d["wall_s"])
    _, dr = lib.count_distinct(dump)
    judge_trace(ctx, rtrace, f"random seed={ctx.seed}", kd)
    total += nrand
    distinct += dr
    # ---- thorough: real-clock expiry of the breakers (60 s windows; started at the beginning, mostly asleep)
    if fe is not None:
        et, rs, wall = fe.result()
        ctx.stage("run", source="expiry (real clock)", programs=sum(r.get("programs", 0) for r, _ in rs),
                  events=sum(r.get("events", 0) for r, _ in rs), wall_s=wall)
        judge_trace(ctx, et, "expiry (real clock)", kd)
        total += len(EXPIRY_PROGRAMS)
        distinct += len(EXPIRY_PROGRAMS)
    bg.shutdown()
    ctx.cov["traces_validated_against_impl"] = total
    ctx.cov["evaluations"] = total
    ctx.cov["distinct_nontrivial"] = distinct
    ctx.cov["exhaustive"] = True
    ctx.cov["exhaustive_scope"] = ("per family, every program of the listed bounds (plan: every request of <= K ranges over N offsets x the configuration grid "
                                   "x base 0 / top of u64; fo, pool: every operation sequence of length N; rec: every outcome script of length <= N x "
                                   "configurations; brk: every success/failure pattern of N records); the random tier is not exhaustive")
    ctx.assumptions += ["TLC, the CommunityModules Json reader, tokio's paused clock and the driver's projection (public accessors only) are trusted",
                        "range offsets are judged relative to a base the driver adds (0, 2^32, u64::MAX - lim): the specification is translation invariant, the code is not",
                        "FailoverManager / ConnectionPool measure their windows with std::time::Instant: expiry is exercised on the real clock in the thorough tier only (two programs)",
                        "the choice among available servers (weighted random) and the network-condition factor of a delay are left open"]
    return lib.finish(ctx, "model_checking",
                      rule="programs = initial states / complete operation sequences enumerated by TLC from MC_Streaming (one instance per family and bound) plus seeded "
                           "random programs; distinct = distinct program texts (md5); every program contains at least one call of the code under test")
