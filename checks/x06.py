"""X06 - memory pools, zero-copy buffers and streaming helpers (growth of the specification).

spec/Pools.tla (EXTENDS Cache.tla: reference models of the pools, views, ZeroCopyCache as a bounded map, streaming, strings)
  -> MC_Pools (a) design level: refutes the stated properties on the code-shaped variants (capacity below the request, a returned
     buffer never reused by its type, ref_count not truthful) and prints the counterexamples, which are replayed on the real
     code; (b) binding G: enumerates the programs of every family, the streaming tables and the retention-limit scripts
  -> drv_pools executes them on the real cascette-cache / cascette-protocol types (sequential programs, real threads with
     seeded perturbation, a paused tokio clock for the background manager)
  -> T_Pools judges every recorded event (binding T / E) and searches linearizations of the concurrent histories (as T_Lin).
"""
import glob, json, os, random, shutil, threading, time
from concurrent.futures import ThreadPoolExecutor
from . import lib

PROP = "X06"
MODULE_MC = "MC_Pools"
MODULE_T = "T_Pools"
DRV = "drv_pools"
LOCK = threading.Lock()      # the families run as parallel pipelines; ctx is shared
WIDE = False                 # set by run(): thorough tier


# --------------------------------------------------------------------------- findings
def known_findings(ctx):
    """Known (not fixed) findings of this check: findings.d/FX06*.json is the source; nothing is written."""
    ids = set(lib.known_ids(ctx, PROP))
    have = {f["id"] for f in ctx.known.get("findings", [])}
    for p in sorted(glob.glob(os.path.join(lib.ROOT, "findings.d", "FX06*.json"))):
        f = json.load(open(p))
        if f.get("property") == PROP:
            if f.get("status", "known") == "known":
                ids.add(f["id"])
            else:
                ids.discard(f["id"])
            if f["id"] not in have:
                ctx.known.setdefault("findings", []).append(f)
    # development aid (like VERIF_REPO): judge a scratch worktree that carries a proposed fix as if the finding were
    # already recorded as fixed, e.g. VERIF_X06_KNOWN=FX06b,FX06h.  Registered commands never set it.
    if "VERIF_X06_KNOWN" in os.environ and lib.REPO != "/repo":
        ids = {x for x in os.environ["VERIF_X06_KNOWN"].split(",") if x}
    return sorted(ids)


# --------------------------------------------------------------------------- judge (sequential monitor)
def t_cfg(ctx, kd, name="t_pools.cfg"):
    """(written once per name: the pipelines run side by side and TLC copies the file while others would rewrite it)"""
    cfg = ctx.path(name)
    with LOCK:
        if not os.path.exists(cfg):
            lib.write_cfg(cfg + ".tmp", {"KnownDeviations": lib.tla_set(kd)}, "TInit", "TNext", invariants=["Done"])
            os.replace(cfg + ".tmp", cfg)
    return cfg


def is_boundary(line):
    return '"op":"new"' in line or '"op":"hammer"' in line or '"op":"cintern"' in line


def judge(ctx, trace, kd, max_events=12000, cfg=None):
    """Like lib.judge; T_Pools reports deviations as [first line, finding, count] (constant-size monitor state)."""
    cfg = cfg or t_cfg(ctx, kd)
    chunks = lib.split_trace(trace, trace + ".part", is_boundary, max_events)
    offs, o = [], 0
    for _, n in chunks:
        offs.append(o)
        o += n
    with ThreadPoolExecutor(max_workers=min(lib.NCPU, 16)) as ex:
        vs = list(ex.map(lambda i: lib.tlc_trace(ctx, MODULE_T, cfg, chunks[i][0], timeout=1500), range(len(chunks))))
    v = {"events": 0, "violations": [], "nviol": 0, "deviations": [], "dev_triples": [], "devcount": {}, "wall_s": 0.0, "chunks": len(chunks)}
    for i, x in enumerate(vs):
        v["events"] += x["events"]
        v["nviol"] += x["nviol"]
        v["violations"] += [ln + offs[i] for ln in x["violations"]]
        for first, fid, n in x["deviations"]:
            v["deviations"].append([first + offs[i], fid])
            v["dev_triples"].append((first + offs[i], fid, n))
            v["devcount"][fid] = v["devcount"].get(fid, 0) + n
        v["wall_s"] = max(v["wall_s"], x["wall_s"])
    if v["events"] != o:
        raise lib.ToolError(f"monitor consumed {v['events']} of {o} events")
    for p, _ in chunks:
        os.remove(p)
    return v


PROG_FIELDS = ("op", "s", "t", "n", "m", "c", "d", "a", "b", "x", "k", "p", "e", "api", "ttl", "min", "reads", "exp", "chunks", "size",
               "marks", "ask", "cp", "tc", "bp", "cv", "task", "ms", "resp")


def program_of(evs):
    if not evs:
        return None
    if evs[0].get("op") in ("hammer", "cintern", "crun"):
        return {"kind": "conc", "cfg": evs[0]["cfg"]}
    if evs[0].get("op") != "new":
        return None
    new = evs[0]
    ops = [{k: e[k] for k in PROG_FIELDS if k in e} for e in evs[1:] if e.get("op") not in ("hang", "bgpanic")]
    return {"kind": new["kind"], "cfg": new["cfg"], "keys": new.get("keys", [1, 2]), "ops": ops}


MARKS = {  # operations / answers that must have been exercised on the real code
    "pool:alloc": '"op":"alloc"', "pool:get": '"op":"get"', "pool:fill": '"op":"fill"', "pool:free": '"op":"free"', "pool:ret": '"op":"ret"',
    "pool:into_vec": '"op":"into"', "pool:foreign": '"op":"foreign"', "pool:warm_up": '"op":"warm"', "pool:clear": '"op":"clear"',
    "pool:allocate_bytes": '"op":"allocb"', "pool:check": '"op":"check"',
    "kind:ngdp": '"kind":"ngdp"', "kind:tl": '"kind":"tl"', "kind:bbp": '"kind":"bbp"', "kind:zcp": '"kind":"zcp"', "kind:sized": '"kind":"sized"',
    "kind:zc": '"kind":"zc"', "kind:zcc": '"kind":"zcc"', "kind:stream": '"kind":"stream"', "kind:str": '"kind":"str"', "kind:bg": '"kind":"bg"',
    "api:obj": '"api":"obj"', "api:tls": '"api":"tls"', "api:raii": '"api":"raii"',
    "zc:mk": '"op":"mk"', "zc:clone": '"op":"clone"', "zc:drop": '"op":"drop"', "zc:info": '"op":"info"', "zc:slice": '"op":"slice"',
    "zc:append": '"op":"append"', "zc:reader": '"op":"newr"', "zc:seek": '"op":"seek"', "zc:read_exact_bytes": '"op":"rexact"',
    "zc:read_remaining": '"op":"rrem"', "zc:peek": '"op":"peek"', "zc:io_read": '"op":"read"', "zc:async_read": '"op":"aread"',
    "zcc:put": '"op":"put"', "zcc:gslice": '"op":"gslice"', "zcc:greader": '"op":"greader"', "zcc:remove": '"op":"remove"',
    "zcc:contains": '"op":"contains"', "zcc:compact": '"op":"compact"', "zcc:hot": '"op":"hot"', "zcc:probe": '"op":"probe"',
    "stream:process": '"op":"proc"', "stream:reconstruct": '"op":"recon"', "stream:validate_chunks": '"op":"vchunks"',
    "stream:content_stream": '"op":"cstream"', "stream:stats": '"op":"sstats"',
    "str:intern": '"op":"intern"', "str:format_cache_key": '"op":"key"', "str:endpoint_hash": '"op":"ehash"',
    "bg:start": '"op":"start"', "bg:shutdown": '"op":"shutdown"', "bg:submit": '"op":"submit"', "bg:tune": '"op":"tune"', "bg:press": '"op":"press"',
    "bg:advance": '"op":"adv"',
    "conc:hammer": '"op":"hammer"', "conc:intern": '"op":"cintern"',
    "answer:slice_some": '"some":true', "answer:none": '"none":true', "answer:hit": '"hit":true', "answer:miss": '"hit":false',
    "answer:eof": '"err":"eof"', "answer:bad_seek": '"err":"input"',
}


def histogram(ctx, trace):
    local = {k: 0 for k in MARKS}
    with open(trace) as f:
        for line in f:
            for k, m in MARKS.items():
                if m in line:
                    local[k] += 1
    with LOCK:
        h = ctx.cov.setdefault("events_by_kind", {k: 0 for k in MARKS})
        for k, n in local.items():
            h[k] += n


def judge_and_classify(ctx, trace, source, kd):
    histogram(ctx, trace)
    v = judge(ctx, trace, kd)
    with LOCK:
        stage(ctx, "judge", source=source, events=v["events"], violations=v["nviol"], deviations=dict(v["devcount"]), wall_s=v["wall_s"])
        for fid, n in v["devcount"].items():
            lib.note_known(ctx, fid, n)
            ctx.cov["deviations_observed"][fid] = ctx.cov["deviations_observed"].get(fid, 0) + n
        classify(ctx, v["violations"], trace, source)
    return v


def classify(ctx, violations, trace, source, max_reports=5):
    """lib.classify_trace with this check's run boundaries (single-line concurrent runs)."""
    if not violations:
        return
    lines = lib.read_lines(trace)
    seen = set()
    for ln in violations:
        s, e = lib.run_of_line(lines, ln, is_boundary)
        if s in seen:
            continue
        seen.add(s)
        if len(seen) > max_reports:
            break
        evs = [json.loads(x) for x in lines[s:e]]
        if evs and evs[0].get("op") in ("hammer", "cintern"):      # keep the replay file small
            evs[0] = dict(evs[0], ops=evs[0]["ops"][:40] + ["..."])
        lib.report_violation(ctx, f"{source}: event {ln - s} of run at line {s+1} not explained by the specification",
                             {"property": ctx.id, "source": source, "program": program_of([json.loads(lines[s])] + evs[1:]),
                              "offending_event_index": ln - s, "trace": evs[: ln - s + 1],
                              "explanation": "no action of the specification (ideal or listed deviation) explains this event"})
    ctx.cov["violating_runs"] = ctx.cov.get("violating_runs", 0) + len(seen)


def run_programs(ctx, progs, trace, shards):
    d = lib.run_sharded(ctx, DRV, progs, trace, shards=shards)
    if d.get("hangs"):
        lib.log(f"[{PROP}] {d['hangs']} program(s) hung (recorded as hang events)")
    return d


# --------------------------------------------------------------------------- TLC stages
ENUMERATED = ("ngdp", "tl", "bbp", "zcp", "sized", "zce", "zcr", "zcc", "str", "bg")


def stage(ctx, name, **kw):
    ctx.stage(name, at_s=round(time.time() - ctx.t0, 1), **kw)


def mc_constants(fams, depth):
    """depth: family -> 3 | 4 | 5"""
    return {"Fams": lib.tla_set(fams), "F4": lib.tla_set([f for f in fams if depth.get(f) == 4]),
            "F5": lib.tla_set([f for f in fams if depth.get(f) == 5]), "Wide": "TRUE" if WIDE else "FALSE"}


def add_states(ctx, r):
    with LOCK:
        ctx.cov["states"] += r["distinct"]
        ctx.cov["transitions"] += r["generated"]


def family_of(prog_line):
    """family of a generated program line (the two zc families differ in their first operation)"""
    p = json.loads(prog_line)
    if p["kind"] == "zc":
        return "zce" if p["ops"][0]["op"] == "mk" else "zcr"
    return p["kind"]


def enumerate_all(ctx, depth):
    """One TLC run enumerates every family's programs, the streaming tables and the retention-limit scripts; one sharded driver
    run executes them."""
    fams = list(ENUMERATED) + ["stream", "limits"]
    cfg = ctx.path("gen_all.cfg")
    lib.write_cfg(cfg, mc_constants(fams, depth), "AllInit", "GenNext", invariants=["Emit", "EmitTab", "EmitLim"], constraints=["Constr"])
    progs = ctx.path("prog_all.ndjson")
    r = lib.tlc(ctx, MODULE_MC, cfg, tagged_out={"PROGRAM": progs}, timeout=1500, workers=min(lib.NCPU, 8))
    add_states(ctx, r)
    # TLC's workers print in a nondeterministic order: sort, so that traces (and the self-test samples) are reproducible
    ls = sorted(lib.read_lines(progs))
    open(progs, "w").write("\n".join(ls) + ("\n" if ls else ""))
    n = r["counts"]["PROGRAM"]
    per = {}
    for l in ls:
        f = family_of(l)
        per[f] = per.get(f, 0) + 1
    with LOCK:
        stage(ctx, "mc-gen", depth={f: depth.get(f, 3) for f in ENUMERATED}, distinct_states=r["distinct"], programs=n,
                  programs_by_kind=per, wall_s=r["wall_s"])
    missing = [f for f in ENUMERATED + ("stream",) if not per.get(f)]
    if missing:
        raise lib.ToolError(f"no program was generated for {missing}")
    ctx.cov["programs_by_family"] = per      # (the retention-limit scripts are counted with the pool they fill)
    trace = ctx.path("trace_all.ndjson")
    d = run_programs(ctx, progs, trace, shards=16)
    with LOCK:
        stage(ctx, "run", source="enumeration", programs=d.get("programs"), events=d.get("events"), hangs=d.get("hangs"), wall_s=d["wall_s"])
    if d.get("programs") != n:
        raise lib.ToolError(f"driver executed {d.get('programs')} of {n} programs")
    _, dn = lib.count_distinct(progs)
    os.remove(progs)
    return n, dn, trace


def samples_by_kind(ctx, trace, want=1500):
    """The first runs of every kind of a trace (about `want` events each) as lists of 0-based line numbers: self-test samples."""
    lines = lib.read_lines(trace)
    out, i = {}, 0
    while i < len(lines):
        j = i + 1
        while j < len(lines) and not is_boundary(lines[j]):
            j += 1
        if lib.is_new(lines[i]):
            kind = json.loads(lines[i])["kind"]
            if kind == "zc" and j > i + 1:          # entries / slices (first operation mk) and readers apart
                kind = "zce" if '"op":"mk"' in lines[i + 1] else "zcr"
            cur = out.setdefault(kind, [])
            if len(cur) < want:
                cur.extend(range(i, j))
        i = j
    for k in ("ngdp", "zcc", "sized", "zce", "bg"):
        ix = out.get(k, [])
        if ix and len(ctx.cov["samples"]) < 6:
            s, e = lib.run_of_line(lines, ix[len(ix) * 2 // 3] + 1, is_boundary)
            ctx.cov["samples"].append({"source": f"MC_Pools {k}", "trace": [json.loads(z) for z in lines[s:e]][:10]})
    return lines, out


def design_level(ctx):
    """TLC must refute each stated property on the code-shaped variant; the counterexamples (WITNESS programs) are replayed
    on the real code, where the listed finding must explain them (or, once fixed, nothing deviates)."""
    plan = [("FX06a", "zcp", "WCapacity"), ("FX06b", "sized", "WReuse"), ("FX06c", "zce", "WRefCount")]

    def one(item):
        fid, family, inv = item
        cfg = ctx.path(f"design_{family}.cfg")
        lib.write_cfg(cfg, mc_constants([family], {}), "GenInit", "GenNext", invariants=[inv], constraints=["Constr"])
        r = lib.tlc(ctx, MODULE_MC, cfg, timeout=600, expect_violation=True, workers=1)
        add_states(ctx, r)
        ws = r["tagged"].get("WITNESS", [])
        m = {"invariant": ws[0]["inv"] if ws else inv, "refuted": inv in r["invariant_violated"], "depth": r.get("depth"),
             "witness_ops": ws[0]["program"]["ops"] if ws else None}
        if not m["refuted"] or not ws:
            raise lib.ToolError(f"the code-shaped model does not refute {inv}")
        return fid, m, ws[0]["program"]

    with ThreadPoolExecutor(max_workers=3) as ex:
        res = list(ex.map(one, plan))
    model = {fid: m for fid, m, _ in res}
    wit = [w for _, _, w in res]
    ctx.cov.setdefault("design_level", {})["code_shaped_refutations"] = model
    p = ctx.path("prog_witness.ndjson")
    open(p, "w").write("".join(json.dumps(w) + "\n" for w in wit))
    trace = ctx.path("trace_witness.ndjson")
    lib.run_driver(DRV, ["--programs", p, "--out", trace])
    with LOCK:
        stage(ctx, "mc-design", refuted={k: m["refuted"] for k, m in model.items()}, witnesses=len(wit))
    return len(wit), trace, model


def judge_sections(ctx, sections, kd, cfg=None, max_events=30000):
    """Judge several traces in ONE chunked monitor pass (TLC start-up dominates on a busy machine).
    sections: [(name, path)].  Returns {name: {"violations": [1-based local lines], "nviol", "devcount": {fid: n}, "events"}}.
    A deviation count is attributed to the section of the finding's first line within a chunk (sections are far larger than chunks
    only for the enumeration; the split is informational)."""
    big = ctx.path("trace_sections_%d.ndjson" % len(os.listdir(ctx.work)))
    offs, o = [], 0
    with open(big, "w") as out:
        for name, path in sections:
            n = 0
            with open(path) as f:
                for line in f:
                    out.write(line)
                    n += 1
            offs.append((name, o, o + n))
            o += n
    v = judge(ctx, big, kd, max_events=max_events, cfg=cfg)
    os.remove(big)
    res = {name: {"violations": [], "nviol": 0, "devcount": {}, "events": e - s} for name, s, e in offs}

    def sec(line):
        return next(name for name, s, e in offs if s < line <= e)

    for ln in v["violations"]:
        name = sec(ln)
        res[name]["violations"].append(ln - next(s for n2, s, e in offs if n2 == name))
        res[name]["nviol"] += 1
    for first, fid, n in v["dev_triples"]:
        d = res[sec(first)]["devcount"]
        d[fid] = d.get(fid, 0) + n
    res["_total"] = {"nviol": v["nviol"], "devcount": v["devcount"], "events": v["events"], "wall_s": v["wall_s"], "chunks": v["chunks"],
                     "listed": len(v["violations"])}
    return res


# --------------------------------------------------------------------------- concurrent runs
def conc_programs(seed, quick):
    nlin = 48 if quick else 400
    lin = [{"kind": "conc", "cfg": {"target": "ngdp", "mode": "lin", "threads": 2 + (i % 5 == 0), "per": 3 + (i % 2 if i % 5 else 0),
                                    "pre": i % 3, "seed": seed * 1000 + i, "classes": 1 + (i % 2)}} for i in range(nlin)]
    nh = 4 if quick else 16
    ham = [{"kind": "conc", "cfg": {"target": t, "mode": "hammer", "threads": 2 + 2 * (i % 2), "per": 400 if quick else 1500, "seed": seed * 1000 + i}}
           for i in range(nh) for t in ("ngdp", "sized")]
    ham += [{"kind": "conc", "cfg": {"target": "ngdp", "mode": "hammer", "threads": 1, "per": 300, "seed": seed}}]
    # bursts: one idle buffer per class, then every thread allocates / returns in lock step
    ham += [{"kind": "conc", "cfg": {"target": t, "mode": "hammer", "threads": 3 + i % 2, "per": 2 + i % 3, "pre": 1, "lock": True, "seed": seed * 1000 + i}}
            for i in range(60 if quick else 600) for t in ("sized", "ngdp")]
    ham += [{"kind": "conc", "cfg": {"target": "intern", "mode": "words", "threads": 2 + i % 3, "per": 12, "seed": seed * 100 + i}} for i in range(nh)]
    return lin, ham


def judge_lin(ctx, trace, kd, chunk=12):
    """Linearizability search per crun line. Returns (n, strict:set, relaxed:dict line->findings, states, transitions)."""
    lines = lib.read_lines(trace)
    cfg = ctx.path("t_pools_lin.cfg")
    lib.write_cfg(cfg, {"KnownDeviations": lib.tla_set(kd)}, "LInit", "LNext", invariants=["Emit", "Count"])
    parts = []
    for i in range(0, len(lines), chunk):
        p = f"{trace}.c{i}"
        open(p, "w").write("\n".join(lines[i:i + chunk]) + "\n")
        parts.append((i, p, len(lines[i:i + chunk])))

    def one(part):
        off, p, k = part
        r = lib.tlc(ctx, MODULE_T, cfg, workers=1, timeout=1500, env={"TRACE": p}, heap="3g")
        os.remove(p)
        runs = {x["run"] for x in r["tagged"].get("RUNS", [])}
        if runs != set(range(1, k + 1)):
            raise lib.ToolError(f"T_Pools (lin) read runs {sorted(runs)} of {k}")
        return off, r["tagged"].get("LINOK", []), r["distinct"], r["generated"]

    with ThreadPoolExecutor(max_workers=max(1, lib.NCPU)) as ex:
        res = list(ex.map(one, parts))
    strict, relaxed, states, trans = set(), {}, 0, 0
    for off, oks, d, g in res:
        states += d
        trans += g
        for o in oks:
            if o["relax"]:
                relaxed.setdefault(off + o["run"], sorted(o["relax"]))
            else:
                strict.add(off + o["run"])
    return len(lines), strict, relaxed, states, trans


def conc_run(ctx):
    """Execute the concurrent programs (one driver process at a time: they are timing sensitive)."""
    lin, ham = conc_programs(ctx.seed, ctx.quick)
    pl, ph = ctx.path("prog_lin.ndjson"), ctx.path("prog_ham.ndjson")
    open(pl, "w").write("".join(json.dumps(x) + "\n" for x in lin))
    open(ph, "w").write("".join(json.dumps(x) + "\n" for x in ham))
    tl_, th = ctx.path("trace_lin.ndjson"), ctx.path("trace_ham.ndjson")
    d1 = lib.run_driver(DRV, ["--programs", pl, "--out", tl_])
    d2 = lib.run_driver(DRV, ["--programs", ph, "--out", th])
    with LOCK:
        stage(ctx, "run", source="conc", lin_runs=d1.get("programs"), quiescent_runs=d2.get("programs"), hangs=d1.get("hangs", 0) + d2.get("hangs", 0))
    if d1.get("programs") != len(lin) or d2.get("programs") != len(ham):
        raise lib.ToolError("driver did not execute every concurrent program")
    return len(lin) + len(ham), tl_, th


def lin_stage(ctx, tl_, kd):
    """Linearizability search over the crun lines; the last line is a self-test: a copy of the first run with its quiescent
    snapshot corrupted - the search must reject it (and only it)."""
    lines = lib.read_lines(tl_)
    run = json.loads(lines[0])
    fin = [o for o in run["ops"] if o["op"] == "snap" and o["t"] == 0][-1]
    fin["st"][0] += 1
    p = ctx.path("trace_lin_st.ndjson")
    open(p, "w").write("\n".join(lines + [json.dumps(run, separators=(",", ":"))]) + "\n")
    n, strict, relaxed, states, trans = judge_lin(ctx, p, kd, chunk=25)
    n -= 1
    st_ok = n + 1 not in strict and n + 1 not in relaxed and (1 in strict or 1 in relaxed)
    strict.discard(n + 1)
    relaxed.pop(n + 1, None)
    bad = [i for i in range(1, n + 1) if i not in strict and i not in relaxed]
    with LOCK:
        ctx.cov["monitor_states"] = ctx.cov.get("monitor_states", 0) + states
        for i in sorted(set(relaxed) - strict):
            for fid in relaxed[i]:
                lib.note_known(ctx, fid)
                ctx.cov["deviations_observed"][fid] = ctx.cov["deviations_observed"].get(fid, 0) + 1
        for i in bad[:4]:
            r = json.loads(lines[i - 1])
            lib.report_violation(ctx, f"conc lin seed={ctx.seed}: run {i} is not linearizable w.r.t. the pool specification",
                                 {"property": PROP, "source": "conc-lin", "program": {"kind": "conc", "cfg": r["cfg"]}, "history": r["ops"],
                                  "explanation": "TLC found no order of the operation parts, consistent with real-time order, in which the "
                                                 "sequential pool specification (Pools.tla PART P, property L) produces these results"})
        stage(ctx, "judge", source="conc-lin", runs=n, linearizable=len(strict), only_with_known_deviation=len(set(relaxed) - strict),
                  not_linearizable=len(bad), monitor_states=states)
        if len(ctx.cov["samples"]) < 6:
            ctx.cov["samples"].append({"source": "conc lin", "trace": [json.loads(lines[0])]})
    return st_ok


# --------------------------------------------------------------------------- seeded random programs
CT = ["config", "encoding", "archive", "root", "install", "download", "blte", "generic"]


def rnd_pool(rng, kind, length):
    cfg = {}
    get, ret = ("get", "ret") if kind in ("bbp", "zcp") else ("alloc", "free")
    if kind == "bbp":
        cfg = {"api": rng.choice(["obj", "tls", "raii"])}
    sizes = {"ngdp": [0, 1, 100, 5000, 16384, 16385, 100000, 262144, 262145, 300000, 8388608, 8388609],
             "tl": [0, 1, 100, 1000, 16384, 16385, 20000, 100000, 262144, 262145],
             "bbp": [0, 1, 100, 1000, 1023, 1024, 2000, 60000, 65535, 65536, 70000, 1048577],
             "zcp": [0, 1, 100, 1000, 1024, 1025, 1500, 2000, 2048, 2049, 4096, 70000],
             "sized": [0, 100, 20000, 300000]}[kind]
    caps = {"ngdp": [0, 100, 16384, 20000, 262144, 300000], "tl": [0, 100, 5000, 16384, 20000, 100000, 300000],
            "bbp": [0, 100, 500, 1024, 2000, 30000, 65536, 1048576, 1048577], "zcp": [0, 100, 1023, 1024, 1500, 2048, 3000, 70000],
            "sized": [0, 20000, 300000]}[kind]
    held, filled, owned, ops, nxt, nb = [], {}, set(), [], 1, 0
    while len(ops) < length:
        r = rng.random()
        if r < 0.34 and len(held) < 6:
            op = {"op": get, "s": nxt, "n": rng.choice(sizes)}
            if kind == "sized":
                op["t"] = rng.choice(CT if rng.random() < 0.3 else ["config", "root", "generic", "archive", "download"])
                if op["t"] == "encoding" and rng.random() < 0.5:
                    continue
            held.append(nxt)
            filled[nxt] = 0
            nxt += 1
            ops.append(op)
        elif r < 0.5 and held:
            s = rng.choice(held)
            m = rng.choice([1, 3, 5, 40]) if filled[s] < 60 else 1
            filled[s] += m
            ops.append({"op": "fill", "s": s, "m": m})
        elif r < 0.78 and held:
            s = held.pop(rng.randrange(len(held)))
            ops.append({"op": ret, "s": s})
        elif r < 0.88:
            ops.append({"op": "foreign", "c": rng.choice(caps), "m": rng.choice([0, 0, 2])})
        elif r < 0.91 and kind in ("ngdp", "sized"):
            ops.append({"op": "warm"})
        elif r < 0.94 and kind in ("ngdp", "tl", "zcp", "sized"):
            ops.append({"op": "clear"})
        elif r < 0.96 and kind == "ngdp" and nb < 2:
            nb += 1
            ops.append({"op": "allocb", "n": rng.choice([0, 100, 20000])})
        elif r < 0.98 and kind == "bbp" and cfg["api"] == "raii" and [s for s in held if s not in owned]:
            s = rng.choice([s for s in held if s not in owned])
            owned.add(s)
            ops.append({"op": "into", "s": s})
        elif r >= 0.98:
            ops.append({"op": "check"})
    ops.append({"op": "check"})
    return {"kind": kind, "cfg": cfg, "ops": ops}


def rnd_zc(rng, length):
    datas = [[], [7], [1, 2, 3], [1, 2, 3, 4, 5, 6, 7, 8, 9], [0, 255, 0, 255]]
    kinds, ops, nxt = {}, [], 1          # slot -> "e" | "s" | "r", lengths are not tracked: any numbers are legal arguments
    while len(ops) < length:
        r = rng.random()
        ents = [s for s, k in kinds.items() if k == "e"]
        rds = [s for s, k in kinds.items() if k == "r"]
        es = [s for s, k in kinds.items() if k in "es"]
        cnt = lambda: rng.choice([0, 1, 2, 3, 4, 5, 9, 10, -1])
        if (r < 0.12 and len(kinds) < 6) or not kinds:
            ops.append({"op": rng.choice(["mk", "fromm"]), "s": nxt, "d": rng.choice(datas)})
            kinds[nxt] = "e"
            nxt += 1
        elif r < 0.2 and es and len(kinds) < 6:
            s = rng.choice(es)
            ops.append({"op": "clone", "s": s, "t": nxt})
            kinds[nxt] = kinds[s]
            nxt += 1
        elif r < 0.3 and len(kinds) > 1:
            s = rng.choice(list(kinds))
            del kinds[s]
            ops.append({"op": "drop", "s": s})
        elif r < 0.42 and es:
            ops.append({"op": "info", "s": rng.choice(es)})
        elif r < 0.56 and ents and len(kinds) < 7:
            a, b = rng.choice([0, 1, 2, 3, 5, 9, 10]), rng.choice([0, 1, 2, 3, 5, 9, 10, -1])
            ops.append({"op": "slice", "s": rng.choice(ents), "t": nxt, "a": a, "b": b})
            nxt += 1                  # the slice exists only if the answer was Some: it is never used again (numbers are not reused)
        elif r < 0.62 and ents and len(kinds) < 6:
            ops.append({"op": "append", "s": rng.choice(ents), "t": nxt, "x": rng.choice(datas)})
            kinds[nxt] = "e"
            nxt += 1
        elif r < 0.7 and ents and len(kinds) < 6:
            if rng.random() < 0.5:
                ops.append({"op": "reader", "s": rng.choice(ents), "t": nxt})
            else:
                ops.append({"op": "newr", "t": nxt, "d": rng.choice(datas)})
            kinds[nxt] = "r"
            nxt += 1
        elif r < 0.97 and rds:
            t = rng.choice(rds)
            o = rng.choice(["seek", "rexact", "rrem", "peek", "read", "aread", "read", "rexact"])
            op = {"op": o, "t": t}
            if o == "seek":
                op["p"] = cnt()
            elif o in ("read", "aread"):
                op["n"] = rng.choice([0, 1, 2, 3, 5, 16])
            elif o != "rrem":
                op["n"] = cnt()
            ops.append(op)
        elif ents and rng.random() < 0.3:
            ops.append({"op": "expired", "s": rng.choice(ents), "ttl": rng.choice(["zero", "huge"])})
    return {"kind": "zc", "cfg": {}, "ops": ops}


def rnd_zcc(rng, length):
    mx = rng.choice([1000, 1000, 4, 6, 0])
    keys = [1, 2, 3]
    datas = [[], [1], [4, 5], [1, 2, 3], [1, 2, 3, 4, 5], [9, 8, 7, 6, 5, 4, 3]]
    ops, held, nxt = [], [], 1
    while len(ops) < length:
        r = rng.random()
        k = rng.choice(keys)
        if r < 0.3:
            ops.append({"op": "put", "k": k, "d": rng.choice(datas)})
        elif r < 0.45 and len(held) < 4:
            ops.append({"op": "get", "k": k, "s": nxt})
            held.append(nxt)
            nxt += 1
        elif r < 0.55:
            ops.append({"op": "gslice", "k": k, "a": rng.choice([0, 1, 2, 3, 9]), "b": rng.choice([0, 1, 2, 3, 5, 9, -1])})
        elif r < 0.6:
            ops.append({"op": "greader", "k": k})
        elif r < 0.68:
            ops.append({"op": rng.choice(["remove", "contains"]), "k": k})
        elif r < 0.71:
            ops.append({"op": "clear"})
        elif r < 0.75:
            ops.append({"op": "compact", "ttl": rng.choice(["zero", "huge", "huge"])})
        elif r < 0.85 and held:
            ops.append({"op": "drop", "s": held.pop(rng.randrange(len(held)))})
        elif r < 0.92:
            ops.append({"op": "hot", "min": rng.choice([0, 1, 2, 3])})
        else:
            ops.append({"op": "probe"})
    ops.append({"op": "probe"})
    return {"kind": "zcc", "cfg": {"max": mx}, "keys": keys, "ops": ops}


def rnd_stream(rng, length):
    cfg = {"chunk": rng.choice([1, 2, 3, 4, 7, 64]), "maxbuf": rng.choice([0, 1, 2, 3, 16]), "val": rng.choice(["noop", "ngdp", "off"])}
    ops = []
    for _ in range(length):
        r = rng.random()
        d = [rng.randrange(256) for _ in range(rng.choice([0, 1, 2, 5, 8, 13, 40]))]
        if r < 0.6:
            ops.append({"op": "proc", "d": d, "reads": [rng.choice([1, 1, 2, 3, 5, 100]) for _ in range(rng.randrange(0, 8))],
                        "exp": rng.choice([[], [len(d)], [len(d) + 3]])})
        elif r < 0.7:
            ch = [[rng.randrange(256) for _ in range(rng.randrange(0, 4))] for _ in range(rng.randrange(0, 5))]
            ops.append({"op": rng.choice(["recon", "vchunks"]), "chunks": ch})
        elif r < 0.85:
            ops.append({"op": "cstream", "size": rng.choice([[], [0], [1], [63], [64], [65], [1000]]),
                        "marks": [rng.randrange(0, 20) for _ in range(rng.randrange(0, 4))], "ask": [0, 1, rng.randrange(0, 20)]})
        else:
            ops.append({"op": "sstats", "cp": rng.choice([0, 1, 3]), "tc": rng.choice([[], [0], [3], [5]]), "bp": rng.choice([0, 7, 100]), "cv": rng.choice([0, 3, 5])})
    return {"kind": "stream", "cfg": cfg, "ops": ops}


def rnd_str(rng, length):
    words = ["", "a", "b", "a:b", "b:c", ":", "versions", "v1/products/wow/versions", "v1/products/wowt/cdns", "x" * 200, "é中", "a b"]
    ops = []
    for _ in range(length):
        r = rng.random()
        if r < 0.5:
            ops.append({"op": "intern", "x": rng.choice(words), "api": rng.choice(["global", "obj"])})
        elif r < 0.8:
            ops.append({"op": "key", "p": rng.choice(words), "e": rng.choice(words)})
        else:
            ops.append({"op": "ehash", "e": rng.choice(words)})
    return {"kind": "str", "cfg": {}, "ops": ops}


def rnd_bg(rng, length):
    cfg = rng.choice([{"mon": 15000, "press": 10000, "clean": 300000, "warmup": True}, {"mon": 10, "press": 5, "clean": 50, "warmup": True},
                      {"mon": 100, "press": 1000, "clean": 10, "warmup": False}])
    ops, state = [], "idle"
    while len(ops) < length and state != "dead":
        r = rng.random()
        if r < 0.15:
            ops.append({"op": "start"})
            state = {"idle": "run", "stopped": "dead"}.get(state, state)
        elif r < 0.25:
            ops.append({"op": "shutdown"})
            state = "stopped" if state == "run" else state
        elif r < 0.35:
            ops.append({"op": "press", "resp": rng.choice(["log", "clear", "reduce", "emergency"])})
        elif r < 0.4:
            ops.append({"op": "tune"})
        elif r < 0.6:
            t = rng.choice(["monitor", "tune", "defrag", "warm", "press", "cleanup"])
            op = {"op": "submit", "task": t, "t": rng.choice(CT)}
            if t == "monitor":
                op["ms"] = rng.choice([0, 7, 1000])
            if t == "warm":
                op["n"] = rng.choice([0, 2])
                op["t"] = rng.choice(["config", "generic", "download"])
            if t == "press":
                op["resp"] = rng.choice(["log", "clear"])
            ops.append(op)
        elif r < 0.9:
            ops.append({"op": "adv", "ms": rng.choice([0, 1, 20, 500, 20000, 400000])})
        else:
            ops.append({"op": "alloc", "t": rng.choice(["config", "root", "generic"])})
    return {"kind": "bg", "cfg": cfg, "ops": ops}


def random_programs(seed, quick):
    rng = random.Random(seed * 1000003 + 6)
    k = 1 if quick else 10
    plan = [(lambda r, n: rnd_pool(r, "ngdp", n), 120 * k, 30), (lambda r, n: rnd_pool(r, "tl", n), 100 * k, 30),
            (lambda r, n: rnd_pool(r, "bbp", n), 150 * k, 30), (lambda r, n: rnd_pool(r, "zcp", n), 120 * k, 30),
            (lambda r, n: rnd_pool(r, "sized", n), 100 * k, 24), (rnd_zc, 200 * k, 30), (rnd_zcc, 200 * k, 30), (rnd_stream, 100 * k, 16),
            (rnd_str, 80 * k, 24), (rnd_bg, 100 * k, 10)]
    out = []
    for f, n, length in plan:
        for _ in range(n):
            out.append(f(rng, length if quick else length + rng.randrange(0, length)))
    rng.shuffle(out)
    return out


# --------------------------------------------------------------------------- self-tests
def selftest_traces(ctx, lines, ix):
    """Binding self-test material from the enumeration trace: a sample (first runs of four kinds) with five corrupted fields,
    and the same sample with one event dropped.  Returns (edited path, dropped path, sample line numbers, expectations)."""
    sample = [i for k in ("ngdp", "zce", "zcc", "stream") for i in ix[k]]
    ls = [lines[i] for i in sample]

    def pick(kind, start, pred):
        lo = sample.index(ix[kind][0])
        return next(j for j in range(lo + start, lo + len(ix[kind]) - 1) if pred(j, ls[j]))

    # (a) an allocation answers with a capacity below the request; (b) a pool counter is off by one
    ia = pick("ngdp", 40, lambda i, l: '"op":"alloc"' in l and '"n":100,' in l)
    ib = pick("ngdp", 200, lambda i, l: '"op":"free"' in l)
    # (c) a slice denotes other bytes than it claims; (d) a cache hit returns other bytes; (e) a chunk of the stream is altered
    ic = pick("zce", 40, lambda i, l: '"op":"slice"' in l and '"some":true' in l and '"n":1,' in l)
    idd = pick("zcc", 40, lambda i, l: '"op":"get"' in l and '"hit":true' in l)
    ie = pick("stream", 2, lambda i, l: '"op":"proc"' in l and '"chunks":[[' in l)
    # (f) an event that is not a run boundary is dropped
    ifd = pick("ngdp", 300, lambda i, l: not lib.is_new(l) and not lib.is_new(ls[i + 1]))
    edited = list(ls)

    def ed_b(e):
        e["st"][0][4] += 1

    def ed_c(e):
        e["res"]["d"] = [(e["res"]["d"][0] + 1) % 256]

    def ed_e(e):
        e["res"]["chunks"][0][0] = (e["res"]["chunks"][0][0] + 1) % 256

    for i, edit in ((ia, lambda e: e["res"].__setitem__("cap", 99)), (ib, ed_b), (ic, ed_c),
                    (idd, lambda e: e["res"].__setitem__("h", [255] * e["res"]["n"])), (ie, ed_e)):
        e = json.loads(edited[i])
        edit(e)
        edited[i] = json.dumps(e, separators=(",", ":"))
    dropped = list(ls)
    del dropped[ifd]
    pe, pd = ctx.path("selftest_edited.ndjson"), ctx.path("selftest_dropped.ndjson")
    open(pe, "w").write("\n".join(edited) + "\n")
    open(pd, "w").write("\n".join(dropped) + "\n")
    names = ["corrupt_capacity_flagged", "corrupt_pool_counter_flagged", "corrupt_slice_bytes_flagged", "corrupt_cache_hit_flagged",
             "corrupt_chunk_flagged"]
    return pe, pd, sample, dict(zip(names, (ia, ib, ic, idd, ie))), ifd


def selftest_verdict(ctx, res, sample, picks, ifd):
    """res: judge_sections result with sections enum / st_edited / st_dropped."""
    base = {k + 1 for k, i in enumerate(sample) if (i + 1) in set(res["enum"]["violations"])}      # sample-local lines flagged as recorded
    ve, vd = set(res["st_edited"]["violations"]), set(res["st_dropped"]["violations"])
    out = {name: (i + 1) in ve - base for name, i in picks.items()}
    out["only_the_corrupted_events_flagged"] = ve - base == {i + 1 for i in picks.values()}
    out["drop_one_event_flagged"] = (ifd + 1) in vd
    return out


def signature_trace(ctx, lines, ix):
    """A sample with events of every sequentially observable finding, to be judged with and without the deviations listed."""
    sample = [i for k in ("zcp", "sized", "zce", "zcc", "stream", "bg") for i in ix[k]]
    p = ctx.path("selftest_sig.ndjson")
    open(p, "w").write("\n".join(lines[i] for i in sample) + "\n")
    shutil.copy(p, p + ".nodev")          # (two monitor passes run side by side, each splits its own copy)
    return p


def replay(ctx, kd):
    obj = json.load(open(ctx.replay))
    prog = obj["program"] if "program" in obj else obj
    p = ctx.path("replay_prog.ndjson")
    open(p, "w").write(json.dumps(prog) + "\n")
    trace = ctx.path("replay_trace.ndjson")
    conc = prog.get("kind") == "conc"
    attempts = 50 if conc else 1      # a concurrent run is one sample of the schedules
    devs = {}
    for k in range(attempts):
        lib.run_driver(DRV, ["--programs", p, "--out", trace])
        if conc and prog["cfg"].get("mode") == "lin":
            n, strict, relaxed, _, _ = judge_lin(ctx, trace, kd)
            for i in set(relaxed) - strict:
                for fid in relaxed[i]:
                    devs[fid] = devs.get(fid, 0) + 1
            if n - len(strict | set(relaxed)):
                print(open(trace).read()[:6000])
                print(f"VIOLATION property={PROP} replay={ctx.replay} (run not linearizable, attempt {k + 1})")
                return 1
            continue
        v = judge(ctx, trace, kd)
        for fid, c in v["devcount"].items():
            devs[fid] = devs.get(fid, 0) + c
        if v["violations"] or not conc:
            print(open(trace).read()[:20000])
            print(json.dumps({k2: v[k2] for k2 in ("events", "violations", "nviol", "devcount")}))
            for ln in v["violations"]:
                print(f"VIOLATION property={PROP} replay={ctx.replay} (event {ln - 1} of the replayed run)")
            return 1 if v["violations"] else 0
    print(json.dumps({"attempts": attempts, "violations": 0, "attempts_explained_by_known_finding": devs}))
    return 0


# --------------------------------------------------------------------------- main
def run(ctx):
    kd = known_findings(ctx)
    lib.build([DRV])
    if ctx.replay:
        return replay(ctx, kd)
    quick = ctx.quick
    global WIDE
    WIDE = not quick
    depth = ({"ngdp": 4, "tl": 4, "bbp": 3, "zcp": 4} if quick else
             {"ngdp": 4, "tl": 4, "bbp": 4, "zcp": 4, "sized": 4, "zce": 4, "str": 4, "bg": 4})
    # ---- produce: concurrent runs first (alone on the machine as far as this check goes), then TLC + driver side by side
    nconc, tl_, th = conc_run(ctx)
    progs = random_programs(ctx.seed, quick)

    def random_run():
        p = ctx.path("prog_random.ndjson")
        open(p, "w").write("".join(json.dumps(x) + "\n" for x in progs))
        trace = ctx.path("trace_random.ndjson")
        d = run_programs(ctx, p, trace, shards=16)
        with LOCK:
            stage(ctx, "run", source="random", programs=d.get("programs"), events=d.get("events"), hangs=d.get("hangs"), wall_s=d["wall_s"])
        if d.get("programs") != len(progs):
            raise lib.ToolError(f"driver executed {d.get('programs')} of {len(progs)} random programs")
        return lib.count_distinct(p)[1], trace

    with ThreadPoolExecutor(max_workers=4) as ex:
        f_design = ex.submit(design_level, ctx)
        f_enum = ex.submit(enumerate_all, ctx, depth)
        f_rand = ex.submit(random_run)
        f_lin = ex.submit(lin_stage, ctx, tl_, kd)
        nwit, t_wit, model = f_design.result()
        nenum, denum, t_enum = f_enum.result()
        drand, t_rand = f_rand.result()
        # ---- judge: everything sequential in one chunked monitor pass (+ the self-test copies), a second pass without deviations
        lines, ix = samples_by_kind(ctx, t_enum)
        pe, pd, sample, picks, ifd = selftest_traces(ctx, lines, ix)
        psig = signature_trace(ctx, lines, ix)
        del lines
        sections = [("enum", t_enum), ("conc", th), ("random", t_rand), ("st_edited", pe), ("st_dropped", pd)]
        for p in (t_wit, t_enum, th, t_rand):
            histogram(ctx, p)
        f_wit = ex.submit(judge, ctx, t_wit, kd, 30000, t_cfg(ctx, kd))      # (apart: its deviation counts must be exact)
        # (the signature sample is judged apart, with and without the deviations listed: its counts must be exact)
        f_sig = ex.submit(judge, ctx, psig, kd, 30000, t_cfg(ctx, kd)) if kd else None
        f_nodev = ex.submit(judge, ctx, psig + ".nodev", [], 30000, t_cfg(ctx, [], "t_pools_nodev.cfg")) if kd else None
        res = judge_sections(ctx, sections, kd)
        w = f_wit.result()
        res["witness"] = {"violations": w["violations"], "nviol": w["nviol"], "devcount": w["devcount"], "events": w["events"]}
        sections.append(("witness", t_wit))
        lin_selftest = f_lin.result()
        sig, nodev = (f_sig.result(), f_nodev.result()) if kd else (None, None)
    labels = {"witness": "design-level witnesses", "enum": "MC_Pools enumeration", "conc": f"conc quiescent seed={ctx.seed}", "random": f"random seed={ctx.seed}"}
    for name, label in labels.items():
        r = res[name]
        stage(ctx, "judge", source=label, events=r["events"], violations=r["nviol"], deviations=r["devcount"])
        for fid, n in r["devcount"].items():
            lib.note_known(ctx, fid, n)
            ctx.cov["deviations_observed"][fid] = ctx.cov["deviations_observed"].get(fid, 0) + n
        classify(ctx, r["violations"], dict(sections)[name], label)
    stage(ctx, "judge-pass", events=res["_total"]["events"], chunks=res["_total"]["chunks"], wall_s=res["_total"]["wall_s"])
    ctx.cov["design_level"]["witnesses_replayed"] = {"programs": nwit, "deviations_on_real_code": res["witness"]["devcount"], "violations": res["witness"]["nviol"]}
    gone = sorted(f for f in model if f in kd and f not in res["witness"]["devcount"])
    if gone:
        ctx.cov["known_findings_not_reproduced_by_witness"] = gone
        lib.log(f"[{PROP}] note: the witness of {gone} no longer deviates on the real code - is the finding fixed?")
    # ---- self-tests (they assume a conforming tree: skipped verdict if the tree itself violates)
    st = selftest_verdict(ctx, res, sample, picks, ifd)
    st["corrupt_quiescent_snapshot_not_linearizable"] = lin_selftest
    if kd:
        explained = sum(sig["devcount"].values())
        # an event explained by two findings at once is ONE violation without them
        st["deviations_rejected_when_not_listed"] = sig["nviol"] == 0 and 0 < nodev["nviol"] <= explained
        st["deviation_events_in_sample"] = nodev["nviol"]
    else:
        st["deviations_rejected_when_not_listed"] = "no finding is listed as known"
    ctx.cov["binding_selftest"] = st
    if not all(st.values()):
        raise lib.ToolError(f"binding self-test failed: {st}")
    total = nwit + nenum + nconc + len(progs)
    distinct = nwit + denum + nconc + drand
    ctx.cov["actions_never_taken"] = sorted(k for k, n in ctx.cov.get("events_by_kind", {}).items() if n == 0)
    if ctx.cov["actions_never_taken"]:
        raise lib.ToolError(f"operations / answers never exercised on the real code: {ctx.cov['actions_never_taken']}")
    ctx.cov["traces_validated_against_impl"] = total
    ctx.cov["evaluations"] = total
    ctx.cov["distinct_nontrivial"] = distinct
    ctx.cov["exhaustive"] = True
    ctx.cov["exhaustive_scope"] = ("per family: every operation sequence of length 1..D over the family's alphabet for every configuration of its "
                                   "grid (MC_Pools); the streaming tables for 48 configurations; the retention-limit scripts; the concurrent "
                                   "and the random tiers are samples, not exhaustive")
    ctx.cov["related_properties"] = ["C10", "C11"]
    ctx.assumptions += [
        "TLC, the CommunityModules JSON reader and the driver's recording (capacities, lengths, first 8 bytes of a buffer, counters read back, "
        "addresses of interned strings as identities) are trusted",
        "a buffer's content is judged on its length and first 8 bytes; sizes stay below 2^31 (TLC integers), usize::MAX is the only larger count exercised (logged as -1)",
        "concurrent runs are samples of the schedules the machine produces (lock-step rounds with seeded perturbation); there are no scheduling hooks in pool.rs",
        "BackgroundMemoryManager runs on tokio's paused clock: only sleeps take (virtual) time",
        "local_storage_cache.rs is compiled for wasm32 only and is not executed",
    ]
    return lib.finish(ctx, "model_checking",
                      rule="programs = operation sequences enumerated by TLC per family and configuration (all lengths 1..D), the streaming "
                           "tables, the retention-limit scripts, the design-level counterexamples, concurrent runs (one program each) and seeded "
                           "random programs; distinct = distinct program texts (md5); every program has >= 1 operation")
