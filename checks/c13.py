"""C13 - version-service queries fail over in order and cache only good answers.

spec/Failover.tla (outcome sets of a query, the TCP reader's stop rule, CdnClient::download) ->
MC_Failover / MC_TcpRead / MC_FailoverCdn check the statement's clauses on the model and enumerate rows
(binding G); drv_failover executes every row on the real RibbitTactClient / CdnClient against three
loopback mocks; T_Failover judges every recorded query (binding T).
"""
import glob, hashlib, json, os
from . import lib

MODULE_MC = "MC_Failover"
MODULE_T = "T_Failover"
INVARIANTS = ["InvOrder", "InvTcpOnly", "InvMoveOn", "InvFirstAnswer", "InvErr", "InvWithinTtl", "InvAfterTtl", "InvNoPanic",
              "InvCacheGood", "InvSomeOutcome", "InvSplit", "Emit"]
ALL_CLASSES = ["versions", "cdns", "bgdl", "summary", "certs"]
UTF8_SHAPES = ["bpsv_utf8", "mime_utf8", "mime_lf_utf8"]
SMALL_SHAPES = ["bpsv_nn", "bpsv", "bpsv_crlf", "bpsv_footer", "bpsv_blank", "bpsv_blank2", "mime", "mime_lf", "mime_srv", "mime_nosum", "bpsv_u512"]


def sset(xs):
    return "{" + ", ".join('"%s"' % x for x in xs) + "}"


def known_findings(ctx):
    """Findings of this property listed as known: findings.d is the source KNOWN_FINDINGS.json is generated from."""
    out = []
    for p in sorted(glob.glob(os.path.join(lib.ROOT, "findings.d", "F13*.json"))):
        f = json.load(open(p))
        if f.get("property") == "C13" and f.get("status", "known") == "known":
            out.append(f)
            if not any(x.get("id") == f["id"] for x in ctx.known.setdefault("findings", [])):
                ctx.known["findings"].append(f)
    return sorted(f["id"] for f in out)


def constants(family, kd=(), **kw):
    return {"KnownDeviations": lib.tla_set(kd), "Family": f'"{family}"',
            "HttpBehs": sset(kw.get("http", ["OkBpsv"])), "TcpBehs": sset(kw.get("tcp", ["OkBpsv"])),
            "Classes": sset(kw.get("classes", ["versions"])), "D": kw.get("depth", 4),
            "SplitCls": '"%s"' % kw.get("cls", "summary"), "ShapeSel": sset(kw.get("shapes", [])),
            "CutModes": sset(kw.get("modes", []))}


RA_429 = ["H429", "H429RA", "H429RA0", "H429RA120", "H429RADate", "H429RAFrac", "H429RAUnit", "H429RANeg", "H429RAEmpty", "H429RABin"]


def plan(quick):
    http_q = ["OkBpsv", "H500", "H503", "H429", "H429RA", "H404", "Malformed", "Refused", "ClosedMid"]
    tcp_q = ["OkBpsv", "OkMime", "Malformed", "Refused", "ClosedMid", "ClosedMidBpsv"]
    if quick:
        return [
            ("chain", dict(http=http_q, tcp=tcp_q, classes=ALL_CLASSES)),
            ("chain", dict(http=["OkBpsv"] + RA_429, tcp=["OkBpsv"], classes=["versions", "bgdl"])),
            ("cache", dict(depth=4)),
            ("renew", dict(depth=6)),
            ("ttlcls", dict(classes=ALL_CLASSES)),
            ("split", dict(cls="summary", shapes=["bpsv_nn", "bpsv_blank", "bpsv_crlf"], modes=["one"])),
            ("split", dict(cls="summary", shapes=["bpsv_utf8", "mime_utf8", "mime_lf_utf8"], modes=["mb1", "mb2"])),
            ("split", dict(cls="versions", shapes=["bpsv_utf8", "mime_utf8", "bpsv_big_utf8"], modes=["mb1"])),
            ("split", dict(cls="summary", shapes=["bpsv_big_utf8"], modes=["mb1"])),
            ("split", dict(cls="summary", shapes=["bpsv_blank2"], modes=["marks1", "marks2"])),
            ("split", dict(cls="summary", shapes=["bpsv", "bpsv_footer", "mime", "mime_lf", "mime_srv", "mime_nosum", "bpsv_u512"], modes=["marks1"])),
            ("split", dict(cls="versions", shapes=["bpsv_big", "bpsv_blank", "mime_lf"], modes=["sparse"])),
        ]
    http_t = http_q + ["H502", "H504", "H400", "H403", "MalformedEmpty", "MalformedRow", "MalformedBin", "ClosedHead", "ClosedEmpty"]
    tcp_t = tcp_q + ["OkBpsvEof", "OkMimeLf", "OkMimeSrv", "MalformedSum", "MalformedBin", "ClosedEmpty"]
    return [
        ("chain", dict(http=http_t, tcp=tcp_t, classes=ALL_CLASSES)),
        ("chain", dict(http=["OkBpsv", "H404"] + RA_429, tcp=["OkBpsv", "OkMime", "Refused"], classes=["versions", "cdns", "bgdl"])),
        ("cache", dict(depth=5)),
        ("renew", dict(depth=7)),
        ("ttlcls", dict(classes=ALL_CLASSES)),
        ("split", dict(cls="summary", shapes=UTF8_SHAPES, modes=["one"])),
        ("split", dict(cls="summary", shapes=UTF8_SHAPES, modes=["mb2"])),
        ("split", dict(cls="versions", shapes=UTF8_SHAPES + ["bpsv_big_utf8"], modes=["marks1", "mb2"])),
        ("split", dict(cls="cdns", shapes=UTF8_SHAPES + ["bpsv_big_utf8"], modes=["mb1", "mb2"])),
        ("split", dict(cls="summary", shapes=["bpsv_big_utf8"], modes=["marks1", "mb2"])),
        ("split", dict(cls="summary", shapes=SMALL_SHAPES, modes=["one"])),
        ("split", dict(cls="summary", shapes=["bpsv_nn", "bpsv", "bpsv_crlf", "bpsv_footer", "bpsv_blank", "bpsv_blank2", "bpsv_u512"], modes=["marks2"])),
        ("split", dict(cls="summary", shapes=["mime", "mime_lf", "mime_srv"], modes=["marks2"])),
        ("split", dict(cls="versions", shapes=SMALL_SHAPES, modes=["marks1"])),
        ("split", dict(cls="cdns", shapes=["bpsv_blank", "bpsv_blank2", "mime", "mime_lf"], modes=["marks1"])),
        ("split", dict(cls="versions", shapes=["bpsv_big"], modes=["marks1"])),
        ("split", dict(cls="summary", shapes=["bpsv_big"], modes=["marks1"])),
        ("stall", dict(http=["Stall", "OkBpsv", "H500", "H404", "Malformed"], tcp=["Stall", "OkBpsv", "Malformed"], classes=["versions", "summary"])),
    ]


# --------------------------------------------------------------------------- programs
def dedupe(path):
    """Several abstract states can complete the same program: keep each program text once (order kept)."""
    seen, out = set(), []
    for line in lib.read_lines(path):
        h = hashlib.md5(line.encode()).digest()
        if h not in seen:
            seen.add(h)
            out.append(line)
    open(path, "w").write("\n".join(out) + ("\n" if out else ""))
    return len(out)


def nontrivial(p):
    """A row is non-trivial when something beyond one successful first request happens in it: a fail-over step, a
    second query that must look at the cache, a split response, a retried / refused download."""
    if p["fam"] == "cdn":
        return len(p["ops"]) > 1
    if p["fam"] == "split":
        return True
    first = "tcp" if p["cls"] in ("summary", "certs") else "https"
    return len(p["ops"]) > 1 or not p["beh"][first].startswith("Ok")


def count_programs(path):
    n = nt = 0
    for line in lib.read_lines(path):
        n += 1
        if nontrivial(json.loads(line)):
            nt += 1
    return n, nt


def program_of(evs):
    if not evs or evs[0].get("op") != "new":
        return None
    new = evs[0]
    ops = [{k: v for k, v in e.items() if k in ("op", "p", "k") or (k == "ms" and e.get("op") == "wait")} for e in evs[1:] if e.get("op") in ("query", "tick", "wait", "reopen", "flip", "download")]
    if new["fam"] == "cdn":
        return {"fam": "cdn", "cache": new["cache"], "script": new["script"], "ra": new["ra"], "ops": ops}
    prog = {"fam": new["fam"], "cache": new["cache"], "ttl": new["ttl"], "cls": new["cls"], "beh": new["beh"], "beh2": new["beh2"], "ops": ops}
    if new.get("shape"):
        prog["shape"] = new["shape"]
        prog["cuts"] = new.get("cuts", [])
    return prog


def run_rows(ctx, progs, trace, conc=None, timeout=1700):
    args = ["--programs", progs, "--out", trace]
    if conc:
        args += ["--conc", conc]
    d = lib.run_driver("drv_failover", args, timeout=timeout, env={"VERIF_WORKERS": min(lib.NCPU, 8)}, check=False)
    if d["returncode"] != 0:
        lib.log(d["stderr_tail"])
        raise lib.ToolError(f"inconclusive: drv_failover exited {d['returncode']} (rows skipped: {d.get('skipped')})")
    return d


def judge_trace(ctx, trace, source, kd, classify=True):
    cfg = ctx.path("t_failover.cfg")
    lib.write_cfg(cfg, {"KnownDeviations": lib.tla_set(kd)}, "TInit", "TNext", invariants=["Done"])
    v = lib.judge(ctx, MODULE_T, cfg, trace, max_events=6000)
    v["violations"] = sorted(set(v["violations"]))
    ctx.stage("judge", source=source, events=v["events"], violations=len(v["violations"]), deviations=len(v["deviations"]), wall_s=v["wall_s"])
    if v["violations"]:
        # a call the driver gave up on (170 s watchdog) cannot be told from a starved machine: inconclusive
        lines = lib.read_lines(trace)
        for ln in v["violations"]:
            e = json.loads(lines[ln - 1])
            if e.get("res", {}).get("class") == "hang":
                raise lib.ToolError(f"inconclusive: a call did not return within the driver's watchdog (trace line {ln} of {source})")
            s, _ = lib.run_of_line(lines, ln)
            if e.get("ms", 0) >= 9000 and "Stall" not in lines[s]:
                # no behaviour of this row makes the client wait: the machine starved a mock until one of the client's
                # own time-outs (10 s connect, 30 s request) fired, and the row no longer is the row that was scripted
                raise lib.ToolError(f"inconclusive: a query without any stalling endpoint took {e['ms']} ms (trace line {ln} of {source}); machine too loaded")
    if classify:
        lib.classify_trace(ctx, v, trace, source, program_of=program_of)
    return v


def reader_agreement(ctx, progs, trace):
    """split family: does the real reader stop early exactly where the code-shaped model (ReadCode) says a read
    boundary makes it stop?  Informational (the kernel may coalesce segments); the verdict is the monitor's."""
    preds = [json.loads(l) for l in lib.read_lines(progs)]
    agree = ctx.cov.setdefault("reader_model_agreement", {"rows": 0, "model_truncates": 0, "code_truncated_where_model_does": 0,
                                                          "code_truncated_elsewhere": 0})
    i = -1
    new = None
    for line in lib.read_lines(trace):
        e = json.loads(line)
        if e["op"] == "new":
            i += 1
            new = e
        elif e["op"] == "query" and new is not None:
            p = preds[i]
            whole = p["pred"] == new["resp"]["len"]
            trunc = e["res"].get("class") == "ok" and e["res"]["digest"] != new["docs"]["tcp"][0] and e["contacted"] == ["tcp"] * len(e["contacted"])
            agree["rows"] += 1
            if not whole:
                agree["model_truncates"] += 1
                if trunc:
                    agree["code_truncated_where_model_does"] += 1
            elif trunc and new["cls"] in ("summary", "certs"):
                agree["code_truncated_elsewhere"] += 1


def mc_and_run(ctx, family, kw, kd, idx, shapes_files):
    cfg = ctx.path(f"mc_{family}_{idx}.cfg")
    lib.write_cfg(cfg, constants(family, (), **kw), "MCInit", "MCNext", invariants=INVARIANTS)
    progs = ctx.path(f"prog_{family}_{idx}.ndjson")
    env = {}
    if family == "split":
        cls = kw["cls"]
        if cls not in shapes_files:
            d = lib.run_driver("drv_failover", ["--dump-shapes", cls])
            shapes_files[cls] = ctx.path(f"shapes_{cls}.ndjson")
            open(shapes_files[cls], "w").write(d["stdout"])
        env["SHAPES"] = shapes_files[cls]
    r = lib.tlc(ctx, MODULE_MC, cfg, tagged_out={"PROGRAM": progs}, timeout=1500, env=env)
    ctx.cov["states"] += r["distinct"]
    ctx.cov["transitions"] += r["generated"]
    n = dedupe(progs)
    ctx.stage("mc", family=family, **{k: v for k, v in kw.items() if k in ("cls", "shapes", "modes", "depth")},
              distinct_states=r["distinct"], programs=n, wall_s=r["wall_s"])
    trace = ctx.path(f"trace_{family}_{idx}.ndjson")
    d = run_rows(ctx, progs, trace, conc=64 if family == "stall" else None)
    ctx.stage("run", family=family, programs=d.get("programs"), events=d.get("events"), wall_s=d["wall_s"])
    if d.get("programs") != n:
        raise lib.ToolError(f"driver executed {d.get('programs')} of {n} programs ({family})")
    if family == "split":
        reader_agreement(ctx, progs, trace)
    return progs, trace, n


def mc_tcpread(ctx, n):
    cfg = ctx.path("mc_tcpread.cfg")
    lib.write_cfg(cfg, {"KnownDeviations": "{}", "N": n}, "TRInit", "TRNext", invariants=["TRCharacterisation", "TRShape", "TRUnsafe"])
    r = lib.tlc(ctx, "MC_TcpRead", cfg, timeout=1500)
    ctx.cov["states"] += r["distinct"]
    ctx.cov["transitions"] += r["generated"]
    unsafe = r["tagged"].get("UNSAFE", [])
    ctx.stage("mc", family="tcpread", max_len=n, responses=r["distinct"], unsafe_responses=len(unsafe), wall_s=r["wall_s"])
    ctx.cov["tcpread"] = {"max_len": n, "responses": r["distinct"], "split_dependent_in_code_shaped_model": len(unsafe),
                          "shortest": min(unsafe, key=lambda t: len(t["seq"])) if unsafe else None}


def mc_cdn(ctx, kd):
    cfg = ctx.path("mc_cdn.cfg")
    lib.write_cfg(cfg, {"KnownDeviations": "{}"}, "CdnInit", "CdnStep", invariants=["CdnInvStored", "CdnEmit"])
    progs = ctx.path("prog_cdn.ndjson")
    r = lib.tlc(ctx, "MC_FailoverCdn", cfg, tagged_out={"PROGRAM": progs}, timeout=1500)
    ctx.cov["states"] += r["distinct"]
    ctx.cov["transitions"] += r["generated"]
    n = dedupe(progs)
    ctx.stage("mc", family="cdn", distinct_states=r["distinct"], programs=n, wall_s=r["wall_s"])
    trace = ctx.path("trace_cdn.ndjson")
    d = run_rows(ctx, progs, trace, conc=48)
    ctx.stage("run", family="cdn", programs=d.get("programs"), events=d.get("events"), wall_s=d["wall_s"])
    if d.get("programs") != n:
        raise lib.ToolError(f"driver executed {d.get('programs')} of {n} programs (cdn)")
    return progs, trace, n


def mc_deviations(ctx, kd):
    """With the listed deviations switched on the model must break the clauses they are about (the findings'
    witnesses at model level); with none it must not (that run is the cache family above)."""
    out = {}
    for fam, kw in (("cache", dict(depth=4)),):
        cfg = ctx.path(f"mc_dev_{fam}.cfg")
        # every deviation the spec names, also those whose finding is fixed by now: the clause each one breaks must break
        lib.write_cfg(cfg, constants(fam, ["F13a", "F13b", "F13c", "F13d", "F13e"], **kw), "MCInit", "MCNext",
                      invariants=[i for i in INVARIANTS if i != "Emit"])
        r = lib.tlc(ctx, MODULE_MC, cfg, timeout=900, expect_violation=True)
        out[fam] = r["invariant_violated"]
    ctx.cov["model_with_known_deviations_violates"] = out
    ctx.stage("mc", family="deviations", violated=out)


# --------------------------------------------------------------------------- self-test, replay
def selftest(ctx, trace, kd):
    """Binding self-test: corrupt one logged digest / one contact list / drop one event -> the monitor must flag it.
    The events are taken from runs the monitor accepts as they are."""
    lines = lib.read_lines(trace)[:3000]
    cut = max(i for i, l in enumerate(lines) if lib.is_new(l))
    lines = lines[:cut]
    cfg = ctx.path("t_failover.cfg")
    lib.write_cfg(cfg, {"KnownDeviations": lib.tla_set(kd)}, "TInit", "TNext", invariants=["Done"])
    base_p = ctx.path("selftest_0.ndjson"); open(base_p, "w").write("\n".join(lines) + "\n")
    base = lib.tlc_trace(ctx, MODULE_T, cfg, base_p)
    bad_runs = {lib.run_of_line(lines, ln)[0] for ln in base["violations"]}
    ia = ib = ic = None
    for i, l in enumerate(lines):
        if lib.is_new(l) or i < 20 or lib.run_of_line(lines, i + 1)[0] in bad_runs:
            continue
        e = json.loads(l)
        if e["op"] != "query":
            continue
        if ia is None and e["res"]["class"] == "ok" and e["contacted"]:
            ia = i
        elif ia is not None and ib is None and i > ia + 5 and len(set(e["contacted"])) >= 2:
            ib = i
        elif ib is not None and ic is None and i > ib + 5 and i + 1 < len(lines) and not lib.is_new(lines[i + 1]):
            ic = i
    if None in (ia, ib, ic):
        res = {"skipped": "no suitable conforming events in the first runs of the trace"}
    else:
        e = json.loads(lines[ia]); d = e["res"]["digest"]; e["res"]["digest"] = ("0" if d[0] != "0" else "1") + d[1:]
        la = list(lines); la[ia] = json.dumps(e, separators=(",", ":"))
        pa = ctx.path("selftest_a.ndjson"); open(pa, "w").write("\n".join(la) + "\n")
        e = json.loads(lines[ib]); e["contacted"] = e["contacted"][::-1]
        lb = list(lines); lb[ib] = json.dumps(e, separators=(",", ":"))
        pb = ctx.path("selftest_b.ndjson"); open(pb, "w").write("\n".join(lb) + "\n")
        lc = list(lines); del lc[ic]
        pc = ctx.path("selftest_c.ndjson"); open(pc, "w").write("\n".join(lc) + "\n")
        va = lib.tlc_trace(ctx, MODULE_T, cfg, pa)
        vb = lib.tlc_trace(ctx, MODULE_T, cfg, pb)
        vc = lib.tlc_trace(ctx, MODULE_T, cfg, pc)
        res = {"corrupt_one_digest_flagged": (ia + 1) in va["violations"],
               "reorder_one_contact_list_flagged": (ib + 1) in vb["violations"],
               "drop_one_event_flagged": (ic + 1) in vc["violations"]}
    ctx.cov["binding_selftest"] = res
    ctx.stage("selftest", **res)
    # on a tree that already violates the property the verdict is the violation, not the state of this self-test
    if not all(v is True for v in res.values()) and not ctx.violations:
        raise lib.ToolError(f"binding self-test failed: {res}")


def replay(ctx, kd):
    obj = json.load(open(ctx.replay))
    prog = obj.get("program") or obj
    p = ctx.path("replay_prog.ndjson")
    open(p, "w").write(json.dumps(prog) + "\n")
    trace = ctx.path("replay_trace.ndjson")
    run_rows(ctx, p, trace)
    v = judge_trace(ctx, trace, "replay", kd, classify=False)
    print(open(trace).read())
    print(json.dumps({k: v[k] for k in ("events", "violations", "deviations")}))
    return 1 if v["violations"] else 0


def add_sample(ctx, trace, source, want):
    ls = lib.read_lines(trace)
    for i, l in enumerate(ls):
        if lib.is_new(l) and want(l):
            s, e = lib.run_of_line(ls, i + 1)
            evs = [json.loads(x) for x in ls[s:e]]
            for ev in evs:
                if "resp" in ev and len(ev["resp"].get("nl", [])) > 40:
                    ev["resp"] = dict(ev["resp"], nl="(%d positions)" % len(ev["resp"]["nl"]))
            ctx.cov["samples"].append({"source": source, "trace": evs})
            return


# --------------------------------------------------------------------------- main
def run(ctx):
    kd = known_findings(ctx)
    lib.build(["drv_failover"])
    if ctx.replay:
        return replay(ctx, kd)
    total = distinct = nontriv = 0
    shapes_files = {}
    did_selftest = False
    mc_tcpread(ctx, 7 if ctx.quick else 10)
    for idx, (family, kw) in enumerate(plan(ctx.quick)):
        progs, trace, n = mc_and_run(ctx, family, kw, kd, idx, shapes_files)
        total += n
        d, nt = count_programs(progs)
        distinct += d
        nontriv += nt
        src = f"MC_Failover family={family}" + (f" cls={kw['cls']} shapes={','.join(kw['shapes'])} cuts={'+'.join(kw['modes'])}" if family == "split" else "")
        judge_trace(ctx, trace, src, kd)
        if family == "chain":
            add_sample(ctx, trace, src, lambda l: '"https":"H5' in l and '"cls":"versions"' in l)
            if not did_selftest:
                selftest(ctx, trace, kd)
                did_selftest = True
        elif family == "ttlcls":
            add_sample(ctx, trace, src, lambda l: '"cls":"bgdl"' in l and '"cache":"disk"' in l)
        elif family == "renew" and len(ctx.cov["samples"]) < 5:
            add_sample(ctx, trace, src, lambda l: '"cache":"disk"' in l)
        elif family == "cache":
            add_sample(ctx, trace, src, lambda l: '"cache":"disk"' in l and '"ttl":"short"' in l)
        elif family == "split" and len(ctx.cov["samples"]) < 4:
            add_sample(ctx, trace, src, lambda l: True)
        os.remove(trace)
        os.remove(progs)
    progs, trace, n = mc_cdn(ctx, kd)
    total += n
    d, nt = count_programs(progs)
    distinct += d
    nontriv += nt
    judge_trace(ctx, trace, "MC_FailoverCdn", kd)
    add_sample(ctx, trace, "MC_FailoverCdn", lambda l: '"script":[503,' in l)
    if not ctx.quick:
        mc_deviations(ctx, kd)
    # seeded random rows: more status codes, malformed / closed variants, longer operation sequences, random splits
    nrand = 300 if ctx.quick else 3000
    trace = ctx.path("trace_random.ndjson")
    dump = ctx.path("prog_random.ndjson")
    dr = lib.run_driver("drv_failover", ["--random", nrand, "--out", trace, "--dump-programs", dump],
                        env={"VERIF_SEED": ctx.seed, "VERIF_WORKERS": min(lib.NCPU, 8)}, timeout=1700, check=False)
    if dr["returncode"] != 0:
        raise lib.ToolError(f"inconclusive: drv_failover --random exited {dr['returncode']}")
    ctx.stage("run", source="random", programs=dr.get("programs"), events=dr.get("events"), wall_s=dr["wall_s"])
    judge_trace(ctx, trace, f"random seed={ctx.seed}", kd)
    dedupe(dump)
    d, nt = count_programs(dump)
    total += nrand
    distinct += d
    nontriv += nt
    ctx.cov["traces_validated_against_impl"] = total
    ctx.cov["evaluations"] = total
    ctx.cov["distinct_nontrivial"] = nontriv
    ctx.cov["distinct_programs"] = distinct
    ctx.cov["exhaustive"] = True
    ctx.cov["exhaustive_scope"] = ("per family: every assignment of the listed behaviours to the three endpoints x every endpoint class (chain, stall); every "
                                   "admissible operation sequence of the listed length over the representative behaviour pairs (cache) and of query / wait / new client (renew); every 1-cut / landmark 2-cut "
                                   "split of the listed concrete response shapes (split); every byte-class sequence up to the listed length x every split (tcpread, "
                                   "model only); every status script up to the retry bound (cdn). The random tier is not exhaustive")
    ctx.assumptions += ["TLC, the CommunityModules JSON reader and the driver's mocks / digests (computed from the driver's own table of documents, not by the parser "
                        "under test) are trusted",
                        "contacts with an endpoint that refuses connections cannot be observed (no listener): contact sequences are compared modulo refused endpoints",
                        "which segmentation the client's read calls observe is decided by the kernel: the monitor judges only that the parsed answer equals the one sent",
                        "time: every query carries its interval [t0, t1] on the driver's monotonic clock; an answer stored by a query [lo, hi] must be served by a query that ends before lo + TTL - 120 ms and must not be served by one that starts after hi + TTL + 120 ms; in between both conform. TTLs: 1 h, 150 ms (+ 650 ms sleeps), 600 ms (+ 400 ms waits: a hit at 0.67 x TTL, the next query at 1.33 x TTL); sleeps are lower bounds, a late driver only widens the zone where both conform"]
    return lib.finish(ctx, "model_checking",
                      rule="rows = complete programs enumerated by TLC from Failover.tla (initial states x operation sequences; program texts deduplicated by md5) plus seeded random "
                           "rows; a row is non-trivial when more happens in it than one successful first request (a fail-over step, a further query that must consult the cache, "
                           "a split response, a download that is repeated, retried or refused); distinct_nontrivial counts distinct non-trivial program texts")
