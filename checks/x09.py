"""X09 (growth) - CDN streaming: the optimisation layer (optimizer.rs) and the streaming BLTE reader (blte.rs).

spec/Optimizer.tla (properties C1-C3, Q1-Q7, Z1-Z4, B1-B6, S1-S3; reuses the interval arithmetic and the plan judge of
X02's RangePlan.tla) -> MC_Optimizer: one correct machine per family whose every step the judge must accept without
any known deviation, the properties in their own words, a code-shaped twin per family that TLC must refute (pinned
variants), and the programs (binding G); drv_optimizer executes every program on the real AdvancedRangeCoalescer,
PriorityRequestQueue (gated mock HttpClient, paused tokio clock), ZeroCopyBuffer, BandwidthMonitor and
StreamingBlteProcessor; T_Optimizer judges every recorded event (binding T).
"""
import glob, json, os, shutil
from concurrent.futures import ThreadPoolExecutor
from . import lib

MODULE_MC = "MC_Optimizer"
MODULE_T = "T_Optimizer"
DRV = "drv_optimizer"
IDS = ["FX09a", "FX09b", "FX09c", "FX09d", "FX09e", "FX09f", "FX09g", "FX09h", "FX09i"]

INV = {
    "coal": ["CoalConforms", "CoalBytes", "CoalNowIsAdvIdeal"],
    "queue": ["QueueJudgeAccepts", "QueueLimit", "QueueProgress", "QueueBooks"],
    "buf": ["BufJudgeAccepts", "BufBounded", "BufCapacity"],
    "bw": ["BwJudgeAccepts", "BwShape"],
    "sblte": ["SblteHeaderRule"],
}
# pinned variants: (family, N, K, invariant the code-shaped machine must violate, finding regenerated at model level)
PINNED = [("coal", 4, 2, "CoalConforms", "FX09h"), ("queue", 4, 3, "QueueLimit", "FX09a"), ("queue", 4, 3, "QueueProgress", "FX09b"),
          ("queue", 4, 3, "QueueJudgeAccepts", "FX09a-d"), ("buf", 5, 1, "BufCapacity", "FX09e"), ("bw", 3, 0, "BwJudgeAccepts", "FX09f/g")]


def known_findings(ctx):
    """Findings of this check listed as known: findings.d is the source KNOWN_FINDINGS.json is generated from."""
    out = []
    for p in sorted(glob.glob(os.path.join(lib.ROOT, "findings.d", "FX09*.json"))):
        f = json.load(open(p))
        if f.get("property") == "X09" and f.get("status", "known") == "known":
            out.append(f)
            if not any(x.get("id") == f["id"] for x in ctx.known.setdefault("findings", [])):
                ctx.known["findings"].append(f)
    # development aid (trying a fix in a scratch worktree, VERIF_REPO=...): ids to treat as fixed, i.e. NOT accepted
    fixed = set(filter(None, os.environ.get("X09_FIXED", "").split(",")))
    return sorted(f["id"] for f in out if f["id"] not in fixed)


def plan(quick):
    """(family, N, K, grid) instances of MC_Optimizer; grid = the Tier constant (size of the configuration grids)."""
    if quick:
        return [("coal", 4, 3, "quick"), ("coal", 7, 2, "quick"), ("queue", 5, 3, "quick"), ("buf", 5, 1, "quick"), ("buf", 5, 2, "quick"),
                ("bw", 4, 0, "quick"), ("sblte", 3, 0, "quick")]
    return [("coal", 5, 3, "thorough"), ("coal", 8, 2, "thorough"), ("queue", 6, 3, "quick"), ("queue", 5, 4, "thorough"),
            ("buf", 5, 0, "thorough"), ("buf", 6, 1, "thorough"), ("buf", 7, 2, "thorough"), ("bw", 5, 0, "thorough"), ("sblte", 4, 0, "thorough")]


def mc_cfg(ctx, family, n, k, tier, variant, invariants, tag):
    cfg = ctx.path(f"mc_{tag}.cfg")
    lib.write_cfg(cfg, {"KnownDeviations": "{}", "Family": f'"{family}"', "N": n, "K": k, "Tier": f'"{tier}"', "Variant": f'"{variant}"'},
                  "MCInit", "MCNext", invariants=invariants)
    return cfg


def mc_one(ctx, family, n, k, grid):
    tag = f"{family}_{n}_{k}"
    cfg = mc_cfg(ctx, family, n, k, grid, "ideal", INV[family] + ["Emit"], tag)
    progs = ctx.path(f"prog_{tag}.ndjson")
    r = lib.tlc(ctx, MODULE_MC, cfg, tagged_out={"PROGRAM": progs}, timeout=1700, workers=2 if family in ("queue", "coal", "bw") else 1, heap="6g")
    return {"family": family, "N": n, "K": k, "progs": progs, "programs": r["counts"]["PROGRAM"], "distinct": r["distinct"],
            "generated": r["generated"], "wall_s": r["wall_s"]}


def pinned_one(ctx, item):
    family, n, k, inv, fid = item
    cfg = mc_cfg(ctx, family, n, k, "quick", "code", [inv], f"pinned_{family}_{inv}")
    r = lib.tlc(ctx, MODULE_MC, cfg, timeout=600, workers=1, expect_violation=True)
    return f"{family} as coded satisfies {inv} ({fid})", inv in r["invariant_violated"]


def program_of(evs):
    if not evs:
        return None
    ops = []
    for e in evs[1:]:
        if e.get("op") in ("hang",):
            continue
        ops.append({k: v for k, v in e.items() if k not in ("res", "obs", "seq")})
    return {"fam": evs[0].get("fam"), "cfg": evs[0].get("cfg"), "ops": ops}


def judge_trace(ctx, trace, source, kd, max_events=20000):
    cfg = ctx.path("t_optimizer.cfg")
    lib.write_cfg(cfg, {"KnownDeviations": lib.tla_set(kd)}, "TInit", "TNext", invariants=["Done"])
    v = lib.judge(ctx, MODULE_T, cfg, trace, max_events=max_events)
    listed = {}
    for _, fid in v["deviations"]:
        listed[fid] = listed.get(fid, 0) + 1
    ctx.stage("judge", source=source, events=v["events"], violations=v.get("nviol", len(v["violations"])),
              deviations={i: v.get("n_" + i, 0) for i in IDS if v.get("n_" + i, 0)}, wall_s=v["wall_s"])
    lib.classify_trace(ctx, v, trace, source, program_of=program_of)
    # the monitor keeps the first occurrences of each deviation per chunk and counts the rest
    for i in IDS:
        extra = v.get("n_" + i, 0) - listed.get(i, 0)
        if extra > 0:
            lib.note_known(ctx, i, extra)
            ctx.cov["deviations_observed"][i] = ctx.cov["deviations_observed"].get(i, 0) + extra
    return v


def run_programs(ctx, progs, trace, source, kd):
    d = lib.run_sharded(ctx, DRV, progs, trace, extra_args=["--patience", 120], shards=min(lib.NCPU, 8))
    n = len(lib.read_lines(progs))
    ctx.stage("run", source=source, programs=d.get("programs"), events=d.get("events"), hangs=d.get("hangs", 0), wall_s=d["wall_s"])
    if d.get("programs") != n:
        raise lib.ToolError(f"driver executed {d.get('programs')} of {n} programs")
    return judge_trace(ctx, trace, source, kd)


def replay(ctx, kd):
    obj = json.load(open(ctx.replay))
    p = ctx.path("replay_prog.ndjson")
    open(p, "w").write(json.dumps(obj["program"]) + "\n")
    trace = ctx.path("replay_trace.ndjson")
    lib.run_driver(DRV, ["--programs", p, "--out", trace])
    v = judge_trace(ctx, trace, "replay", kd)
    print(open(trace).read())
    print(json.dumps(v))
    return 1 if v["violations"] else 0


def selftest(ctx, trace, kd):
    """Binding self-test: corrupt one logged field / drop one event -> the monitor must flag exactly that."""
    lines = lib.read_lines(trace)
    cfg = ctx.path("t_optimizer.cfg")

    def window(i):
        return lib.run_of_line(lines, i + 1)

    def fam_of(i):
        return json.loads(lines[window(i)[0]]).get("fam")

    def judge_lines(ls, name):
        p = ctx.path(name)
        open(p, "w").write("\n".join(ls) + "\n")
        return lib.tlc_trace(ctx, MODULE_T, cfg, p)

    def dump(ev):
        return json.dumps(ev, separators=(",", ":"))

    jobs = {}   # name -> (lines of the untouched run, lines of the corrupted run, 1-based index of the touched event or None)

    def corrupt(name, pred, change):
        i = next((j for j in range(len(lines)) if pred(j)), None)
        if i is None:
            raise lib.ToolError(f"binding self-test: no event to corrupt for {name}")
        s, e = window(i)
        ev = json.loads(lines[i])
        change(ev)
        jobs[name] = (lines[s:e], lines[s:i] + [dump(ev)] + lines[i + 1:e], i - s + 1)

    # (a) coal: a plan that lost its last range
    def drop_last(ev):
        ev["res"]["plan"] = ev["res"]["plan"][:-1]
    corrupt("plan_shortened_flagged", lambda j: '"op":"coalesce"' in lines[j] and '"plan":[[' in lines[j] and '"reqs":[[' in lines[j], drop_last)
    # (b) queue: a delivered result given the identifier of another request
    def other_id(ev):
        ev["res"]["r"]["id"] += 1
    corrupt("result_with_foreign_id_flagged", lambda j: '"op":"recv"' in lines[j] and '"r":"some"' in lines[j], other_id)
    # (c) queue: one request started that the log of the operation does not account for
    def extra_start(ev):
        ev["obs"]["started"] = ev["obs"]["started"][:-1]
    corrupt("start_hidden_flagged", lambda j: '"op":"enq"' in lines[j] and not lines[j].split('"started":[')[1].startswith("]"), extra_start)
    # (d) buf: the pool reports one more buffer than the history explains
    def one_more(ev):
        ev["obs"]["stats"][0] += 1
    corrupt("pool_books_corrupted_flagged", lambda j: '"op":"get"' in lines[j] and fam_of(j) == "buf", one_more)
    # (e) bw: the peak lowered below the current sample
    def low_peak(ev):
        ev["obs"]["peak"] = max(0, ev["obs"]["cur"] - 5)
    corrupt("peak_below_current_flagged", lambda j: '"op":"rec"' in lines[j] and json.loads(lines[j])["obs"]["cur"] > 5
            and json.loads(lines[j])["obs"]["cur"] == json.loads(lines[j])["obs"]["peak"], low_peak)
    # (f) sblte: a decoded result that differs from the in-memory decoder's
    def differs(ev):
        ev["res"]["same"] = False
    corrupt("streamed_bytes_differ_flagged", lambda j: '"op":"all"' in lines[j] and '"same":true' in lines[j], differs)
    # (g) drop an event that is not a run boundary (queue: every event depends on the one before)
    idd = next(i for i, l in enumerate(lines) if '"op":"fin"' in l and '"was":true' in l and not lib.is_new(lines[i + 1]))
    s, e = window(idd)
    jobs["drop_one_event_flagged"] = (lines[s:e], lines[s:idd] + lines[idd + 1:e], None)

    def one(item):
        # the untouched run and the corrupted run in ONE monitor run (a run boundary resets the monitor's state)
        name, (base_ls, bad_ls, idx) = item
        v = judge_lines(base_ls + bad_ls, f"st_{name}.ndjson")
        base = [x for x in v["violations"] if x <= len(base_ls)]
        bad = [x - len(base_ls) for x in v["violations"] if x > len(base_ls)]
        if idx is None:
            return name, len(bad) > len(base)
        return name, idx in bad and idx not in base
    with ThreadPoolExecutor(max_workers=max(2, min(lib.NCPU, len(jobs)))) as ex:
        res = dict(ex.map(one, jobs.items()))
    ctx.cov["binding_selftest"] = res
    if not all(res.values()):
        raise lib.ToolError(f"binding self-test failed: {res}")


def run(ctx):
    kd = known_findings(ctx)
    lib.build([DRV])
    if ctx.replay:
        return replay(ctx, kd)
    insts = plan(ctx.quick)
    only = set(filter(None, os.environ.get("X09_ONLY", "").split(",")))      # development aid: a subset of the families
    if only:
        insts = [t for t in insts if t[0] in only]
    nrand = 3000 if ctx.quick else 60000
    rtrace = ctx.path("trace_random.ndjson")
    dump = ctx.path("prog_random.ndjson")
    with ThreadPoolExecutor(max_workers=max(2, min(lib.NCPU, 6))) as ex:
        fr = ex.submit(lib.run_driver, DRV, ["--random", nrand, "--out", rtrace, "--dump-programs", dump], env={"VERIF_SEED": ctx.seed})
        fps = [ex.submit(pinned_one, ctx, it) for it in PINNED] if not only else []
        outs = list(ex.map(lambda t: mc_one(ctx, *t), insts))
        pins = dict(f.result() for f in fps)
        drand = fr.result()
    if pins:
        ctx.cov["pinned_variant"] = {k: ("refuted by TLC" if v else "NOT refuted") for k, v in pins.items()}
        if not all(pins.values()):
            raise lib.ToolError(f"a code-shaped machine is no longer refuted by the model: {pins}")
    allp = ctx.path("prog_all.ndjson")
    total = 0
    with open(allp, "w") as f:
        for o in outs:
            ctx.cov["states"] += o["distinct"]
            ctx.cov["transitions"] += o["generated"]
            ctx.stage("mc", family=o["family"], N=o["N"], K=o["K"], distinct_states=o["distinct"], programs=o["programs"], wall_s=o["wall_s"])
            if o["programs"] == 0:
                raise lib.ToolError(f"MC_Optimizer {o['family']} emitted no program")
            with open(o["progs"]) as g:
                shutil.copyfileobj(g, f)
            total += o["programs"]
            os.remove(o["progs"])
    _, distinct = lib.count_distinct(allp)
    trace = ctx.path("trace_all.ndjson")
    run_programs(ctx, allp, trace, f"MC_Optimizer {ctx.tier}", kd)
    ls = lib.read_lines(trace)
    for needle in ('"fam":"queue"', '"fam":"buf"', '"fam":"bw"', '"fam":"coal"', '"fam":"sblte"'):
        i = next((j for j in range(len(ls) - 1, -1, -1) if lib.is_new(ls[j]) and needle in ls[j]), None)
        if i is not None:
            s, e = lib.run_of_line(ls, i + 1)
            ctx.cov["samples"].append({"source": "MC_Optimizer", "trace": [json.loads(x) for x in ls[s:e]]})
    if not only:
        selftest(ctx, trace, kd)
    os.remove(trace)
    # ---- seeded random programs: 2^24-byte hulls at 0, 2^32 and the top of u64 with bandwidths at the tier boundaries,
    #      queue histories of up to 20 operations over 9 requests and 5 priorities, long pool / sample histories
    d = drand
    ctx.stage("run", source="random", programs=d.get("programs"), events=d.get("events"), wall_s=d["wall_s"])
    _, dr = lib.count_distinct(dump)
    judge_trace(ctx, rtrace, f"random seed={ctx.seed}", kd)
    total += nrand
    distinct += dr
    ctx.cov["traces_validated_against_impl"] = total
    ctx.cov["evaluations"] = total
    ctx.cov["distinct_nontrivial"] = distinct
    ctx.cov["exhaustive"] = True
    ctx.cov["exhaustive_scope"] = ("per family, every program of the listed bounds (coal: every request of <= K ranges over N offsets x thresholds x "
                                   "the five bandwidth tiers, plus base = top of u64; queue: every history of length <= N over <= K requests, two "
                                   "priorities (three in the thorough tier), max_concurrent 1/2, created_at ascending/descending, each followed by a "
                                   "drain; buf: every history of length <= N; bw: every sample sequence of length <= N x three windows; sblte: every "
                                   "chunk structure of <= N chunks); the random tier is not exhaustive")
    ctx.assumptions += ["TLC, the CommunityModules Json reader, tokio's paused clock (a timer fires only when every task is blocked) and the driver's "
                        "projection (public API only; the mock HttpClient's own log) are trusted",
                        "range offsets are judged relative to a base the driver adds (0, 2^32, u64::MAX - lim), numbers above 2e9 are logged as 2e9",
                        "BandwidthMonitor reads std::time::Instant: windows are 1 h (nothing expires), Duration::MAX, or 20 ms with real pauses of 80 ms; "
                        "what happens between (same window or not) is left open",
                        "all queue programs run on one thread: races between tasks of a multi-threaded runtime (BandwidthMonitor's load/store pairs, "
                        "the active counter) are not explored"]
    return lib.finish(ctx, "model_checking",
                      rule="programs = initial states / operation sequences enumerated by TLC from MC_Optimizer (one instance per family and bound) plus "
                           "seeded random programs; distinct = distinct program texts (md5); every program contains at least one call of the code under test")
