"""C18 - compaction never loses or overwrites live data.

spec/Compaction.tla: property-level predicates (CompactOK, PlanOK, ArchOK) + code-shaped machines
(validate_spans / extract_compact_segment / compact_in_place chunk loop; move_data chunk loop; plan_archive_merge greedy loop).
MC_Compaction: every input of a bounded space is an initial state; the code-shaped machine is stepped to
completion; TLC checks the forward-copy lemma on every state and the property-level predicates on final
states, and prints every input as a program (binding G).  drv_compaction executes the programs on the real
code; T_Compaction judges every event with the property-level predicates only (binding T).
"""
import glob, hashlib, json, os
from concurrent.futures import ThreadPoolExecutor
from . import lib

MODULE_MC = "MC_Compaction"
MODULE_T = "T_Compaction"
DRV = "drv_compaction"
INVS = ["SegLemma", "SegFinal", "SegBufIndep", "PlanSafe", "PlanNoChain", "MoveFinal", "Emit"]
STAT_KEYS = ["compact_ok", "compact_refused", "moved_spans", "plans", "plans_nonempty", "plan_model_agrees",
             "plan_chained", "arch", "arch_compacted", "moves", "moves_chunked"]


# --------------------------------------------------------------------------- known findings
def known(ctx):
    """Known (not fixed) findings of C18: KNOWN_FINDINGS.json plus findings.d/F18*.json (the former is
    regenerated from the latter by bin/mkmanifest; reading both keeps the check independent of when that ran)."""
    ids = set(lib.known_ids(ctx, "C18"))
    listed = {f["id"] for f in ctx.known.get("findings", [])}
    for p in sorted(glob.glob(os.path.join(lib.ROOT, "findings.d", "F18*.json"))):
        f = json.load(open(p))
        if f.get("property") != "C18":
            continue
        if f.get("status", "known") == "known":
            ids.add(f["id"])
            if f["id"] not in listed:
                ctx.known.setdefault("findings", []).append(f)
        else:
            ids.discard(f["id"])
    return sorted(ids)


# --------------------------------------------------------------------------- programs
def program_of(evs):
    if not evs:
        return None
    head = {k: v for k, v in evs[0].items() if k != "op"}
    ops = [{k: v for k, v in e.items() if k not in ("res", "obs", "seq", "bufsize", "moved")} for e in evs[1:]
           if e.get("op") != "hang"]
    head["ops"] = ops
    return head


def nontrivial(p):
    k = p.get("kind")
    if k == "seg":
        return p["n"] >= 1 and any(len(o["spans"]) >= 1 for o in p["ops"])
    if k == "plan":
        return any(len(o["segs"]) >= 2 for o in p["ops"])
    if k == "move":
        return any(o["len"] >= 1 for o in p["ops"])
    return k == "arch"


def count_programs(path, seen):
    """(programs, new distinct non-trivial programs) - distinctness is global over the run (`seen`)."""
    n = d = 0
    with open(path) as f:
        for line in f:
            n += 1
            h = hashlib.md5(line.encode()).digest()
            if h in seen:
                continue
            seen.add(h)
            if nontrivial(json.loads(line)):
                d += 1
    return n, d


# --------------------------------------------------------------------------- stages
BASE = {"Family": '"seq"', "N": 4, "K": 2, "Bufs": "{1, 2, 3}", "Geo": 0, "MaxSeg": 3, "MaxUsed": 4, "SegSize": 4,
        "PlanUnit": 1048576, "States": '{"F", "T"}', "Defects": "{}"}


def mc_cfg(ctx, name, **over):
    c = dict(BASE)
    for k, v in over.items():
        c[k] = v
    cfg = ctx.path(f"mc_{name}.cfg")
    lib.write_cfg(cfg, c, "MCInit", "MCNext", invariants=INVS)
    return cfg


def judge_trace(ctx, trace, source, kd, totals):
    cfg = ctx.path("t_compaction.cfg")
    lib.write_cfg(cfg, {"KnownDeviations": lib.tla_set(kd)}, "TInit", "TNext", invariants=["Done"], view="TView")
    v = lib.judge(ctx, MODULE_T, cfg, trace, max_events=30000)
    for k in STAT_KEYS:
        totals[k] = totals.get(k, 0) + v.get(k, 0)
    ctx.stage("judge", source=source, events=v["events"], violations=len(v["violations"]),
              deviations=len(v["deviations"]), wall_s=v["wall_s"],
              **{k: v.get(k, 0) for k in STAT_KEYS if v.get(k, 0)})
    lib.classify_trace(ctx, v, trace, source, program_of=program_of)
    return v


def mc_and_run(ctx, name, kd, totals, seen, **over):
    cfg = mc_cfg(ctx, name, **over)
    progs = ctx.path(f"prog_{name}.ndjson")
    r = lib.tlc(ctx, MODULE_MC, cfg, tagged_out={"PROGRAM": progs}, timeout=1500)
    ctx.cov["states"] += r["distinct"]
    ctx.cov["transitions"] += r["generated"]
    n = r["counts"]["PROGRAM"]
    ctx.stage("mc", family=name, distinct_states=r["distinct"], generated=r["generated"], programs=n, wall_s=r["wall_s"],
              constants={k: v for k, v in over.items()})
    trace = ctx.path(f"trace_{name}.ndjson")
    d = lib.run_sharded(ctx, DRV, progs, trace, shards=12)
    ctx.stage("run", family=name, programs=d.get("programs"), events=d.get("events"), hangs=d.get("hangs"), wall_s=d["wall_s"])
    if d.get("programs") != n:
        raise lib.ToolError(f"driver executed {d.get('programs')} of {n} programs")
    _, dn = count_programs(progs, seen)
    if len(ctx.cov["samples"]) < 4:
        ls = lib.read_lines(trace)
        s, e = lib.run_of_line(ls, max(1, len(ls) * 2 // 3))
        ctx.cov["samples"].append({"source": f"MC_Compaction {name}", "trace": [json.loads(x) for x in ls[s:e]]})
    judge_trace(ctx, trace, f"MC_Compaction {name}", kd, totals)
    os.remove(trace)
    os.remove(progs)
    return n, dn


def model_witness(ctx):
    """The code-shaped model *with* the defect must violate the property-level predicate (this is how a
    finding's model-level witness is regenerated); with Defects = {} the same configs pass (done in mc_and_run)."""
    out = {}
    cases = (("F18a", "plan", "PlanSafe", {"MaxSeg": 2}), ("F18b", "seq", "SegFinal", {"N": 2, "K": 2}),
             ("F18c", "plan", "PlanNoChain", {"MaxSeg": 4, "States": '{"F"}'}))

    def one(case):
        fid, fam, inv, over = case
        cfg = mc_cfg(ctx, f"witness_{fid}", Family=f'"{fam}"', Defects='{"%s"}' % fid, **over)
        r = lib.tlc(ctx, MODULE_MC, cfg, tagged_out={"PROGRAM": ctx.path(f"ignored_{fid}.ndjson")}, timeout=300,
                    expect_violation=True, workers=1)
        return fid, inv, inv in r["invariant_violated"]

    with ThreadPoolExecutor(max_workers=3) as ex:
        for fid, inv, hit in ex.map(one, cases):
            out[fid] = hit
            if not hit:
                raise lib.ToolError(f"model with defect {fid} does not violate {inv}: the model no longer explains the finding")
    ctx.cov["model_with_defect_violates_property"] = out


def tlaps_lemma(ctx):
    """Thorough tier, informational: the unbounded forward-copy lemma (spec/CompactionLemma.tla) is re-proved with
    TLAPS.  Never affects the exit code: the verdict comes from executions of the real code only."""
    import re, shutil, subprocess, time
    d = ctx.path("tlaps")
    os.makedirs(d, exist_ok=True)
    shutil.copy(os.path.join(lib.SPEC, "CompactionLemma.tla"), d)
    t = time.time()
    try:
        r = subprocess.run(["tlapm", "--cleanfp", "CompactionLemma.tla"], cwd=d, stdout=subprocess.PIPE, stderr=subprocess.STDOUT,
                           text=True, timeout=600)
        m = re.search(r"All (\d+) obligations? proved", r.stdout)
        f = re.search(r"(\d+)/(\d+) obligations failed", r.stdout)
        if m:
            res = {"status": "proved", "obligations": int(m.group(1)), "discharged": int(m.group(1))}
        elif f:
            res = {"status": "failed", "obligations": int(f.group(2)), "discharged": int(f.group(2)) - int(f.group(1))}
        else:
            res = {"status": "tlapm gave no summary", "tail": r.stdout[-300:]}
    except Exception as ex:  # tool missing / timeout: informational only
        res = {"status": f"not run: {ex}"}
    res["wall_s"] = round(time.time() - t, 1)
    res["checker_cmd"] = "tlapm --cleanfp spec/CompactionLemma.tla"
    res["statement"] = ("compact_in_place with dest < src, any file length / buffer size / geometry: only [dest0, dest) is ever modified and "
                        "dest < src, so no unread byte is overwritten; at the end [dest0, dest0+len) = original [src0, src0+len), rest untouched")
    ctx.cov["tlaps_forward_copy_lemma"] = res
    ctx.stage("tlaps", **{k: v for k, v in res.items() if k in ("status", "obligations", "discharged", "wall_s")})


def replay(ctx, kd):
    obj = json.load(open(ctx.replay))
    prog = obj.get("program") or obj.get("witness", {}).get("program")
    if prog is None:
        raise lib.ToolError("replay file has no program")
    p = ctx.path("replay_prog.ndjson")
    open(p, "w").write(json.dumps(prog) + "\n")
    trace = ctx.path("replay_trace.ndjson")
    lib.run_driver(DRV, ["--programs", p, "--out", trace])
    v = judge_trace(ctx, trace, "replay", kd, {})
    print(open(trace).read())
    print(json.dumps(v))
    for _, fid in v["deviations"]:
        print(f"KNOWN-FINDING: property=C18 {fid} reproduced by this replay")
    return 1 if v["violations"] else 0


def selftest(ctx, trace, kd):
    """Binding self-test: corrupt one logged field / drop one event -> the monitor must flag exactly that."""
    lines = lib.read_lines(trace)[:6000]
    cfg = ctx.path("t_compaction.cfg")

    def write(name, ls):
        p = ctx.path(name)
        open(p, "w").write("\n".join(ls) + "\n")
        return p

    base = lib.tlc_trace(ctx, MODULE_T, cfg, write("selftest_0.ndjson", lines))
    bad = set(base["violations"])

    def find(pred):
        for i, l in enumerate(lines):
            if lib.is_new(l) or (i + 1) in bad:
                continue
            e = json.loads(l)
            if pred(e):
                return i, e
        raise lib.ToolError("self-test: no suitable event in the trace")

    # (a1) a compacted file with two units swapped
    ia, e = find(lambda e: e["op"] == "compact" and e["res"].get("ok") and len(e["obs"]["units"]) >= 2 and e.get("moved", 0) > 0
                 and len(set(e["obs"]["units"])) == len(e["obs"]["units"]) and min(e["obs"]["units"]) >= 0)
    e["obs"]["units"][0], e["obs"]["units"][1] = e["obs"]["units"][1], e["obs"]["units"][0]
    la = list(lines); la[ia] = json.dumps(e, separators=(",", ":"))
    # (a2) the reported saving off by one byte
    ib, e = find(lambda e: e["op"] == "compact" and e["res"].get("ok") and e["res"]["saved"] > 0)
    e["res"]["saved"] += 1
    lb = list(lines); lb[ib] = json.dumps(e, separators=(",", ":"))
    # (a3) a plan whose last move is shifted one byte down (onto its predecessor / onto used bytes)
    ic, e = find(lambda e: e["op"] == "plan" and len(e["res"].get("moves", [])) >= 2)
    e["res"]["moves"][-1][3] -= 1
    lc = list(lines); lc[ic] = json.dumps(e, separators=(",", ":"))
    # (a4) a moved unit that did not arrive
    ie, e = find(lambda e: e["op"] == "move" and e["res"].get("ok") and e["len"] >= 1)
    e["obs"]["dst"][e["dst"]] = -1
    le = list(lines); le[ie] = json.dumps(e, separators=(",", ":"))
    # (b) drop one event inside a run
    idx = next(i for i, l in enumerate(lines) if i > 20 and not lib.is_new(l) and i + 1 < len(lines) and not lib.is_new(lines[i + 1])
               and (i + 2) not in bad)
    ld = list(lines); del ld[idx]
    files = [write("selftest_a1.ndjson", la), write("selftest_a2.ndjson", lb), write("selftest_a3.ndjson", lc),
             write("selftest_b.ndjson", ld), write("selftest_a4.ndjson", le)]
    with ThreadPoolExecutor(max_workers=5) as ex:
        va, vb, vc, vd, ve = list(ex.map(lambda f: lib.tlc_trace(ctx, MODULE_T, cfg, f), files))
    b = set(base["violations"])
    res = {"corrupt_file_projection_flagged": (ia + 1) in va["violations"] and (ia + 1) not in b,
           "corrupt_bytes_saved_flagged": (ib + 1) in vb["violations"] and (ib + 1) not in b,
           "corrupt_plan_move_flagged": (ic + 1) in vc["violations"] and (ic + 1) not in b,
           "corrupt_moved_unit_flagged": (ie + 1) in ve["violations"] and (ie + 1) not in b,
           "drop_one_event_flagged": (idx + 1) in vd["violations"]}
    ctx.cov["binding_selftest"] = res
    if not all(res.values()):
        raise lib.ToolError(f"binding self-test failed: {res}")


def run(ctx):
    kd = known(ctx)
    ctx.stage("build", wall_s=round(lib.build([DRV]), 1))     # includes waiting for cargo's lock on the shared target dir
    if ctx.replay:
        return replay(ctx, kd)
    totals, seen = {}, set()
    if ctx.quick:
        plan = [("seq", dict(Family='"seq"', N=6, K=3, Bufs="{1, 2, 3}", Geo=0)),
                ("set", dict(Family='"set"', N=8, Bufs="{1, 2, 3}", Geo=1)),
                ("move", dict(Family='"move"', N=5, Bufs="{1, 2, 3}", Geo=1)),
                ("plan", dict(Family='"plan"', MaxSeg=4, MaxUsed=4, SegSize=4))]
        nrand, narch = 900, 40
    else:
        plan = [("seq", dict(Family='"seq"', N=7, K=3, Bufs="{1, 2, 3}", Geo=0)),
                ("seq_big_units", dict(Family='"seq"', N=4, K=3, Bufs="{1, 2, 3}", Geo=1)),
                ("set", dict(Family='"set"', N=10, Bufs="{1, 2, 3}", Geo=2)),
                ("set_buf4", dict(Family='"set"', N=9, Bufs="{4}", Geo=2)),
                ("move", dict(Family='"move"', N=6, Bufs="{1, 2, 3, 4}", Geo=2)),
                ("plan", dict(Family='"plan"', MaxSeg=5, MaxUsed=4, SegSize=4)),
                ("plan_size3", dict(Family='"plan"', MaxSeg=4, MaxUsed=4, SegSize=3, PlanUnit=1000)),
                ("plan_frozen6", dict(Family='"plan"', MaxSeg=6, MaxUsed=5, SegSize=5, PlanUnit=4096, States='{"F"}'))]
        nrand, narch = 9000, 300
    total = distinct = 0
    for name, over in plan:
        n, dn = mc_and_run(ctx, name, kd, totals, seen, **over)
        total += n
        distinct += dn
    model_witness(ctx)
    if not ctx.quick:
        tlaps_lemma(ctx)
    # seeded random programs: longer files, odd unit sizes, many buffer budgets, several compactions in a row,
    # byte-granular segment populations of up to 12 segments, and ArchiveManager::compact
    trace = ctx.path("trace_random.ndjson")
    dump = ctx.path("prog_random.ndjson")
    d = lib.run_driver(DRV, ["--random", nrand, "--arch", narch, "--out", trace, "--dump-programs", dump], env={"VERIF_SEED": ctx.seed})
    ctx.stage("run", source="random", programs=d.get("programs"), events=d.get("events"), hangs=d.get("hangs"), wall_s=d["wall_s"])
    if d.get("programs") != nrand + narch:
        raise lib.ToolError(f"driver executed {d.get('programs')} of {nrand + narch} random programs")
    n, dn = count_programs(dump, seen)
    total += n
    distinct += dn
    ls = lib.read_lines(trace)
    for want in ('"kind":"seg"', '"kind":"plan"', '"kind":"move"'):
        i = next((i for i, l in enumerate(ls) if lib.is_new(l) and want in l and i > len(ls) // 3), None)
        if i is not None:
            s, e = lib.run_of_line(ls, i + 1)
            ctx.cov["samples"].append({"source": f"random seed={ctx.seed}", "trace": [json.loads(x) for x in ls[s:e]][:6]})
    judge_trace(ctx, trace, f"random seed={ctx.seed}", kd, totals)
    try:
        selftest(ctx, trace, kd)
    except lib.ToolError as ex:
        # on a tree that already violates the property the self-test may find no clean event to corrupt;
        # the verdict (exit 1) must not be turned into a tool error by that
        if not ctx.violations:
            raise
        ctx.cov["binding_selftest"] = {"skipped": str(ex)}
    # anti-vacuity: the interesting branches were really exercised on the real code
    for k in ("compact_ok", "compact_refused", "moved_spans", "plans_nonempty", "arch", "moves_chunked"):
        if not totals.get(k):
            raise lib.ToolError(f"vacuous run: no event of class {k}")
    ctx.cov["event_classes"] = totals
    # F18c is outside the statement's three conditions: reported as a known finding while it is listed, never a violation
    if totals.get("plan_chained"):
        if "F18c" in kd:
            lib.note_known(ctx, "F18c", totals["plan_chained"])
            ctx.cov["deviations_observed"]["F18c"] = totals["plan_chained"]
        else:
            ctx.cov["plans_with_a_segment_both_emptied_and_filled"] = totals["plan_chained"]
    ctx.cov["code_shaped_plan_model_agreement"] = f"{totals.get('plan_model_agrees', 0)}/{totals.get('plans', 0)}"
    ctx.cov["traces_validated_against_impl"] = total
    ctx.cov["evaluations"] = total
    ctx.cov["distinct_nontrivial"] = distinct
    ctx.cov["exhaustive"] = True
    ctx.cov["exhaustive_scope"] = ("per family, every input within the listed bounds (stages[].constants): all span sequences / all disjoint "
                                   "span sets x 3 input orders x buffer geometries; all move_data calls within the bounds; all segment populations x 4 thresholds. "
                                   "The random tier and ArchiveManager::compact are sampled, not exhaustive")
    ctx.assumptions += [
        "TLC, the CommunityModules Json reader and the driver's projection of a file onto unit numbers (self-describing pattern blocks, compared byte for byte with the original unit) are trusted",
        "spans, file lengths and buffer boundaries are exercised at unit granularity with unit sizes 4 B .. 192 KiB, several of them not dividing the I/O buffer size; byte-granular spans inside a unit are not generated",
        "span sets reaching beyond the end of the file, I/O errors and crashes during compaction are outside the statement and not generated",
        "segment sizes and write positions in plans stay below 2^25 bytes (TLC integers are 32 bit); the planner's arithmetic is u64/f64 and does not depend on magnitude",
        "ArchiveManager::compact: in the unchanged code the recorded archive size never exceeds the write position, so compact() never truncates; the monitor would judge a truncation if one happened",
    ]
    return lib.finish(ctx, "model_checking",
                      rule="programs = inputs enumerated by TLC from MC_Compaction (every initial state of the bounded space prints its input) plus seeded random programs; "
                           "distinct = distinct program texts (md5) over the whole run; non-trivial = a segment program with a non-empty file and at least one span, "
                           "a plan program with at least two segments, a move program that moves at least one unit, or an archive program")
