"""C08 - serialisation is stable: parse-build-parse-build reaches a fixed point.

spec/RoundTrip.tla (the algebra E1-E5 / B1, abstract model, named deviations) -> MC_RoundTrip enumerates builder
programs (binding G) -> drv_parse executes them on the crate's builders, and performs parse-build-parse-build on
every input its parsers accept (real CDN fixtures, builder outputs, seeded mutations of both) -> T_RoundTrip
judges the recorded digests (binding T).  Level: exploration (the accepted-mutated-input half is a seeded sample).
"""
import json
from . import lib
from . import parse_common as pc

MODULE_T = "T_RoundTrip"
RT_FORMATS = ["blte", "encoding", "archive_index", "root", "install", "download", "size", "tvfs", "patch_archive", "patch_index",
              "zbsdiff", "build_config", "cdn_config", "patch_config", "product_config", "keyring_config", "bpsv", "espec"]


def what_of(e):
    if e.get("op") == "bprog":
        return f"{e.get('fmt')} v{e.get('ver')} builder program {json.dumps(e.get('es'))[:120]}: read back {json.dumps(e.get('got'))[:120]} build={e.get('build')} parse={e.get('parse')}"
    st = lambda k: (e.get(k) or {}).get("o", "-") if isinstance(e.get(k), dict) else "-"
    return (f"{e.get('fmt')} {e.get('src')}: round trip {e.get('o')} build={st('b2')} reparse={st('p2')} rebuild={st('b3')} "
            f"fixed_point={(e.get('b3') or {}).get('d') == (e.get('b2') or {}).get('d')} logical_equal={e.get('l1') == e.get('l2')} "
            f"exact_required={e.get('exact')} exact={(e.get('b2') or {}).get('d') == e.get('dg')}")


def conforming(line):
    """a round trip in which every equation holds, of a format none of whose listed deviations could absorb a change"""
    e = json.loads(line)
    ok = lambda k: isinstance(e.get(k), dict) and e[k].get("o") == "ok"
    return (e.get("fmt") in ("install", "download", "size", "bpsv", "keyring_config", "zbsdiff", "patch_index", "blte", "cdn_config")
            and ok("b2") and ok("p2") and ok("b3") and e["b3"]["d"] == e["b2"]["d"] and e.get("l1") == e.get("l2")
            and (not e.get("exact") or e["b2"]["d"] == e.get("dg")))


def selftest(ctx, trace, cfg):
    lines = pc.sample_lines(trace)

    def corrupt(ls):
        # a rebuilt digest is changed: the fixed point is lost
        i = next(i for i, l in enumerate(ls) if '"op":"rt"' in l and '"b3":{"d"' in l and '"l2":"' in l and conforming(l))
        e = json.loads(ls[i])
        e["b3"]["d"] = "0" * 32
        ls[i] = json.dumps(e, separators=(",", ":"))
        return ls, i + 1

    def logical(ls):
        i = next(i for i, l in enumerate(ls) if '"op":"rt"' in l and '"l2":"' in l and '"b3":{"d"' in l and conforming(l))
        e = json.loads(ls[i])
        e["l2"] = "f" * 32
        ls[i] = json.dumps(e, separators=(",", ":"))
        return ls, i + 1

    def drop(ls):
        # the round-trip event of an accepted input disappears: flagged at the event that follows its parse event
        i = next(i for i in range(1, len(ls) - 2) if '"op":"rt"' in ls[i])
        del ls[i]
        return ls, i + 1

    def bprog(ls):
        i = next(i for i, l in enumerate(ls) if '"op":"bprog"' in l and '"got":[{' in l)
        e = json.loads(ls[i])
        e["got"][0]["s"] = (e["got"][0]["s"] + 1) % 4
        ls[i] = json.dumps(e, separators=(",", ":"))
        return ls, i + 1

    res = {"corrupt_rebuilt_digest_flagged": pc.selftest_lines(ctx, MODULE_T, cfg, lines, corrupt, "a"),
           "corrupt_logical_digest_flagged": pc.selftest_lines(ctx, MODULE_T, cfg, lines, logical, "b"),
           "drop_one_event_flagged": pc.selftest_lines(ctx, MODULE_T, cfg, lines, drop, "c")}
    bl = []
    with open(trace) as f:
        for l in f:
            if '"op":"bprog"' in l:
                bl.append(l.rstrip("\n"))
                if len(bl) >= 1500:
                    break
    res["corrupt_read_back_entry_flagged"] = pc.selftest_lines(ctx, MODULE_T, cfg, bl, bprog, "d")
    ctx.cov["binding_selftest"] = res
    # a run that already reports violations keeps its verdict (exit 1); the self-test result is in the evidence
    if not all(res.values()) and not ctx.violations:
        raise lib.ToolError(f"binding self-test failed: {res}")


def run(ctx):
    kd = pc.known_findings(ctx, "C08", "F08")
    lib.build([pc.DRV])
    if ctx.replay:
        return pc.replay(ctx, MODULE_T, kd)
    bprogs, nprog = pc.gen_bprogs(ctx)
    nmut = 60000 if ctx.quick else 1500000
    run_ = pc.Run(ctx, "c08", bprogs=bprogs, mutations=nmut, formats=RT_FORMATS)
    d = run_.execute()
    v, cfg = pc.judge(ctx, MODULE_T, run_.trace, kd, f"fixtures + builder programs + mutations seed={ctx.seed}", boundary=pc.rt_boundary)
    pc.classify(ctx, v, run_, "drv_parse", what_of, group_of=lambda e: (e.get("fmt"), e.get("op"), what_of(e).split(": ", 1)[-1][:160] if e.get("op") == "rt" else e.get("ver")))
    try:
        selftest(ctx, run_.trace, cfg)
    except StopIteration:
        ctx.cov["binding_selftest"] = {"no_victim_event_in_sample": True}
        if not ctx.violations:
            raise lib.ToolError("binding self-test found no event to corrupt in the sample")
    preds = [lambda l: '"op":"bprog"' in l and '"got":[{' in l, lambda l: '"op":"rt"' in l and '"src":"mut"' in l, lambda l: '"op":"rt"' in l and '"exact":true' in l]
    for want, e in zip(("builder program", "accepted mutated input", "real CDN fixture"), pc.first_matching(run_.trace, preds)):
        if e:
            ctx.cov["samples"].append({"source": want, "trace": [e]})
    ctx.cov["traces_validated_against_impl"] = v.get("judged", 0)
    ctx.cov["evaluations"] = v.get("judged", 0)
    ctx.cov["distinct_nontrivial"] = nprog + d.get("rt", 0)
    ctx.cov["builder_programs"] = nprog
    ctx.cov["accepted_inputs_round_tripped"] = d.get("rt")
    ctx.cov["inputs_by_source"] = d.get("by_src")
    ctx.cov["by_format_inputs_accepted_notclosed"] = d.get("by_fmt")
    ctx.cov["exhaustive"] = False
    ctx.cov["exhaustive_scope"] = ("exhaustive only over the builder programs of MC_RoundTrip (every sequence of <= MaxLen entries with distinct keys per format and "
                                   "version, every representable size/aux/tag class); accepted mutated inputs are a seeded sample")
    ctx.assumptions += ["TLC, the CommunityModules Json reader, md5 digests as identity of byte strings, and the driver's logical projections (entries, keys, sizes, flags, tags; no layout, no lookup tables) are trusted",
                        "a builder that refuses a program produced no value: nothing is judged for it"]
    return lib.finish(ctx, "exploration",
                      rule="one evaluation = one recorded round trip of an accepted input or one builder program, judged by T_RoundTrip; "
                           "distinct = builder programs (distinct by construction) + accepted inputs")
