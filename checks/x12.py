"""X12 (growth) - CDN streaming: path cache + URL builder (path.rs), bootstrap (bootstrap.rs), configuration (config.rs x 2).

spec/PathCache.tla (P1-P8 the TTL map on an interval time model, U1-U4 URL construction) and spec/CdnBoot.tla (B1-B7 the
bootstrap, K1-K4 the configurations) -> MC_PathCache: per family the programs (binding G); for the cache a correct machine on
a nominal clock whose every step the judge must accept without deviation, wrong machines and the code-shaped twins the judge
must refute (pinned variants: every finding regenerated at model level); drv_pathcache executes every program on the real
code; T_PathCache judges every recorded event (binding T; the functional families are binding E inside the monitor).
"""
import glob, json, os, shutil
from concurrent.futures import ThreadPoolExecutor
from . import lib

MODULE_MC = "MC_PathCache"
MODULE_T = "T_PathCache"
DRV = "drv_pathcache"
IDS = ["FX12a", "FX12b", "FX12c", "FX12d", "FX12e", "FX12f"]

INV = {
    "time": ["JudgeAccepts", "JudgeTracks"],
    "rules": ["JudgeAccepts", "JudgeTracks"],
    "url": ["UrlInjective", "UrlSelf"],
    "boot": ["BootSelf", "BootShape"],
    "mk": ["MkSelf"],
    "cfg": ["CfgSelf"],
    "env": [],
}
# pinned variants: (family, D, wide, variant, invariant TLC must refute with KnownDeviations = {}, what it regenerates)
PINNED = [
    ("rules", 2, False, "inert", "JudgeAccepts", "FX12a: validation flag inert"),
    ("boot", 1, False, "code", "BootPinned", "FX12f: a host listed twice"),
    ("boot", 1, False, "code", "BootShape", "FX12f: B1 in its own words"),
    ("mk", 2, False, "code", "MkPinnedGet", "FX12b: get_path depends on the hash seed"),
    ("mk", 2, False, "code", "MkPinnedMerge", "FX12c: merge_with_fallback overflows"),
    ("cfg", 1, False, "code", "CfgPinned", "FX12d/FX12e: estimate overflows, NaN jitter accepted"),
    # wrong caches the judge must reject (anti-vacuity of the judge itself)
    ("time", 2, False, "noexpiry", "JudgeAccepts", "mutant: get ignores the TTL"),
    ("time", 2, False, "bootalways", "JudgeAccepts", "mutant: update_from_bootstrap overwrites unexpired paths"),
    ("time", 2, False, "cleanupcount", "JudgeAccepts", "mutant: cleanup_expired returns len"),
    ("rules", 2, False, "bulkmerge", "JudgeAccepts", "mutant: bulk_update ignores replace_all"),
    ("time", 2, True, "staleclear", "JudgeAccepts", "mutant: clear keeps unexpired entries"),
]
# the code-shaped twins are accepted once their findings are listed (the deviation guards explain exactly them)
EXPLAINED = [
    ("rules", 2, False, "inert", "JudgeAccepts", ["FX12a"]),
    ("mk", 2, False, "code", "MkPinnedGet", ["FX12b"]),
    ("mk", 2, False, "code", "MkPinnedMerge", ["FX12c"]),
    ("cfg", 1, False, "code", "CfgPinned", ["FX12d", "FX12e"]),
    ("boot", 1, False, "code", "BootPinned", ["FX12f"]),
]


def known_findings(ctx):
    """Findings of this check listed as known: findings.d is the source KNOWN_FINDINGS.json is generated from."""
    out = []
    for p in sorted(glob.glob(os.path.join(lib.ROOT, "findings.d", "FX12*.json"))):
        f = json.load(open(p))
        if f.get("property") == "X12" and f.get("status", "known") == "known":
            out.append(f)
            if not any(x.get("id") == f["id"] for x in ctx.known.setdefault("findings", [])):
                ctx.known["findings"].append(f)
    # development aid (trying a fix in a scratch worktree, VERIF_REPO=...): ids to treat as fixed, i.e. NOT accepted
    fixed = set(filter(None, os.environ.get("X12_FIXED", "").split(",")))
    return sorted(f["id"] for f in out if f["id"] not in fixed)


def plan(quick):
    """(family, D, wide) instances of MC_PathCache."""
    if quick:
        return [("time", 3, False), ("rules", 2, False), ("url", 1, False), ("boot", 2, False), ("mk", 2, False), ("cfg", 2, False), ("env", 1, False)]
    return [("time", 4, False), ("time", 3, True), ("rules", 3, False), ("rules", 2, True), ("url", 1, True), ("boot", 2, True), ("mk", 2, True),
            ("cfg", 3, False), ("env", 1, False)]


def mc_cfg(ctx, family, d, wide, variant, kd, invariants, tag):
    cfg = ctx.path(f"mc_{tag}.cfg")
    lib.write_cfg(cfg, {"KnownDeviations": lib.tla_set(kd), "Family": f'"{family}"', "D": d, "Wide": "TRUE" if wide else "FALSE", "Variant": f'"{variant}"'},
                  "MCInit", "MCNext", invariants=invariants, constraints=["Constr"])
    return cfg


def mc_one(ctx, family, d, wide):
    tag = f"{family}_{d}_{int(wide)}"
    cfg = mc_cfg(ctx, family, d, wide, "ideal", [], INV[family] + ["Emit"], tag)
    raw = ctx.path(f"prog_{tag}.raw")
    r = lib.tlc(ctx, MODULE_MC, cfg, tagged_out={"PROGRAM": raw}, timeout=1700, workers=2 if family in ("time", "rules", "boot", "cfg") else 1, heap="6g")
    # the nondeterministic choices of the correct machine (a path validation MAY reject) reach one program several times
    progs = ctx.path(f"prog_{tag}.ndjson")
    seen = set()
    with open(progs, "w") as out:
        for line in open(raw):
            if line not in seen:
                seen.add(line)
                out.write(line)
    os.remove(raw)
    return {"family": family, "D": d, "wide": wide, "progs": progs, "programs": len(seen), "distinct": r["distinct"], "generated": r["generated"], "wall_s": r["wall_s"]}


def pinned_one(ctx, item):
    family, d, wide, variant, inv, what = item
    cfg = mc_cfg(ctx, family, d, wide, variant, [], [inv], f"pinned_{family}_{variant}_{inv}")
    r = lib.tlc(ctx, MODULE_MC, cfg, timeout=900, workers=1, expect_violation=True)
    return f"{family}/{variant} satisfies {inv} ({what})", inv in r["invariant_violated"]


def explained_one(ctx, item):
    family, d, wide, variant, inv, kd = item
    cfg = mc_cfg(ctx, family, d, wide, variant, kd, [inv], f"expl_{family}_{variant}_{inv}")
    r = lib.tlc(ctx, MODULE_MC, cfg, timeout=900, workers=1, expect_violation=True)
    return f"{family}/{variant} is explained by {'+'.join(kd)} ({inv})", not r["invariant_violated"]


def program_of(evs):
    if not evs:
        return None
    fam = evs[0].get("fam")
    drop = ("res", "obs", "seq", "t0", "t1", "pc", "hc", "hn", "rc", "fc")
    if fam == "cache":
        ops = []
        for e in evs[1:]:
            if e.get("op") == "hang":
                continue
            o = {k: v for k, v in e.items() if k not in drop}
            if "pairs" in o:
                o["pairs"] = [{"p": x["p"], "path": x["path"]} for x in o["pairs"]]
            ops.append(o)
        return {"fam": "cache", "cfg": evs[0]["cfg"], "U": evs[0]["U"], "ops": ops}
    if fam == "url":
        calls = []
        for e in evs[1:]:
            if e.get("op") == "hang":
                continue
            c = {k: v for k, v in e.items() if k not in drop and k != "op"}
            c["f"] = e["op"]
            calls.append(c)
        return {"fam": "url", "calls": calls}
    if fam == "boot":
        return {"fam": "boot", "src": evs[0]["src"], "qs": [{k: v for k, v in e.items() if k not in drop and k != "op"} for e in evs[1:] if e.get("op") != "hang"]}
    if fam == "cfg":
        e = next((x for x in evs[1:] if x.get("op") == "cfg"), None)
        return {"fam": "cfg", "base": e["base"], "set": e["set"]} if e else None
    if fam == "env":
        e = next((x for x in evs[1:] if x.get("op") == "env"), None)
        return {"fam": "env", "vars": [[v[0], v[1]] for v in e["vars"]]} if e else None
    return None


def judge_only(ctx, trace, kd, max_events=12000):
    cfg = ctx.path("t_pathcache.cfg")
    if not os.path.exists(cfg):
        lib.write_cfg(cfg, {"KnownDeviations": lib.tla_set(kd)}, "TInit", "TNext", invariants=["Done"])
    return lib.judge(ctx, MODULE_T, cfg, trace, max_events=max_events)


def classify(ctx, v, trace, source):
    listed = {}
    for _, fid in v["deviations"]:
        listed[fid] = listed.get(fid, 0) + 1
    ctx.stage("judge", source=source, events=v["events"], violations=v.get("nviol", len(v["violations"])),
              deviations={i: v.get("n_" + i, 0) for i in IDS if v.get("n_" + i, 0)}, wall_s=v["wall_s"])
    lib.classify_trace(ctx, v, trace, source, program_of=program_of)
    # the monitor keeps the first occurrences of each deviation per chunk and counts the rest
    for i in IDS:
        extra = v.get("n_" + i, 0) - listed.get(i, 0)
        if extra > 0:
            lib.note_known(ctx, i, extra)
            ctx.cov["deviations_observed"][i] = ctx.cov["deviations_observed"].get(i, 0) + extra
    return v


def judge_trace(ctx, trace, source, kd, max_events=12000):
    return classify(ctx, judge_only(ctx, trace, kd, max_events), trace, source)


def time_coverage(ctx, trace):
    """Informational: how often the real clock let an observation decide expiry (coverage, not a verdict)."""
    fresh = stale = 0
    finite = False
    with open(trace) as f:
        for line in f:
            if '"fam":"cache"' in line and lib.is_new(line):
                finite = json.loads(line)["cfg"]["ttl"] >= 0
                continue
            if not finite or '"obs"' not in line or '"gnc"' not in line:
                continue
            o = json.loads(line).get("obs", {})
            for g, n in zip(o.get("get", []), o.get("gnc", [])):
                if n:
                    if g:
                        fresh += 1
                    else:
                        stale += 1
    t = ctx.cov.setdefault("ttl_observations", {"entry_seen_fresh": 0, "entry_seen_expired": 0})
    t["entry_seen_fresh"] += fresh
    t["entry_seen_expired"] += stale


def run_programs(ctx, progs, trace, source, kd, shards):
    d = lib.run_sharded(ctx, DRV, progs, trace, extra_args=["--patience", 120], shards=shards)
    n = len(lib.read_lines(progs))
    ctx.stage("run", source=source, programs=d.get("programs"), events=d.get("events"), hangs=d.get("hangs", 0), wall_s=d["wall_s"])
    if d.get("programs") != n:
        raise lib.ToolError(f"driver executed {d.get('programs')} of {n} programs")
    time_coverage(ctx, trace)
    return judge_trace(ctx, trace, source, kd)


def replay(ctx, kd):
    obj = json.load(open(ctx.replay))
    p = ctx.path("replay_prog.ndjson")
    open(p, "w").write(json.dumps(obj["program"]) + "\n")
    trace = ctx.path("replay_trace.ndjson")
    lib.run_driver(DRV, ["--programs", p, "--out", trace])
    v = judge_trace(ctx, trace, "replay", kd)
    print(open(trace).read())
    print(json.dumps(v))
    return 1 if v["violations"] else 0


def selftest(ctx, trace, kd):
    """Binding self-test: corrupt one logged field / drop one event -> the monitor must flag exactly that."""
    lines = lib.read_lines(trace)
    cfg = ctx.path("t_pathcache.cfg")

    def window(i):
        return lib.run_of_line(lines, i + 1)

    def fam_of(i):
        return json.loads(lines[window(i)[0]]).get("fam")

    def judge_lines(ls, name):
        p = ctx.path(name)
        open(p, "w").write("\n".join(ls) + "\n")
        return lib.tlc_trace(ctx, MODULE_T, cfg, p)

    def dump(ev):
        return json.dumps(ev, separators=(",", ":"))

    jobs = {}   # name -> (lines of the untouched run, lines of the corrupted run, 1-based index of the touched event or None)

    def corrupt(name, pred, change):
        i = next((j for j in range(len(lines)) if pred(j)), None)
        if i is None:
            raise lib.ToolError(f"binding self-test: no event to corrupt for {name}")
        s, e = window(i)
        ev = json.loads(lines[i])
        change(ev)
        jobs[name] = (lines[s:e], lines[s:i] + [dump(ev)] + lines[i + 1:e], i - s + 1)

    def cache_ev(j, op):
        return f'"op":"{op}"' in lines[j] and '"obs"' in lines[j] and fam_of(j) == "cache"

    # (a) cache: an entry that must be expired (30 ms pause, TTL 20 ms) is served
    def serve_stale(ev):
        o = ev["obs"]
        k = next(i for i, (g, n) in enumerate(zip(o["get"], o["gnc"])) if n and not g)
        o["get"][k] = o["gnc"][k]
    corrupt("stale_path_served_flagged",
            lambda j: cache_ev(j, "sleep") and '"ms":30' in lines[j] and any(n and not g for g, n in zip(json.loads(lines[j])["obs"]["get"], json.loads(lines[j])["obs"]["gnc"])),
            serve_stale)

    # (b) cache: a fresh entry (TTL 1000 s) reported expired
    def expire_fresh(ev):
        o = ev["obs"]
        k = next(i for i, n in enumerate(o["gnc"]) if n)
        o["exp"][k] = True
    corrupt("fresh_path_reported_expired_flagged",
            lambda j: cache_ev(j, "set") and json.loads(lines[window(j)[0]])["cfg"]["ttl"] == 1000000000 and any(json.loads(lines[j])["obs"]["get"]),
            expire_fresh)

    # (c) cache: cleanup_expired reports one entry more than it removed
    def one_more(ev):
        ev["res"]["v"] += 1
    corrupt("cleanup_count_corrupted_flagged", lambda j: cache_ev(j, "cleanup"), one_more)

    # (d) cache: the path of another product is returned
    def other_path(ev):
        o = ev["obs"]
        k = next(i for i, n in enumerate(o["gnc"]) if n)
        o["gnc"][k] = [o["gnc"][k][0] + "x"]
    corrupt("foreign_path_flagged", lambda j: cache_ev(j, "set") and any(json.loads(lines[j])["obs"]["gnc"]), other_path)

    # (e) cache: stats lose an entry
    def lose(ev):
        ev["obs"]["stats"][0] -= 1
    corrupt("stats_corrupted_flagged", lambda j: cache_ev(j, "set") and json.loads(lines[j])["obs"]["len"] > 0, lose)

    # (f) url: a URL with the directories swapped
    def swap_dirs(ev):
        u = ev["res"]["v"].split("/")
        u[-3], u[-2] = u[-2], u[-3]
        ev["res"]["v"] = "/".join(u)
    corrupt("url_directories_swapped_flagged",
            lambda j: '"op":"build"' in lines[j] and '"k":"ok"' in lines[j] and json.loads(lines[j])["res"]["v"].split("/")[-3] != json.loads(lines[j])["res"]["v"].split("/")[-2],
            swap_dirs)

    # (g) url: an invalid hash accepted
    def accept(ev):
        ev["res"] = {"k": "ok", "v": "https://x/y"}
    corrupt("bad_hash_accepted_flagged", lambda j: '"op":"build"' in lines[j] and '"k":"err"' in lines[j], accept)

    # (h) boot: two servers of the parsed list exchanged
    def swap_servers(ev):
        s = ev["res"]["servers"]
        s[0], s[1] = s[1], s[0]
    corrupt("server_order_corrupted_flagged",
            lambda j: lib.is_new(lines[j]) and '"fam":"boot"' in lines[j] and '"parse"' in lines[j] and '"k":"ok"' in lines[j]
            and len(json.loads(lines[j])["res"]["servers"]) >= 2 and json.loads(lines[j])["res"]["servers"][0] != json.loads(lines[j])["res"]["servers"][1],
            swap_servers)

    # (i) boot: primary_server answers with an HTTP-only / lower-priority server
    def wrong_primary(ev):
        ev["res"]["v"] = [["nobody.example.org", 1]]
    corrupt("primary_corrupted_flagged", lambda j: '"op":"primary"' in lines[j] and '"v":[[' in lines[j], wrong_primary)

    # (j) cfg: an invalid configuration accepted
    def accept_cfg(ev):
        ev["res"] = {"k": "ok"}
        ev["again"] = True
    corrupt("invalid_config_accepted_flagged", lambda j: '"op":"cfg"' in lines[j] and '"res":{"k":"err"' in lines[j] and '"jk":"fin"' in lines[j], accept_cfg)

    # (k) env: a parsed number replaced by the default
    def dflt(ev):
        ev["res"]["f"]["CASCETTE_CONNECT_TIMEOUT"] = [10, 0, 0, 0, 0, 0, 0, 0]
    corrupt("env_value_lost_flagged", lambda j: '"op":"env"' in lines[j] and '["CASCETTE_CONNECT_TIMEOUT","7"' in lines[j], dflt)

    # (l) drop an event that is not a run boundary (cache: a set the later observations depend on)
    idd = next(i for i in range(len(lines) - 1) if cache_ev(i, "set") and not lib.is_new(lines[i + 1])
               and json.loads(lines[i])["obs"]["gnc"] != json.loads(lines[i - 1]).get("obs", {}).get("gnc"))
    s, e = window(idd)
    jobs["drop_one_event_flagged"] = (lines[s:e], lines[s:idd] + lines[idd + 1:e], None)

    def one(item):
        # the untouched run and the corrupted run in ONE monitor run (a run boundary resets the monitor's state)
        name, (base_ls, bad_ls, idx) = item
        v = judge_lines(base_ls + bad_ls, f"st_{name}.ndjson")
        base = [x for x in v["violations"] if x <= len(base_ls)]
        bad = [x - len(base_ls) for x in v["violations"] if x > len(base_ls)]
        if idx is None:
            return name, len(bad) > len(base)
        return name, idx in bad and idx not in base
    with ThreadPoolExecutor(max_workers=max(2, min(lib.NCPU, len(jobs)))) as ex:
        res = dict(ex.map(one, jobs.items()))
    ctx.cov["binding_selftest"] = res
    if not all(res.values()):
        raise lib.ToolError(f"binding self-test failed: {res}")


def run(ctx):
    kd = known_findings(ctx)
    lib.build([DRV])
    if ctx.replay:
        return replay(ctx, kd)
    lib.write_cfg(ctx.path("t_pathcache.cfg"), {"KnownDeviations": lib.tla_set(kd)}, "TInit", "TNext", invariants=["Done"])
    insts = plan(ctx.quick)
    only = set(filter(None, os.environ.get("X12_ONLY", "").split(",")))      # development aid: a subset of the families
    if only:
        insts = [t for t in insts if t[0] in only]
    nrand = 2500 if ctx.quick else 40000
    rtrace = ctx.path("trace_random.ndjson")
    dump = ctx.path("prog_random.ndjson")
    with ThreadPoolExecutor(max_workers=max(2, min(lib.NCPU, 6))) as ex:
        fr = ex.submit(lib.run_driver, DRV, ["--random", nrand, "--out", rtrace, "--dump-programs", dump], env={"VERIF_SEED": ctx.seed})
        # quick tier: one refutation per finding and two wrong caches; thorough: all of them, and the twins re-run with their findings listed
        pinned = PINNED[:8] if ctx.quick else PINNED
        fps = [ex.submit(pinned_one, ctx, it) for it in pinned] if not only else []
        fes = [ex.submit(explained_one, ctx, it) for it in EXPLAINED] if not (only or ctx.quick) else []
        outs = list(ex.map(lambda t: mc_one(ctx, *t), insts))
        pins = dict(f.result() for f in fps)
        expl = dict(f.result() for f in fes)
        drand = fr.result()
    if pins:
        ctx.cov["pinned_variant"] = {k: ("refuted by TLC" if v else "NOT refuted") for k, v in pins.items()}
        ctx.cov["pinned_variant"].update({k: ("holds" if v else "does NOT hold") for k, v in expl.items()})
        if not all(pins.values()):
            raise lib.ToolError(f"a wrong / code-shaped machine is no longer refuted by the model: {pins}")
        if not all(expl.values()):
            raise lib.ToolError(f"a code-shaped machine is not explained by its listed deviations: {expl}")
    # the random trace is judged in the background while the enumerated programs run (verdicts are classified on the main thread)
    bg = ThreadPoolExecutor(max_workers=1)
    frand = bg.submit(judge_only, ctx, rtrace, kd)
    total = 0
    distinct = 0
    sleepy = ctx.path("prog_sleepy.ndjson")     # programs that pause: many shards (they wait, they do not compute)
    busy = ctx.path("prog_busy.ndjson")
    with open(sleepy, "w") as fs, open(busy, "w") as fb:
        for o in outs:
            ctx.cov["states"] += o["distinct"]
            ctx.cov["transitions"] += o["generated"]
            ctx.stage("mc", family=o["family"], D=o["D"], wide=o["wide"], distinct_states=o["distinct"], programs=o["programs"], wall_s=o["wall_s"])
            if o["programs"] == 0:
                raise lib.ToolError(f"MC_PathCache {o['family']} emitted no program")
            with open(o["progs"]) as g:
                shutil.copyfileobj(g, fs if o["family"] == "time" else fb)
            total += o["programs"]
            os.remove(o["progs"])
    traces = []
    for name, progs, shards in (("sleepy", sleepy, 24), ("busy", busy, min(lib.NCPU, 8))):
        if os.path.getsize(progs) == 0:
            continue
        _, dd = lib.count_distinct(progs)
        distinct += dd
        trace = ctx.path(f"trace_{name}.ndjson")
        run_programs(ctx, progs, trace, f"MC_PathCache {ctx.tier} ({name})", kd, shards)
        traces.append(trace)
    alltrace = ctx.path("trace_all.ndjson")
    with open(alltrace, "w") as out:
        for t in traces:
            with open(t) as f:
                shutil.copyfileobj(f, out)
            os.remove(t)
    ls = lib.read_lines(alltrace)
    for needle in ('"fam":"cache"', '"fam":"url"', '"fam":"boot"', '"fam":"cfg"', '"fam":"env"'):
        i = next((j for j in range(len(ls) - 1, -1, -1) if lib.is_new(ls[j]) and needle in ls[j]), None)
        if i is not None:
            s, e = lib.run_of_line(ls, i + 1)
            ctx.cov["samples"].append({"source": "MC_PathCache", "trace": [json.loads(x) for x in ls[s:min(e, s + 6)]]})
    del ls
    if not only:
        selftest(ctx, alltrace, kd)
    os.remove(alltrace)
    # ---- seeded random programs: longer cache histories over three products with pauses of 8 / 15 / 30 ms and TTLs 0 / 20 / 35 ms,
    #      malformed paths with control and non-ASCII characters, random hashes, tables of up to 4 rows in 6 layouts, arbitrary bytes,
    #      hand-made bootstraps, up to 4 boundary values per configuration, environment settings
    d = drand
    ctx.stage("run", source="random", programs=d.get("programs"), events=d.get("events"), wall_s=d["wall_s"])
    _, dr = lib.count_distinct(dump)
    time_coverage(ctx, rtrace)
    classify(ctx, frand.result(), rtrace, f"random seed={ctx.seed}")
    bg.shutdown()
    total += nrand
    distinct += dr
    ctx.cov["traces_validated_against_impl"] = total
    ctx.cov["evaluations"] = total
    ctx.cov["distinct_nontrivial"] = distinct
    ctx.cov["exhaustive"] = True
    ctx.cov["exhaustive_scope"] = ("per family, every program of the listed bounds (cache: every operation sequence of length <= D over the family's "
                                   "alphabet x the TTL / validation grid; url: every call of the hash grid x servers x paths x trailing slashes x scheme; "
                                   "boot: every table of <= D rows over the row alphabet x filters (+ every one-row table x header layouts); mk: every "
                                   "bootstrap of <= 2 servers x key sets x fallbacks; cfg: every preset, every single boundary assignment on every preset, "
                                   "every pair (triple) on the default; env: every variable x value); the random tier is not exhaustive")
    ctx.assumptions += ["TLC, the CommunityModules Json reader and the driver's projection (public API only) are trusted",
                        "time: CdnPathCache reads std::time::Instant and so does the driver; every call is logged with the interval it ran in and the judge "
                        "keeps an interval for the instant each entry was stamped, narrowed by every observation; pauses are real (8 / 15 / 30 ms against "
                        "TTLs of 0 / 20 / 35 ms, 1000 s, Duration::MAX, none); a late driver widens intervals and cannot cause an alarm; an expiry that "
                        "is off by less than the duration of a call (microseconds) cannot be seen",
                        "validation (P8): the code defines no notion of a valid path; the judge requires rejection only for empty / white-space / '..' "
                        "paths and leaves leading '/', '.', empty components and unusual characters open",
                        "u64 values are logged as eight bytes and judged with exact arithmetic; priorities at or above 2^30 are logged as 2^30",
                        "one thread only (CdnPathCache is not Sync-shared anywhere in the crate)"]
    return lib.finish(ctx, "model_checking",
                      rule="programs = initial states / operation sequences enumerated by TLC from MC_PathCache (one instance per family and bound) plus "
                           "seeded random programs; distinct = distinct program texts (md5); every program contains at least one call of the code under test")
