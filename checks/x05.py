"""X05 - the shared-memory control block and its multi-process protocol (cascette-client-storage::shmem).

spec/Shmem.tla states the properties (module header: L1-L3 lock, R1 region, V1 version/layout, S1-S3 slot table,
E1 exclusive access, T1 round trip, M1-M3 legacy manager) and one functional core Apply(st, e, dv): ideal for dv = {},
code-shaped for the findings in dv.
  G  MC_Shmem: TLC explores every interleaving (and every SIGKILL point) of 2-3 processes running compositions of the
     crate's primitives, checks the protocol invariants on the ideal model, REFUTES them on the code-shaped variants
     (anti-vacuity; the counterexamples are the findings at model level), and prints every complete schedule as a
     program; the other families are complete operation sequences of a depth.
  run drv_shmem replays the programs with REAL worker processes (one per TLA+ process) attached to one region in
     /dev/shm and one lock file, one API call at a time; crashes are SIGKILLs; blocking is observed, not timed.
  T  T_Shmem judges every recorded event with Apply (ideal first, then the listed findings).
The schedules of the large configurations are sampled for the replay (seeded; the model check itself is complete).
"""
import glob, hashlib, json, os
from concurrent.futures import ThreadPoolExecutor
from . import lib

PROP = "X05"
MODULE_MC = "MC_Shmem"
MODULE_T = "T_Shmem"
ALL_DEVS = ["FX05" + c for c in "abcdefghijkl"]
COUNTERS = ["n_acq", "n_blocked", "n_granted", "n_load", "n_store", "n_add", "n_remove", "n_crash", "n_died", "n_mgr", "n_msg",
            "n_unstick", "n_skipped"]
INVS = ["InvFault", "InvStuck", "InvTable", "InvLost", "InvLayout", "InvExcl", "InvCells"]
DROP = ("i", "res", "obs", "auto")


def own_findings(ctx):
    """findings.d/FX05*.json is the source (X05 is not a MANIFEST property)."""
    mine = [json.load(open(p)) for p in sorted(glob.glob(os.path.join(lib.ROOT, "findings.d", "FX05*.json")))]
    ctx.known["findings"] = [f for f in ctx.known.get("findings", []) if f.get("property") != PROP] + \
                            [f for f in mine if f.get("status", "known") == "known"]
    kd = lib.known_ids(ctx, PROP)
    if os.environ.get("VERIF_X05_KD") is not None:
        # development aid (like VERIF_REPO): pretend only these findings are listed, e.g. to see a fix turn the check green
        # without its deviation. Registered commands never set it.
        kd = [x for x in os.environ["VERIF_X05_KD"].split(",") if x]
    return kd


def program_of(evs):
    if not evs or evs[0].get("op") != "new":
        return None
    h = evs[0]
    ops = [{k: v for k, v in e.items() if k not in DROP} for e in evs[1:] if not e.get("auto") and not (e.get("op") == "unstick" and e.get("p") == 0)]
    prog = {"fam": h["fam"], "n": h["n"], "ops": ops}
    if "tag" in h:
        prog["tag"] = h["tag"]
    return prog


def t_cfg(ctx, kd, name="t_shmem.cfg"):
    cfg = ctx.path(name)
    lib.write_cfg(cfg, {"KnownDeviations": lib.tla_set(kd)}, "TInit", "TNext", invariants=["Done"], view="View")
    return cfg


def judge_trace(ctx, trace, source, kd, totals):
    v = lib.judge(ctx, MODULE_T, t_cfg(ctx, kd), trace, max_events=20000)
    ndev = {fid: v.get("dev_" + fid, 0) for fid in ALL_DEVS if v.get("dev_" + fid, 0)}
    ctx.stage("judge", source=source, events=v["events"], violations=v.get("nviol", 0), deviations=ndev, wall_s=v["wall_s"], chunks=v["chunks"])
    totals["events"] = totals.get("events", 0) + v["events"]
    for c in COUNTERS:
        totals[c] = totals.get(c, 0) + v.get(c, 0)
    for fid, n in ndev.items():
        lib.note_known(ctx, fid, n)
        ctx.cov["deviations_observed"][fid] = ctx.cov["deviations_observed"].get(fid, 0) + n
    lib.classify_trace(ctx, dict(v, deviations=[]), trace, source, program_of=program_of)
    return v


# --------------------------------------------------------------------------- model checking
def mc_cfg(ctx, tag, fam, roles=("", "", ""), slots=2, crash=0, depth=0, dv=(), invariants=()):
    cfg = ctx.path(f"mc_{tag}.cfg")
    r = list(roles) + [""] * (3 - len(roles))
    lib.write_cfg(cfg, {"Family": f'"{fam}"', "R1": f'"{r[0]}"', "R2": f'"{r[1]}"', "R3": f'"{r[2]}"', "Slots": slots, "MaxCrash": crash,
                        "D": depth, "DV": lib.tla_set(dv)}, "MCInit", "MCNext", invariants=list(invariants))
    return cfg


def sample(lines, keep, seed):
    """Deterministic sample of `keep` programs (all of them if there are fewer)."""
    if keep is None or len(lines) <= keep:
        return lines
    key = lambda l: hashlib.md5((str(seed) + l).encode()).digest()
    return sorted(sorted(lines, key=key)[:keep])


def mc_one(ctx, c):
    tag = c["tag"]
    proto = c["fam"] == "proto"
    cfg = mc_cfg(ctx, tag, c["fam"], c.get("roles", ()), c.get("slots", 2), c.get("crash", 0), c.get("depth", 0),
                 invariants=(INVS if proto else []) + ["Emit"])
    progs = ctx.path(f"prog_{tag}.ndjson")
    r = lib.tlc(ctx, MODULE_MC, cfg, tagged_out={"PROGRAM": progs}, timeout=1500, workers=c.get("workers", 1), heap="3g")
    n = r["counts"]["PROGRAM"]
    if n == 0:
        raise lib.ToolError(f"MC_Shmem printed no program for {tag}")
    lines = lib.read_lines(progs)
    kept = sample(lines, c.get("keep"), ctx.seed)
    os.remove(progs)
    return dict(tag=tag, lines=kept, n=n, kept=len(kept), distinct=r["distinct"], generated=r["generated"], wall_s=r["wall_s"], proto=proto)


def refute_one(ctx, c):
    """The code-shaped variant of one finding must violate the invariant that states the property it breaks."""
    cfg = mc_cfg(ctx, "refute_" + c["fid"], "proto", c["roles"], 2, c.get("crash", 0), 0, dv=[c["fid"]], invariants=INVS)
    r = lib.tlc(ctx, MODULE_MC, cfg, timeout=600, workers=1, expect_violation=True, heap="2g")
    return dict(fid=c["fid"], expect=c["inv"], violated=r["invariant_violated"], distinct=r["distinct"], generated=r["generated"])


REFUTE = [dict(fid="FX05a", roles=("lock2", "lock2"), crash=1, inv="InvStuck"),
          dict(fid="FX05c", roles=("att5p_w", "att4_w"), inv="InvFault"),
          dict(fid="FX05c", roles=("probe5p", "open5"), inv="InvFault"),
          dict(fid="FX05d", roles=("att5_w", "att5p_r"), inv="InvLayout")]


def plan(quick):
    def P(tag, roles, slots=2, crash=0, keep=None, workers=1):
        return dict(tag=tag, fam="proto", roles=roles, slots=slots, crash=crash, keep=keep, workers=workers)

    def S(tag, fam, slots=2, crash=0, depth=3, keep=None):
        return dict(tag=tag, fam=fam, slots=slots, crash=crash, depth=depth, keep=keep)
    k = (lambda q, t: q) if quick else (lambda q, t: t)
    cs = [P("ad2", ("ad5p_w", "ad5p_r"), crash=1, keep=k(120, 4000), workers=2),
          P("mix54", ("att5p_w", "att4_w")),
          P("mix45", ("att4_w", "att5p_r"), crash=1, keep=k(50, 898)),
          P("probe4", ("probe5p", "open4")), P("probe5", ("probe5p", "open5")),
          P("nopt", ("att5_w", "att5p_r")),
          P("excl", ("excl5p", "att5p_w"), crash=1, keep=k(60, 1288)),
          P("three", ("att5p_w", "att5p_w", "att5p_r"), keep=k(50, 522)),
          P("locks", ("lock2", "lock2", "lockonly"), crash=1, keep=k(80, 3000), workers=2),
          P("dd", ("add5p_w", "rd5p"), keep=k(100, 1120))]
    if quick:
        cs += [P("full1", ("att5p_w", "att5p_r"), slots=1, crash=1, keep=80), P("rdmix", ("att5p_w", "rd4"), keep=60)]
    else:
        cs += [P("full1", ("att5p_w", "att5p_w", "att5p_r"), slots=1, crash=1, keep=3000, workers=2),
               P("rdmix", ("att5p_w", "rd4", "rd5p"), keep=3000, workers=2)]
    cs += [S("tab", "tab", depth=k(3, 4)), S("cb", "cb", depth=k(3, 4), keep=k(None, 12000)),
           S("tab0", "tab", slots=0, depth=2), S("tab1", "tab", slots=1, depth=3), S("tab29", "tab", slots=29, depth=2),
           S("tab30", "tab", slots=30, depth=2), S("tab2002", "tab", slots=2002, depth=k(2, 3)), S("tab2003", "tab", slots=2003, depth=k(2, 3)),
           S("reg2", "reg", slots=2, depth=k(4, 5), keep=k(800, 20000)), S("reg3", "reg", slots=3, depth=k(4, 5), keep=k(800, 20000)),
           S("regx", "regx", slots=3, depth=k(3, 4), keep=k(300, 1500)),
           S("mgr", "mgr", crash=1, depth=k(5, 6), keep=k(500, 15000)),
           S("msg", "msg", depth=1), S("paths", "paths", depth=1)]
    return cs


def witnesses():
    out = []
    for p in sorted(glob.glob(os.path.join(lib.ROOT, "replay", "X05_FX05*_witness.json"))):
        o = json.load(open(p))
        out.append((o["finding"], o["program"]))
    return out


# --------------------------------------------------------------------------- replay / self-test
def replay(ctx, kd):
    obj = json.load(open(ctx.replay))
    prog = obj.get("program") or obj.get("witness") or obj
    p = ctx.path("replay_prog.ndjson")
    open(p, "w").write(json.dumps(prog) + "\n")
    trace = ctx.path("replay_trace.ndjson")
    lib.run_driver("drv_shmem", ["--programs", p, "--out", trace])
    v = lib.tlc_trace(ctx, MODULE_T, t_cfg(ctx, kd), trace)
    print(open(trace).read())
    print(json.dumps(v))
    if v["violations"]:
        print(f"VIOLATION property={PROP} replay={ctx.replay}")
    else:
        for fid in ALL_DEVS:
            if v.get("dev_" + fid):
                print(f"KNOWN-FINDING: property={PROP} {fid} (observed {v['dev_' + fid]}x)")
    return 1 if v["violations"] else 0


def selftest(ctx, trace, wtrace, wids, kd):
    """Binding self-test: (a) one corrupted field, (b) one dropped event must be flagged at exactly that place;
    (c) without the list of findings every witness run must be a violation (a deviation is never accepted silently)."""
    allc = lib.read_lines(trace)
    i0 = next(i for i, l in enumerate(allc) if '"op":"load"' in l and '"tc":1' in l)
    s0, _ = lib.run_of_line(allc, i0 + 1)
    lines = allc[s0:s0 + 3000]
    del allc
    while lines and not lib.is_new(lines[-1]):
        lines.pop()
    lines.pop()
    cfg = t_cfg(ctx, kd)
    p0 = ctx.path("selftest_0.ndjson"); open(p0, "w").write("\n".join(lines) + "\n")
    ia = next(i for i, l in enumerate(lines) if '"op":"load"' in l and '"tc":1' in l)
    e = json.loads(lines[ia]); e["res"]["tc"] = 2
    la = list(lines); la[ia] = json.dumps(e, separators=(",", ":"))
    pa = ctx.path("selftest_a.ndjson"); open(pa, "w").write("\n".join(la) + "\n")
    ib = next(i for i, l in enumerate(lines) if i > 40 and not lib.is_new(l) and not lib.is_new(lines[i + 1]))
    lb = list(lines); del lb[ib]
    pb = ctx.path("selftest_b.ndjson"); open(pb, "w").write("\n".join(lb) + "\n")
    cfg0 = t_cfg(ctx, [], "t_shmem_nokd.cfg")
    with ThreadPoolExecutor(max_workers=4) as ex:
        f0 = ex.submit(lib.tlc_trace, ctx, MODULE_T, cfg, p0)
        fa = ex.submit(lib.tlc_trace, ctx, MODULE_T, cfg, pa)
        fb = ex.submit(lib.tlc_trace, ctx, MODULE_T, cfg, pb)
        fc = ex.submit(lib.tlc_trace, ctx, MODULE_T, cfg0, wtrace)
        base, va, vb, vc = f0.result(), fa.result(), fb.result(), fc.result()
    ok_a = (ia + 1) in va["violations"] and (ia + 1) not in base["violations"]
    ok_b = (ib + 1) in vb["violations"] and len(vb["violations"]) > len(base["violations"])
    wl = lib.read_lines(wtrace)
    runs = [i for i, l in enumerate(wl) if lib.is_new(l)]
    flagged = {lib.run_of_line(wl, ln)[0] for ln in vc["violations"]}
    # (a finding that is not listed - fixed in the tree under test - need not show any more)
    ok_c = len(runs) == len(wids) and all(r in flagged for r, (fid, _) in zip(runs, wids) if fid in kd)
    res = {"corrupt_one_field_flagged": ok_a, "drop_one_event_flagged": ok_b, "unlisted_findings_are_violations": ok_c,
           "witness_runs": len(runs), "witness_runs_flagged_without_list": len(flagged)}
    ctx.cov["binding_selftest"] = res
    for p in (p0, pa, pb):
        os.remove(p)
    if not (ok_a and ok_b and ok_c):
        raise lib.ToolError(f"binding self-test failed: {res}")


# --------------------------------------------------------------------------- main
def run(ctx):
    kd = own_findings(ctx)
    lib.build(["drv_shmem"])
    if ctx.replay:
        return replay(ctx, kd)
    totals = {}
    cs = plan(ctx.quick)
    with ThreadPoolExecutor(max_workers=max(2, min(lib.NCPU, 8))) as ex:
        fut_ref = [ex.submit(refute_one, ctx, c) for c in REFUTE]
        res = list(ex.map(lambda c: mc_one(ctx, c), cs))
        refs = [f.result() for f in fut_ref]
    # ---- model level: the ideal model satisfies the invariants (a violation would have been a ToolError), the code-shaped
    # variants do not
    refuted = {}
    for r in refs:
        ok = r["expect"] in r["violated"]
        refuted[f'{r["fid"]}:{r["expect"]}'] = ok
        ctx.cov["states"] += r["distinct"]
        ctx.cov["transitions"] += r["generated"]
        if not ok:
            raise lib.ToolError(f"the code-shaped variant {r['fid']} no longer violates {r['expect']} (model out of date?): {r['violated']}")
    ctx.cov["model_refutes_code_shaped_variants"] = refuted
    allprogs = ctx.path("programs.ndjson")
    enumerated = 0
    replayed = 0
    lines = []
    for c, r in zip(cs, res):
        ctx.cov["states"] += r["distinct"]
        ctx.cov["transitions"] += r["generated"]
        enumerated += r["n"]
        replayed += r["kept"]
        ctx.stage("mc", config=r["tag"], distinct_states=r["distinct"], schedules=r["n"], replayed=r["kept"], wall_s=r["wall_s"])
        lines += r["lines"]
    # the schedules with blocking calls take 50 ms and more each, the sequence programs microseconds: spread them over the
    # shards (deterministic order)
    lines.sort(key=lambda l: hashlib.md5(("order" + str(ctx.seed) + l).encode()).digest())
    open(allprogs, "w").write("\n".join(lines) + "\n")
    del lines
    if os.environ.get("VERIF_X05_SAVE"):      # development aid: keep the program file of this run
        import shutil
        shutil.copy(allprogs, os.environ["VERIF_X05_SAVE"])
    ctx.cov["schedules_enumerated"] = enumerated
    _, distinct = lib.count_distinct(allprogs)
    # ---- the curated witnesses of the findings (hand-minimised programs, replay/X05_FX05*_witness.json)
    ws = witnesses()
    wprogs = ctx.path("witness_programs.ndjson")
    open(wprogs, "w").write("".join(json.dumps(p) + "\n" for _, p in ws))
    wtrace = ctx.path("trace_witness.ndjson")
    d = lib.run_driver("drv_shmem", ["--programs", wprogs, "--out", wtrace])
    ctx.stage("run", source="witnesses", programs=d.get("programs"), events=d.get("events"), wall_s=d["wall_s"])
    vw = judge_trace(ctx, wtrace, "witness programs", kd, totals)
    # a listed finding whose witness no longer shows it: reported at the end (a violation elsewhere explains it better)
    stale = [fid for fid, _ in ws if fid in kd and not vw.get("dev_" + fid)]
    # ---- execution on the real code: real processes, one region, one lock file (the workers mostly wait: oversubscribe)
    trace = ctx.path("trace_mc.ndjson")
    d = lib.run_sharded(ctx, "drv_shmem", allprogs, trace, shards=max(4, min(3 * lib.NCPU, 16)))
    ctx.stage("run", source="MC_Shmem", programs=d.get("programs"), events=d.get("events"), hangs=d.get("hangs"), spawns=d.get("spawns"), wall_s=d["wall_s"],
              shards=d.get("shards"), **{k: v for k, v in d.items() if k.startswith("ms_")})
    if d.get("programs") != replayed:
        raise lib.ToolError(f"driver executed {d.get('programs')} of {replayed} programs")
    ls = lib.read_lines(trace)
    seen = set()
    for i, line in enumerate(ls):
        if lib.is_new(line):
            fam = json.loads(line)["fam"]
            s, e = lib.run_of_line(ls, i + 1)
            if fam not in seen and (fam != "proto" or any('"blocked"' in x for x in ls[s:e])):
                seen.add(fam)
                ctx.cov["samples"].append({"source": f"MC_Shmem {fam}", "trace": [json.loads(x) for x in ls[s:e]]})
    del ls
    judge_trace(ctx, trace, "MC_Shmem (all configurations)", kd, totals)
    if ctx.violations:
        ctx.cov["binding_selftest"] = {"skipped": "violations were reported"}
    elif stale:
        raise lib.ToolError(f"the witnesses of the listed findings {stale} no longer show them - fixed? then set their status to \"fixed\" in findings.d/")
    else:
        selftest(ctx, trace, wtrace, ws, kd)
        need = {"n_blocked": 100, "n_granted": 100, "n_crash": 100, "n_load": 1000, "n_store": 1000, "n_add": 500, "n_remove": 200, "n_mgr": 1000, "n_msg": 100}
        short = {k: totals.get(k, 0) for k, v in need.items() if totals.get(k, 0) < v}
        if short:
            raise lib.ToolError(f"anti-vacuity: too few judged events of kind {short} (needed {need})")
    ctx.cov["judged"] = {k: totals.get(k, 0) for k in ["events"] + COUNTERS}
    total_programs = replayed + len(ws)
    ctx.cov["traces_validated_against_impl"] = total_programs
    ctx.cov["evaluations"] = total_programs
    ctx.cov["distinct_nontrivial"] = distinct + len(ws)
    ctx.cov["exhaustive"] = False
    ctx.cov["exhaustive_scope"] = ("the model check is complete for every listed configuration (all interleavings of the shared-state calls of 2-3 "
                                   "processes, all SIGKILL points up to MaxCrash; all sequences of depth D for the sequence families); the replay on "
                                   "the real code covers a seeded sample of the schedules of the larger configurations (schedules_enumerated vs "
                                   "traces_validated_against_impl)")
    ctx.assumptions += ["TLC, the CommunityModules Json reader and the driver's recording (answers of the worker processes, size and flags dword of the "
                        "shm object read through /dev/shm, 'inside nanosleep' read from /proc/<pid>/syscall) are trusted",
                        "interleaving granularity is one public API call; to_mapped / from_mapped are atomic at that granularity (a process killed "
                        "INSIDE to_mapped is not modelled - the code writes state = 1 first, so such a tear would be invisible to the documented recovery)",
                        "a blocked LockFile::acquire is recognised by the worker sleeping in nanosleep (its retry loop is the only sleep of a worker); "
                        "'the waiter did not get the lock of a dead holder' is a 2 s (40 retry periods) silence",
                        "pids in the slot table are the real pids of the worker processes; SIGKILL + wait makes them dead",
                        "Linux tmpfs semantics of ftruncate / mmap (SIGBUS beyond the last page of the object)"]
    return lib.finish(ctx, "model_checking",
                      rule="programs = complete schedules of the proto configurations (one role per process, every interleaving and crash point) and complete "
                           "operation sequences of depth D behind a fixed prefix for the sequence families, enumerated by TLC from Shmem.tla (history "
                           "variable), sampled by md5(seed + text) where a configuration has more than its quota, plus the hand-minimised witness programs; "
                           "distinct = distinct program texts (md5); every program has at least one call that touches shared state and every event is judged, "
                           "so all are non-trivial")
