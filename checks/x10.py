"""X10 (growth) - the archive-client layer of cascette-protocol (feature `streaming`).

spec/ArchClient.tla (properties E1-E4, B1, R1-R5) -> MC_ArchClient checks the judge against the specification's two
sequential implementations (correct / code-shaped) on every program it enumerates (binding G) and must refute the
code-shaped one without known deviations (pinned variant); drv_archclient executes every program on the real
StreamingArchiveReader / BatchArchiveExtractor / StreamingCdnResolver / BatchContentResolver / CdnResolutionConfig over
a scripted in-process HttpClient; T_ArchClient judges every recorded event (binding T).
"""
import glob, json, os, re, shutil
from concurrent.futures import ThreadPoolExecutor
from . import lib

MODULE_MC = "MC_ArchClient"
MODULE_T = "T_ArchClient"
DRV = "drv_archclient"
IDS = ["FX10b", "FX10c", "FX10d", "FX10e", "FX10f", "FX10g"]
INV = ["IdealAccepted", "CodedExplained", "JudgeTracks", "Emit"]
ORPHAN = "crates/cascette-protocol/src/archive_client.rs"


def known_findings(ctx):
    """Findings of this check listed as known: findings.d is the source KNOWN_FINDINGS.json is generated from."""
    out = []
    for p in sorted(glob.glob(os.path.join(lib.ROOT, "findings.d", "FX10*.json"))):
        f = json.load(open(p))
        if f.get("property") == "X10" and f.get("status", "known") == "known":
            out.append(f)
            if not any(x.get("id") == f["id"] for x in ctx.known.setdefault("findings", [])):
                ctx.known["findings"].append(f)
    # development aid (trying the fixes in a scratch worktree, VERIF_REPO=...): ids to treat as fixed, i.e. NOT accepted
    fixed = set(filter(None, os.environ.get("X10_FIXED", "").split(",")))
    return sorted(f["id"] for f in out if f["id"] not in fixed)


def plan(quick):
    """(family, D, alphabet, configuration variant) instances of MC_ArchClient."""
    p = [("rd", 1, "full", 1), ("rs", 2, "full", 1), ("rs", 3, "tiny", 1), ("rs", 1, "full", 2), ("rs", 1, "full", 3),
         ("rs", 2, "red", 2), ("bt", 1, "full", 1), ("cf", 1, "full", 1), ("cm", 3, "full", 1), ("cm", 3, "full", 2), ("cm", 2, "full", 3)]
    if not quick:
        p += [("rs", 3, "red", 1), ("rs", 4, "tiny", 1), ("rs", 2, "full", 2), ("rs", 2, "red", 3), ("rs", 3, "tiny", 2), ("rs", 3, "red", 2)]
    return p


def mc_cfg(ctx, fam, d, alpha, variant, invariants, tag):
    cfg = ctx.path(f"mc_{tag}.cfg")
    lib.write_cfg(cfg, {"KnownDeviations": "{}", "Family": f'"{fam}"', "D": d, "Alpha": f'"{alpha}"', "Variant": variant},
                  "MCInit", "MCNext", invariants=invariants)
    return cfg


def mc_one(ctx, fam, d, alpha, variant):
    tag = f"{fam}_{d}_{alpha}_{variant}"
    cfg = mc_cfg(ctx, fam, d, alpha, variant, INV, tag)
    progs = ctx.path(f"prog_{tag}.ndjson")
    r = lib.tlc(ctx, MODULE_MC, cfg, tagged_out={"PROGRAM": progs}, timeout=1700, workers=2, heap="4g")
    return {"tag": tag, "progs": progs, "programs": r["counts"]["PROGRAM"], "distinct": r["distinct"], "generated": r["generated"], "wall_s": r["wall_s"]}


def pinned(ctx):
    """The code-shaped implementation Sim(AllIds) must NOT be accepted by the judge without known deviations."""
    out = {}
    for fam, d, alpha in (("rd", 1, "full"), ("rs", 1, "full"), ("bt", 1, "full")):
        cfg = mc_cfg(ctx, fam, d, alpha, 1, ["PinnedCodedConforms"], f"pinned_{fam}")
        r = lib.tlc(ctx, MODULE_MC, cfg, timeout=600, workers=1, expect_violation=True, heap="2g")
        out[fam] = "refuted by TLC" if "PinnedCodedConforms" in r["invariant_violated"] else "NOT refuted"
    ctx.cov["pinned_variant"] = {"the code-shaped implementation conforms without known deviations": out}
    if any(v != "refuted by TLC" for v in out.values()):
        raise lib.ToolError(f"the code-shaped implementation is no longer refuted by the model: {out}")


def program_of(evs):
    if not evs:
        return None
    ops = []
    for e in evs[1:]:
        if e.get("op") in ("call", "hang"):
            continue
        ops.append({k: v for k, v in e.items() if k not in ("res", "obs", "seq", "hash")})
    return {"fam": evs[0].get("fam"), "cfg": evs[0].get("cfg"), "ops": ops}


def t_cfg(ctx, kd, name="t_archclient.cfg"):
    cfg = ctx.path(name)
    lib.write_cfg(cfg, {"KnownDeviations": lib.tla_set(kd)}, "TInit", "TNext", invariants=["Done"])
    return cfg


def judge_trace(ctx, trace, source, kd, max_events=6000):
    v = lib.judge(ctx, MODULE_T, t_cfg(ctx, kd), trace, max_events=max_events)
    listed = {}
    for _, fid in v["deviations"]:
        listed[fid] = listed.get(fid, 0) + 1
    ctx.stage("judge", source=source, events=v["events"], violations=v.get("nviol", len(v["violations"])),
              deviations={i: v.get("n_" + i, 0) for i in IDS if v.get("n_" + i, 0)}, wall_s=v["wall_s"])
    lib.classify_trace(ctx, v, trace, source, program_of=program_of)
    for i in IDS:       # the monitor lists the first occurrences per chunk and counts the rest
        extra = v.get("n_" + i, 0) - listed.get(i, 0)
        if extra > 0:
            lib.note_known(ctx, i, extra)
            ctx.cov["deviations_observed"][i] = ctx.cov["deviations_observed"].get(i, 0) + extra
    return v


def run_programs(ctx, progs, trace, source, kd):
    d = lib.run_sharded(ctx, DRV, progs, trace, shards=min(lib.NCPU, 8))
    n = len(lib.read_lines(progs))
    ctx.stage("run", source=source, programs=d.get("programs"), events=d.get("events"), hangs=d.get("hangs", 0), wall_s=d["wall_s"])
    if d.get("programs") != n:
        raise lib.ToolError(f"driver executed {d.get('programs')} of {n} programs")
    return judge_trace(ctx, trace, source, kd)


def replay(ctx, kd):
    obj = json.load(open(ctx.replay))
    p = ctx.path("replay_prog.ndjson")
    open(p, "w").write(json.dumps(obj["program"]) + "\n")
    trace = ctx.path("replay_trace.ndjson")
    lib.run_driver(DRV, ["--programs", p, "--out", trace])
    v = judge_trace(ctx, trace, "replay", kd)
    print(open(trace).read())
    print(json.dumps(v))
    return 1 if v["violations"] else 0


def selftest(ctx, trace, kd):
    """Binding self-test: corrupt one logged field / drop one event -> the monitor must flag exactly that; and the
    deviation signatures: without known deviations the explained events (and only they) become violations."""
    lines = lib.read_lines(trace)
    cfg = t_cfg(ctx, kd)
    cfg0 = t_cfg(ctx, [], "t_archclient0.cfg")

    def judge_lines(ls, name, c=cfg):
        p = ctx.path(name)
        open(p, "w").write("\n".join(ls) + "\n")
        return lib.tlc_trace(ctx, MODULE_T, c, p)

    def dump(ev):
        return json.dumps(ev, separators=(",", ":"))

    def find(pred):
        for i, l in enumerate(lines):
            if pred(l):
                return i
        raise lib.ToolError("binding self-test: no sample event found")
    jobs = {}
    # (a) one byte of a returned content changed (an extraction that conforms as recorded: decoded payload of key 1)
    ia = find(lambda l: '"op":"xk"' in l and '"kind":"Ok"' in l and '"wc":true' in l and '"outs":[]' in l)
    s, e = lib.run_of_line(lines, ia + 1)
    ev = json.loads(lines[ia]); ev["res"]["body"][0] ^= 1
    jobs["content_byte_changed_flagged"] = (lines[s:e], lines[s:ia] + [dump(ev)] + lines[ia + 1:e], ia - s + 1)
    # (b) the window of a GET moved by one byte (flagged at the operation that owns the GET: an extract_by_key that conforms as recorded)
    def owned_by_xk(i):
        return ('"op":"call"' in lines[i] and '"o":"ok"' in lines[i] and i + 1 < len(lines) and '"op":"xk"' in lines[i + 1]
                and '"kind":"Ok"' in lines[i + 1] and '"wc":true' in lines[i + 1] and '"outs":[]' in lines[i + 1])
    ib = next(i for i in range(len(lines)) if owned_by_xk(i))
    s, e = lib.run_of_line(lines, ib + 1)
    ev = json.loads(lines[ib]); ev["range"][1] += 1
    jobs["get_window_moved_flagged"] = (lines[s:e], lines[s:ib] + [dump(ev)] + lines[ib + 1:e], ib + 1 - s + 1)
    # (c) the resolver's count of cached indices off by one
    ic = find(lambda l: '"op":"pl"' in l and '"obs":{' in l)
    s, e = lib.run_of_line(lines, ic + 1)
    ev = json.loads(lines[ic]); ev["obs"]["n"] += 1
    jobs["cache_count_corrupted_flagged"] = (lines[s:e], lines[s:ic] + [dump(ev)] + lines[ic + 1:e], ic - s + 1)
    # (d) a configuration decision flipped
    idd = find(lambda l: '"op":"cfg_new"' in l and '"kind":"Ok"' in l)
    s, e = lib.run_of_line(lines, idd + 1)
    ev = json.loads(lines[idd]); ev["res"] = {"kind": "Err", "err": "Configuration", "code": 0, "detail": ""}
    jobs["config_decision_flipped_flagged"] = (lines[s:e], lines[s:idd] + [dump(ev)] + lines[idd + 1:e], idd - s + 1)
    # (e) a GET dropped from the record: the operation that issued it is no longer explained
    s, e = lib.run_of_line(lines, ib + 1)
    jobs["drop_one_event_flagged"] = (lines[s:e], lines[s:ib] + lines[ib + 1:e], None)

    def one(item):
        name, (base_ls, bad_ls, idx) = item
        base = judge_lines(base_ls, f"st_{name}_0.ndjson")
        bad = judge_lines(bad_ls, f"st_{name}_1.ndjson")
        if idx is None:
            return name, len(bad["violations"]) > len(base["violations"])
        return name, idx in bad["violations"] and idx not in base["violations"]

    def signatures():
        # the first run of each family, judged with and without the known deviations
        heads = []
        for fam in ("rd", "rs", "bt"):
            i = find(lambda l, fam=fam: lib.is_new(l) and f'"fam":"{fam}"' in l)
            n = 0
            j = i
            while j < len(lines) and n < 400 and f'"fam":"{fam}"' in lines[lib.run_of_line(lines, j + 1)[0]]:
                s, e = lib.run_of_line(lines, j + 1)
                heads += lines[s:e]
                n += e - s
                j = e
        with_kd = judge_lines(heads, "st_sig_1.ndjson")
        without = judge_lines(heads, "st_sig_0.ndjson", cfg0)
        # (the monitor lists the first 60 violations / the first 60 deviations per id and counts all of them)
        explained = set(x[0] for x in with_kd["deviations"])
        total = sum(with_kd.get("n_" + i, 0) for i in IDS)
        ok = (not with_kd["violations"] and without.get("nviol") == total and set(without["violations"]) <= explained
              and not without["deviations"] and (total > 0) == bool(set(kd) & set(IDS)))
        return "unlisted_deviations_become_violations", ok
    with ThreadPoolExecutor(max_workers=max(2, min(lib.NCPU, len(jobs) + 1))) as ex:
        fs = ex.submit(signatures)
        res = dict(ex.map(one, jobs.items()))
        k, v = fs.result()
        res[k] = v
    ctx.cov["binding_selftest"] = res
    if not all(res.values()):
        raise lib.ToolError(f"binding self-test failed: {res}")


def orphan_probe(ctx, kd):
    """FX10a is a fact about the source tree, not a behaviour: the file exists and no crate declares it as a module."""
    p = os.path.join(lib.REPO, ORPHAN)
    declared = False
    if os.path.exists(p):
        for lib_rs in glob.glob(os.path.join(lib.REPO, "crates", "*", "src", "**", "*.rs"), recursive=True):
            try:
                if re.search(r"^\s*(pub(\([a-z]+\))?\s+)?mod\s+archive_client\s*;", open(lib_rs).read(), re.M):
                    declared = True
                    break
            except OSError:
                pass
    orphan = os.path.exists(p) and not declared
    ctx.cov["orphan_file"] = {"path": ORPHAN, "exists": os.path.exists(p), "declared_as_module": declared}
    if orphan and "FX10a" in kd:
        lib.note_known(ctx, "FX10a")
        ctx.cov["deviations_observed"]["FX10a"] = 1


def run(ctx):
    kd = known_findings(ctx)
    lib.build([DRV])
    if ctx.replay:
        return replay(ctx, kd)
    orphan_probe(ctx, kd)
    insts = plan(ctx.quick)
    nrand = 1500 if ctx.quick else 30000
    rtrace = ctx.path("trace_random.ndjson")
    dump = ctx.path("prog_random.ndjson")
    with ThreadPoolExecutor(max_workers=max(2, min(lib.NCPU, 6))) as ex:
        fp = ex.submit(pinned, ctx)
        fr = ex.submit(lib.run_driver, DRV, ["--random", nrand, "--out", rtrace, "--dump-programs", dump], env={"VERIF_SEED": ctx.seed})
        outs = list(ex.map(lambda t: mc_one(ctx, *t), insts))
        fp.result()
        drand = fr.result()
    allp = ctx.path("prog_all.ndjson")
    total = 0
    with open(allp, "w") as f:
        for o in outs:
            ctx.cov["states"] += o["distinct"]
            ctx.cov["transitions"] += o["generated"]
            ctx.stage("mc", instance=o["tag"], distinct_states=o["distinct"], programs=o["programs"], wall_s=o["wall_s"])
            if o["programs"] == 0:
                raise lib.ToolError(f"MC_ArchClient {o['tag']} emitted no program")
            with open(o["progs"]) as g:
                shutil.copyfileobj(g, f)
            total += o["programs"]
            os.remove(o["progs"])
    _, distinct = lib.count_distinct(allp)
    trace = ctx.path("trace_all.ndjson")
    run_programs(ctx, allp, trace, f"MC_ArchClient {ctx.tier}", kd)
    ls = lib.read_lines(trace)
    for needle in ('"fam":"rd"', '"fam":"rs"', '"fam":"bt"'):
        i = next((j for j in range(len(ls) - 1, -1, -1) if lib.is_new(ls[j]) and needle in ls[j]), None)
        if i is not None:
            s, e = lib.run_of_line(ls, i + 1)
            ctx.cov["samples"].append({"source": "MC_ArchClient", "trace": [json.loads(x) for x in ls[s:e]]})
    # which operations / outcomes the executed programs really contained
    seen = set()
    for l in ls:
        m = re.search(r'"op":"([a-z_]+)"', l)
        if m:
            seen.add(m.group(1))
        for o in re.findall(r'"o":"([a-z0-9-]+)"', l):
            seen.add("o:" + o)
    want = {"xr", "xk", "xm", "xa", "sz", "sr", "bx", "rfa", "rc", "rm", "pl", "cc", "sd", "uh", "uc", "br", "cfg_new", "whost", "call", "fc", "fe", "fg", "fr",
            "o:ok", "o:short", "o:long", "o:flip", "o:e503", "o:e404", "o:tmo", "o:e416"}
    ctx.cov["actions_never_taken"] = sorted(want - seen)
    selftest(ctx, trace, kd)
    os.remove(trace)
    # ---- seeded random programs: random worlds (placements, sizes, shared keys, dangling / empty entries), longer resolver histories
    d = drand
    ctx.stage("run", source="random", programs=d.get("programs"), events=d.get("events"), wall_s=d["wall_s"])
    if d.get("programs") != nrand:
        raise lib.ToolError(f"driver executed {d.get('programs')} of {nrand} random programs")
    _, dr = lib.count_distinct(dump)
    judge_trace(ctx, rtrace, f"random seed={ctx.seed}", kd)
    total += nrand
    distinct += dr
    ctx.cov["traces_validated_against_impl"] = total
    ctx.cov["evaluations"] = total
    ctx.cov["distinct_nontrivial"] = distinct
    ctx.cov["exhaustive"] = True
    ctx.cov["exhaustive_scope"] = ("per instance, every program of the listed bounds over the world catalogue of MC_ArchClient (reader: every single operation "
                                   "of the alphabet x every outcome script of <= 1-3 GETs; resolver: every operation sequence of length D over the full / "
                                   "reduced / tiny alphabet x three configuration variants; batch: every listed operation; configuration: the whole "
                                   "host x product x path grid as one program); the random tier is not exhaustive")
    ctx.assumptions += ["TLC, the CommunityModules Json reader, tokio's paused clock and the driver's projection (public API only) are trusted",
                        "the HTTP layer is the scripted in-process HttpClient of the driver (the HttpClient trait is the code's own seam): every GET is answered from "
                        "the world of the program according to the outcome script; what the driver materialised is compared with the specification's ArcBytes at "
                        "every run boundary",
                        "blobs are one-chunk BLTE containers (mode N) or raw bytes; real keys are MD5 of the blob; what the BLTE decoder does with a container cut "
                        "inside its first ten bytes is left open",
                        "verify_checksums = true (the default) throughout; error variants are left open except inside the guards of the listed deviations"]
    return lib.finish(ctx, "model_checking",
                      rule="programs = complete operation sequences enumerated by TLC from MC_ArchClient (one instance per family, bound, alphabet and configuration "
                           "variant) plus seeded random programs; distinct = distinct program texts (md5); every program contains at least one call of the code under test")
