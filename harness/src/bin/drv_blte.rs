//! C01 driver: executes BLTE builder programs on the real `BlteBuilder`, serialises the result with
//! `CascFormat::build`, re-parses it with `BlteFile::parse` and decodes it with the matching key store.
//!
//! usage: drv_blte --programs <file|-> --out <file|-> [--random N --dump-programs <file>] [--direct]
//!
//! Program: {"inline": bool, "ops": [op...]} - the last op is normally {"op":"build","table":"std"|"ext"}.
//!   {"op":"with_compression","mode":"N|Z|4|E|F"}
//!   {"op":"with_chunk_size","n":N,"checked":bool}
//!   {"op":"with_encryption","cipher":"S|A|X","kn":"hex u64","iv":"hex 4 bytes"}      (kn/iv optional)
//!   {"op":"without_encryption"}
//!   {"op":"add_data","len":L,"fb":"N|Z|4|E|F|x|r","pat":"inc|rand|rep|text","seed":S}
//!   {"op":"add_mixed_data", ..data.., "cipher":"-|S|A|X", kn, iv}
//!   {"op":"add_encrypted_data", ..data.., "cipher":.., kn, iv, "idx":I}
//!   {"op":"add_chunk", ..data.., "mode":"N|Z|4", "kind":"new|parsed"}
//!   {"op":"compress", ..data.., "mode":.., "n":chunk size}     BlteFile::compress, a whole program by itself
//!
//! The driver only executes and records.  Everything that is *judged* (identity, truthfulness of the
//! chunk table, which calls may fail) is decided by spec/trace/T_Blte.tla from the recorded events.
//! Two things are computed here because TLC cannot reasonably do them and are recorded as observations:
//!   * MD5 digests, with the `md5` crate (cascette-rs itself uses RustCrypto's `md-5`), of byte ranges
//!     found by `raw_ranges`, a 20-line reader of the raw container that shares no code with the library;
//!     the ranges are logged too and the monitor re-derives them with its own TLA+ reader (ParseTable).
//!   * for containers too large to log byte by byte: length + MD5 of the content handed in and of the
//!     decoded output ("digest pair"); small containers are logged in full and compared by TLC.
use cascette_crypto::{TactKey, TactKeyStore};
use cascette_formats::CascFormat;
use cascette_formats::blte::{
    BlteBuilder, BlteFile, BlteHeader, ChunkData, CompressionMode, EncryptionSpec, decrypt_chunk_with_keys,
};
use serde_json::{Value, json};
use verif_harness::*;

const INLINE_LIMIT: usize = 700;
const BIG_CHUNKS: usize = 1024;

fn mode_of(s: &str) -> CompressionMode {
    #[allow(deprecated)]
    match s {
        "N" => CompressionMode::None,
        "Z" => CompressionMode::ZLib,
        "4" => CompressionMode::LZ4,
        "E" => CompressionMode::Encrypted,
        "F" => CompressionMode::Frame,
        other => panic!("driver: unknown mode {other}"),
    }
}

fn bytes_json(b: &[u8]) -> Value {
    Value::Array(b.iter().map(|x| json!(*x)).collect())
}
fn md5_json(b: &[u8]) -> Value {
    bytes_json(&md5::compute(b).0)
}

/// Payload of an add operation: a pure function of the operation record and its index in the program.
fn gen_data(op: &Value, opi: usize) -> Vec<u8> {
    let len = op["len"].as_u64().unwrap_or(0) as usize;
    let seed = op.get("seed").and_then(Value::as_u64).unwrap_or(opi as u64);
    let pat = op.get("pat").and_then(Value::as_str).unwrap_or("inc");
    let mut d: Vec<u8> = match pat {
        "inc" => (0..len).map(|j| (((seed + 1) * 16) as usize + j) as u8).collect(),
        "rand" => Rng::new(seed).bytes(len),
        "rep" => vec![(seed as u8) | 1; len],
        "text" => {
            let phrase = format!("chunk {seed} of the quick brown fox jumps over the lazy dog; ");
            phrase.as_bytes().iter().copied().cycle().take(len).collect()
        }
        other => panic!("driver: unknown pattern {other}"),
    };
    if let Some(fb) = op.get("fb").and_then(Value::as_str)
        && fb != "r"
        && !d.is_empty()
    {
        d[0] = fb.as_bytes()[0];
    }
    d
}

fn key_name(op: &Value) -> u64 {
    match op.get("kn").and_then(Value::as_str) {
        Some(h) => u64::from_str_radix(h, 16).expect("kn hex"),
        None => match op.get("cipher").and_then(Value::as_str) {
            Some("A") => 0xA4C4_0000_0000_0002,
            _ => 0x5A15_A200_0000_0001,
        },
    }
}
/// The key is a function of the key name, so that one key store matches every chunk of a program.
fn key_of(kn: u64) -> [u8; 16] {
    let mut r = Rng::new(kn ^ 0x0C01);
    let mut k = [0u8; 16];
    k.copy_from_slice(&r.bytes(16));
    k
}
fn spec_of(op: &Value) -> (EncryptionSpec, [u8; 16]) {
    let kn = key_name(op);
    let iv: [u8; 4] = match op.get("iv").and_then(Value::as_str) {
        Some(h) => {
            let v = hex::decode(h).expect("iv hex");
            [v[0], v[1], v[2], v[3]]
        }
        None => [0x11, 0x22, 0x33, 0x44],
    };
    let spec = match op["cipher"].as_str().unwrap() {
        "S" => EncryptionSpec::salsa20(kn, iv),
        "A" => EncryptionSpec::arc4(kn, iv),
        // an encryption type the format does not define (the fields of EncryptionSpec are public)
        "X" => EncryptionSpec { key_name: kn, iv, encryption_type: 0x58 },
        other => panic!("driver: unknown cipher {other}"),
    };
    (spec, key_of(kn))
}

/// Independent reader of the raw container: (offset, length) of every chunk according to the bytes alone.
fn raw_ranges(b: &[u8]) -> Option<Vec<(usize, usize)>> {
    if b.len() < 8 || &b[0..4] != b"BLTE" {
        return None;
    }
    let hs = u32::from_be_bytes([b[4], b[5], b[6], b[7]]) as usize;
    if hs == 0 {
        return Some(vec![(8, b.len() - 8)]);
    }
    if b.len() < 12 {
        return None;
    }
    let entry = match b[8] {
        0x0F => 24,
        0x10 => 40,
        _ => return None,
    };
    let n = u32::from_be_bytes([0, b[9], b[10], b[11]]) as usize;
    if 12 + n * entry > b.len() {
        return None;
    }
    let mut off = hs;
    let mut v = vec![];
    for i in 0..n {
        let p = 12 + i * entry;
        let cs = u32::from_be_bytes([b[p], b[p + 1], b[p + 2], b[p + 3]]) as usize;
        if off + cs > b.len() {
            return None;
        }
        v.push((off, cs));
        off += cs;
    }
    Some(v)
}

fn failed() -> Value {
    json!({"ok": false})
}
fn digest(b: &[u8], inline: bool) -> Value {
    let mut v = json!({"ok": true, "len": b.len(), "md5": md5_json(b)});
    if inline {
        v["b"] = bytes_json(b);
    }
    v
}

/// Where events go: the watchdog runner's channel, or (--direct) straight to the file, flushed per event, so
/// that the trace survives when the process is killed in the middle of a call (chunk size 0, see c01.py).
trait Sink {
    fn ev(&self, v: Value);
    fn begin(&self, op: &Value);
    fn zero_cs_allowed(&self) -> bool;
}
impl Sink for Emit {
    fn ev(&self, v: Value) {
        Emit::ev(self, v)
    }
    fn begin(&self, op: &Value) {
        Emit::begin(self, op)
    }
    fn zero_cs_allowed(&self) -> bool {
        false
    }
}
struct Direct(std::cell::RefCell<Out>);
impl Sink for Direct {
    fn ev(&self, v: Value) {
        let mut o = self.0.borrow_mut();
        o.ev(&v);
        o.flush();
    }
    fn begin(&self, _op: &Value) {}
    fn zero_cs_allowed(&self) -> bool {
        true
    }
}

fn run_program(prog: &Value, out: &dyn Sink) {
    let ops = prog["ops"].as_array().expect("ops");
    let inline = prog.get("inline").and_then(Value::as_bool).unwrap_or(false);
    out.ev(json!({"op": "new", "inline": inline}));
    // the matching key store: every key name the program mentions
    let mut ks = TactKeyStore::empty();
    for op in ops {
        if op.get("cipher").and_then(Value::as_str).is_some_and(|c| c != "-") {
            let kn = key_name(op);
            ks.add(TactKey::new(kn, key_of(kn)));
        }
    }
    let zero_ok = out.zero_cs_allowed();
    let mut builder = Some(BlteBuilder::new());
    let mut content: Vec<u8> = vec![];
    let mut seq = 0u64;
    for (opi, op) in ops.iter().enumerate() {
        let name = op["op"].as_str().unwrap();
        let mut ev = op.clone();
        seq += 1;
        ev["seq"] = json!(seq);
        out.begin(op);
        if name == "build" {
            let b = builder.take().expect("builder");
            let ext = op.get("table").and_then(Value::as_str) == Some("ext");
            let make = move || -> Result<BlteFile, String> {
                let mut f = b.build().map_err(|e| e.to_string())?;
                if ext {
                    // the public way to get the 40-byte (0x10) table format
                    f.header = BlteHeader::multi_chunk_extended(&f.chunks).map_err(|e| e.to_string())?;
                }
                Ok(f)
            };
            build_and_observe(make, &content, &ks, inline, &mut ev);
            out.ev(ev);
            return;
        }
        if name == "compress" {
            // BlteFile::compress(data, chunk_size, mode): the one-call encoder
            let data = gen_data(op, opi);
            ev["dlen"] = json!(data.len());
            if inline {
                ev["data"] = bytes_json(&data);
            }
            let n = op["n"].as_u64().unwrap() as usize;
            assert!(n > 0 || zero_ok, "driver: chunk size 0 makes compress loop forever; only executed with --direct");
            let mode = mode_of(op["mode"].as_str().unwrap());
            let d2 = data.clone();
            build_and_observe(move || BlteFile::compress(&d2, n, mode).map_err(|e| e.to_string()), &data, &ks, inline, &mut ev);
            out.ev(ev);
            return;
        }
        let is_add = name.starts_with("add_");
        let data = if is_add { gen_data(op, opi) } else { vec![] };
        if is_add {
            ev["dlen"] = json!(data.len());
            if inline {
                ev["data"] = bytes_json(&data);
            }
        }
        let b = builder.take().expect("builder");
        let r = guarded(|| -> Result<BlteBuilder, String> {
            match name {
                "with_compression" => Ok(b.with_compression(mode_of(op["mode"].as_str().unwrap()))),
                "with_chunk_size" => {
                    let n = op["n"].as_u64().unwrap() as usize;
                    assert!(n > 0 || zero_ok, "driver: chunk size 0 makes add_data loop forever; only executed with --direct");
                    if op["checked"].as_bool().unwrap_or(false) {
                        b.with_chunk_size(n).map_err(|e| e.to_string())
                    } else {
                        Ok(b.with_chunk_size_unchecked(n))
                    }
                }
                "with_encryption" => {
                    let (spec, key) = spec_of(op);
                    Ok(b.with_encryption(spec, key))
                }
                "without_encryption" => Ok(b.without_encryption()),
                "add_data" => b.add_data(&data).map_err(|e| e.to_string()),
                "add_mixed_data" => {
                    let enc = if op["cipher"].as_str().unwrap() == "-" { None } else { Some(spec_of(op)) };
                    b.add_mixed_data(&data, enc).map_err(|e| e.to_string())
                }
                "add_encrypted_data" => {
                    let (spec, key) = spec_of(op);
                    let idx = op["idx"].as_u64().unwrap() as usize;
                    b.add_encrypted_data(&data, spec, key, idx).map_err(|e| e.to_string())
                }
                "add_chunk" => {
                    let mode = mode_of(op["mode"].as_str().unwrap());
                    let chunk = ChunkData::new(data.clone(), mode).map_err(|e| e.to_string())?;
                    let chunk = match op["kind"].as_str().unwrap_or("new") {
                        "new" => chunk,
                        // a chunk taken from a parsed BLTE file (what a tool that re-packs files would add)
                        "parsed" => {
                            let f = BlteFile { header: BlteHeader::single_chunk(), chunks: vec![chunk] };
                            let bytes = f.build().map_err(|e| e.to_string())?;
                            let mut p = BlteFile::parse(&bytes).map_err(|e| e.to_string())?;
                            p.chunks.remove(0)
                        }
                        other => panic!("driver: unknown chunk kind {other}"),
                    };
                    Ok(b.add_chunk(chunk))
                }
                other => panic!("driver: unknown op {other}"),
            }
        });
        match r {
            Ok(Ok(nb)) => {
                ev["res"] = json!("ok");
                builder = Some(nb);
                content.extend_from_slice(&data);
                out.ev(ev);
            }
            Ok(Err(msg)) => {
                // the builder was consumed by the failed call: the program ends here
                ev["res"] = json!("err");
                ev["err"] = json!(msg.chars().take(160).collect::<String>());
                out.ev(ev);
                return;
            }
            Err(m) => {
                ev["res"] = json!("panic");
                ev["msg"] = json!(m.chars().take(200).collect::<String>());
                out.ev(ev);
                return;
            }
        }
    }
}

fn build_and_observe(
    make: impl FnOnce() -> Result<BlteFile, String>,
    content: &[u8],
    ks: &TactKeyStore,
    inline: bool,
    ev: &mut Value,
) {
    ev["content"] = digest(content, inline);
    let built = guarded(make);
    let file = match built {
        Ok(Ok(f)) => f,
        Ok(Err(m)) => {
            ev["res"] = json!("err");
            ev["err"] = json!(m.chars().take(160).collect::<String>());
            return;
        }
        Err(m) => {
            ev["res"] = json!("panic");
            ev["msg"] = json!(m.chars().take(200).collect::<String>());
            return;
        }
    };
    ev["res"] = json!("ok");
    let bytes = match guarded(|| CascFormat::build(&file).map_err(|e| e.to_string())) {
        Ok(Ok(v)) => v,
        Ok(Err(m)) => {
            ev["ser"] = json!("err");
            ev["err"] = json!(m.chars().take(160).collect::<String>());
            return;
        }
        Err(m) => {
            ev["ser"] = json!("panic");
            ev["msg"] = json!(m.chars().take(200).collect::<String>());
            return;
        }
    };
    ev["ser"] = json!("ok");
    ev["total"] = json!(bytes.len());
    let inline = inline && bytes.len() <= INLINE_LIMIT;
    // raw view of the container
    let ranges = raw_ranges(&bytes);
    let hs = if bytes.len() >= 8 { u32::from_be_bytes([bytes[4], bytes[5], bytes[6], bytes[7]]) as usize } else { 0 };
    let head_len = hs.max(8).min(bytes.len()).min(64 * 1024);
    ev["ranges_ok"] = json!(ranges.is_some());
    let rs = ranges.unwrap_or_default();
    // Containers with more than BIG_CHUNKS chunks (chunk-count boundaries 2^8, 2^16 of the 24-bit count) are recorded
    // in summary form: the first 12 bytes (magic, header size, table format, count - read by the monitor itself),
    // counts and sums, and for every per-chunk column of the table one digest of the column as written next to one
    // digest of the column as measured; the monitor compares the pairs.
    let big = hs > 12 + 40 * BIG_CHUNKS || rs.len() > BIG_CHUNKS;
    let mut tbl_ds: Vec<u8> = vec![];
    if big {
        ev["big"] = json!(true);
        ev["head"] = bytes_json(&bytes[..12.min(bytes.len())]);
        ev["nranges"] = json!(rs.len());
        ev["sum_cs"] = json!(rs.iter().map(|(_, l)| *l).sum::<usize>());
        ev["min_cs"] = json!(rs.iter().map(|(_, l)| *l).min().unwrap_or(0));
        let entry = if bytes.len() > 8 && bytes[8] == 0x10 { 40 } else { 24 };
        let mut tbl_md5: Vec<u8> = Vec::with_capacity(rs.len() * 16);
        let mut calc_md5: Vec<u8> = Vec::with_capacity(rs.len() * 16);
        for (i, (o, l)) in rs.iter().enumerate() {
            let p = 12 + i * entry;
            tbl_ds.extend_from_slice(&bytes[p + 4..p + 8]);
            tbl_md5.extend_from_slice(&bytes[p + 8..p + 24]);
            calc_md5.extend_from_slice(&md5::compute(&bytes[*o..*o + *l]).0);
        }
        ev["tbl_md5_dig"] = md5_json(&tbl_md5);
        ev["calc_md5_dig"] = md5_json(&calc_md5);
    } else {
        if inline {
            ev["bytes"] = bytes_json(&bytes);
        } else {
            ev["head"] = bytes_json(&bytes[..head_len]);
        }
        ev["ranges"] = Value::Array(rs.iter().map(|(o, l)| json!([o, l])).collect());
        ev["md5s"] = Value::Array(rs.iter().map(|(o, l)| md5_json(&bytes[*o..*o + *l])).collect());
        ev["firsts"] = Value::Array(rs.iter().map(|(o, l)| if *l > 0 { json!(bytes[*o]) } else { json!(256) }).collect());
    }
    // the library's reader and decoder
    let parsed = match guarded(|| BlteFile::parse(&bytes).map_err(|e| e.to_string())) {
        Ok(Ok(p)) => p,
        Ok(Err(m)) => {
            ev["parse"] = json!("err");
            ev["err"] = json!(m.chars().take(160).collect::<String>());
            return;
        }
        Err(m) => {
            ev["parse"] = json!("panic");
            ev["msg"] = json!(m.chars().take(200).collect::<String>());
            return;
        }
    };
    ev["parse"] = json!("ok");
    ev["nparsed"] = json!(parsed.chunks.len());
    let mut parts = vec![];
    let mut any_enc = false;
    let mut parts_ok = 0usize;
    let mut part_lens: Vec<u8> = vec![];
    for (i, c) in parsed.chunks.iter().enumerate() {
        let enc = c.mode == CompressionMode::Encrypted;
        any_enc |= enc;
        let r = guarded(|| {
            if enc { decrypt_chunk_with_keys(&c.data, ks, i) } else { c.decompress(i) }.map_err(|e| e.to_string())
        });
        if big {
            if let Ok(Ok(d)) = &r {
                parts_ok += 1;
                part_lens.extend_from_slice(&(d.len() as u32).to_be_bytes());
            }
            continue;
        }
        parts.push(match r {
            Ok(Ok(d)) => digest(&d, inline),
            Ok(Err(_)) => failed(),
            Err(m) => {
                ev["msg"] = json!(m.chars().take(200).collect::<String>());
                failed()
            }
        });
    }
    if big {
        ev["parts_ok"] = json!(parts_ok);
        ev["tbl_ds_dig"] = md5_json(&tbl_ds);
        ev["parts_len_dig"] = md5_json(&part_lens);
    } else {
        ev["parts"] = Value::Array(parts);
    }
    ev["dec"] = match guarded(|| parsed.decompress_with_keys(ks).map_err(|e| e.to_string())) {
        Ok(Ok(d)) => digest(&d, inline),
        Ok(Err(m)) => {
            ev["decerr"] = json!(m.chars().take(160).collect::<String>());
            failed()
        }
        Err(m) => {
            ev["decerr"] = json!(format!("panic: {}", m.chars().take(200).collect::<String>()));
            failed()
        }
    };
    // the key-less entry point must agree whenever nothing is encrypted
    if !any_enc {
        ev["dec2"] = match guarded(|| parsed.decompress().map_err(|e| e.to_string())) {
            Ok(Ok(d)) => digest(&d, false),
            Ok(Err(_)) | Err(_) => failed(),
        };
    }
}

// ------------------------------------------------------------------------------------------- random programs
fn rand_data_op(rng: &mut Rng, name: &str, cs: u64) -> Value {
    rand_data_op_n(rng, name, cs, 40)
}
/// `maxchunks`: keep the number of chunks (table size in the trace) moderate
fn rand_data_op_n(rng: &mut Rng, name: &str, cs: u64, maxchunks: u64) -> Value {
    // lengths around the chunk size, small ones, and up to 300 KiB
    let len = match rng.below(10) {
        0 => 0,
        1 => 1,
        2 => cs - 1,
        3 => cs,
        4 => cs + 1,
        5 => 2 * cs + 1,
        6 => rng.below(64),
        7 => rng.below(4 * cs + 1),
        8 => rng.below(40_000),
        _ => rng.below(300 * 1024 + 1),
    };
    // keep the number of chunks (table size in the trace) moderate
    let len = if maxchunks > 40 && rng.chance(1, 2) { cs * (200 + rng.below(maxchunks - 200)) + rng.below(2) } else { len };
    let len = len.min(cs * maxchunks).min(512 * 1024);
    let pat = *rng.pick(&["rand", "rand", "text", "rep", "inc"]);
    let fb = *rng.pick(&["r", "r", "r", "N", "Z", "4", "E", "F"]);
    json!({"op": name, "len": len, "pat": pat, "fb": fb, "seed": rng.below(1 << 30)})
}
fn rand_cipher(rng: &mut Rng, op: &mut Value, allow_none: bool) {
    let c = match rng.below(if allow_none { 12 } else { 10 }) {
        0..=5 => "S",
        6..=8 => "A",
        9 => "X",
        _ => "-",
    };
    op["cipher"] = json!(c);
    if c != "-" {
        // a handful of key names per program so that chunks share and differ in keys
        op["kn"] = json!(format!("{:016x}", 0xC0DE_0000_0000_0000u64 | rng.below(4) << 32 | rng.below(3)));
        op["iv"] = json!(hex::encode(rng.bytes(4)));
    }
}
fn random_program(rng: &mut Rng) -> Value {
    if rng.chance(1, 12) {
        let cs = *rng.pick(&[1000u64, 1024, 4096, 65536, 262_144]);
        let mut o = rand_data_op(rng, "compress", cs);
        o["mode"] = json!(*rng.pick(&["N", "Z", "4", "Z", "4", "E", "F"]));
        o["n"] = json!(cs);
        return json!({"inline": false, "ops": [o]});
    }
    let mut ops = vec![];
    let mut cs: u64 = 256 * 1024;
    let mut nchunks_guess: u64 = 0;
    let mut many_used = false;
    let n = 1 + rng.below(8);
    for _ in 0..n {
        let op = match rng.below(100) {
            0..=9 => json!({"op": "with_compression", "mode": *rng.pick(&["N", "Z", "4", "Z", "4", "N", "E", "F"])}),
            10..=19 => {
                if rng.chance(1, 8) {
                    json!({"op": "with_chunk_size", "n": *rng.pick(&[1u64, 512, 1023, 16 * 1024 * 1024 + 1]), "checked": true})
                } else {
                    cs = *rng.pick(&[1024u64, 1024, 1500, 4096, 65536, 100_000]);
                    json!({"op": "with_chunk_size", "n": cs, "checked": rng.chance(3, 4)})
                }
            }
            20..=29 => {
                let mut o = json!({"op": "with_encryption"});
                rand_cipher(rng, &mut o, false);
                o
            }
            30..=34 => json!({"op": "without_encryption"}),
            35..=59 => {
                // once per program (1 in 6) a payload of 200..500 chunks: the whole container stays below the
                // 1024 chunks from which the driver records summaries only
                if !many_used && cs <= 1500 && rng.chance(1, 6) {
                    many_used = true;
                    rand_data_op_n(rng, "add_data", cs, 500)
                } else {
                    rand_data_op(rng, "add_data", cs)
                }
            }
            60..=74 => {
                let mut o = rand_data_op(rng, "add_mixed_data", cs);
                rand_cipher(rng, &mut o, true);
                o
            }
            75..=89 => {
                let mut o = rand_data_op(rng, "add_encrypted_data", cs);
                rand_cipher(rng, &mut o, false);
                // mostly the position the chunk will really have (if every earlier call chunked as documented)
                o["idx"] = json!(match rng.below(10) {
                    0 => 0,
                    1 => nchunks_guess + 1,
                    2 => rng.below(1 << 31),
                    _ => nchunks_guess,
                });
                o
            }
            _ => {
                let mut o = rand_data_op(rng, "add_chunk", cs);
                o["mode"] = json!(*rng.pick(&["N", "Z", "4"]));
                o["kind"] = json!(*rng.pick(&["new", "new", "parsed"]));
                o
            }
        };
        let name = op["op"].as_str().unwrap().to_string();
        if name.starts_with("add_") {
            let len = op["len"].as_u64().unwrap();
            nchunks_guess += if name == "add_data" || name == "add_mixed_data" { len.div_ceil(cs).max(1) } else { 1 };
        }
        ops.push(op);
    }
    ops.push(json!({"op": "build", "table": if rng.chance(1, 6) { "ext" } else { "std" }}));
    json!({"inline": false, "ops": ops})
}

fn main() {
    quiet_panics();
    let args: Vec<String> = std::env::args().collect();
    let mut out = Out::from_arg(arg(&args, "--out").as_ref());
    let mut programs = vec![];
    if let Some(p) = arg(&args, "--programs") {
        programs = read_programs(&p);
    }
    let nrand = arg_u64(&args, "--random", 0);
    if nrand > 0 {
        let mut rng = Rng::new(seed_from_env());
        let mut dump = arg(&args, "--dump-programs").map(|p| Out::to_path(std::path::Path::new(&p)));
        for _ in 0..nrand {
            let prog = random_program(&mut rng);
            if let Some(d) = dump.as_mut() {
                d.ev(&prog);
            }
            programs.push(prog);
        }
    }
    if has_flag(&args, "--direct") {
        // no watchdog thread: the caller limits memory and time of the whole process
        let n = programs.len();
        let sink = Direct(std::cell::RefCell::new(out));
        for p in &programs {
            run_program(p, &sink);
        }
        let events = sink.0.borrow().events;
        eprintln!("{}", json!({"programs": n, "events": events, "hangs": 0, "skipped": 0}));
        return;
    }
    let st = run_with_watchdog(programs, &mut out, std::time::Duration::from_secs(20), |p, e| run_program(p, e));
    out.flush();
    eprintln!("{}", json!({"programs": st.programs, "events": out.events, "hangs": st.hangs, "skipped": st.skipped}));
    if st.skipped > 0 {
        std::process::exit(3);
    }
}
