//! X08 driver: executes programs on the installation facade of cascette-client-storage and records what came back.
//!
//! usage: drv_installation --programs <file|-> --out <file|-> [--timeout SECS]
//!        drv_installation --random N [--len L] --out <file> [--dump-programs <file> [--dump-only]]
//!
//! Families (field "fam" of a program):
//!   inst   `Installation`: open/initialize, write_file, load_root_file / load_encoding_file (manifests built with the
//!          real RootBuilder / EncodingBuilder from the program's description), read_file / read_file_by_content_key /
//!          _by_encoding_key / _by_path / _by_fdid, read_files_by_*, has_*, get_file_info, stats, verify, reopen, and the
//!          environment damaging the data file (flip a byte of an object, cut the file, delete it).
//!   stor   `Storage`: open_installation / list_installations over a universe of names (plain, trailing separator,
//!          dot components, absolute, reserved), writes and reads through the handles.
//!   binfo  `BuildInfoFile`: parse_str / from_path of a .build.info text produced from a logical table (by hand or by the
//!          crate's own BpsvBuilder + format), every accessor, active_entry, re-serialisation.
//!   val    `validation`: BinaryFormatValidator default methods, FormatValidator, BatchValidator on mock formats whose
//!          behaviour (write fails, invalid serialisation, read fails, lossy, accepts truncated input) is set per program.
//!   kmt    `kmt::key_state::ResidencyDb` at the level of its file (buckets, pages, entries, guards) and the .idx file
//!          IndexManager writes (guarded blocks, header, sorted entries), with byte flips applied to the saved files.
//!
//! The driver records; it never judges.  The verdict is computed by spec/trace/T_Installation.tla.
use cascette_client_storage::index::IndexManager;
use cascette_client_storage::kmt::key_state::{ResidencyDb, ResidencyEntry};
use cascette_client_storage::validation::{BatchValidator, BinaryFormatValidator, FormatValidator};
use cascette_client_storage::{BuildInfoFile, Installation, Storage, StorageConfig, StorageError};
use cascette_crypto::{ContentKey, EncodingKey, FileDataId};
use cascette_formats::CascFormat;
use cascette_formats::blte::{BlteFile, CompressionMode};
use cascette_formats::bpsv::{BpsvBuilder, BpsvField, BpsvType, BpsvValue};
use cascette_formats::encoding::{CKeyEntryData, EKeyEntryData, EncodingBuilder};
use cascette_formats::root::{ContentFlags, LocaleFlags, RootBuilder, RootVersion};
use serde_json::{Map, Value, json};
use std::collections::{BTreeMap, HashMap};
use std::path::{Path, PathBuf};
use std::sync::Arc;
use verif_harness::*;

// ---------------------------------------------------------------------------------- helpers
fn scratch() -> PathBuf {
    let p = Path::new("/dev/shm");
    if p.is_dir() { p.to_path_buf() } else { std::env::temp_dir() }
}
fn tmpdir() -> tempfile::TempDir {
    tempfile::Builder::new().prefix("x08-").tempdir_in(scratch()).expect("driver: tempdir")
}
fn kind(e: &StorageError) -> String {
    let d = format!("{e:?}");
    let k: String = d.chars().take_while(|c| c.is_ascii_alphanumeric()).collect();
    format!("err:{k}")
}
fn s<'a>(v: &'a Value, k: &str) -> &'a str {
    v[k].as_str().unwrap_or_else(|| panic!("driver: field {k} missing in {v}"))
}
fn u(v: &Value, k: &str) -> u64 {
    v[k].as_u64().unwrap_or_else(|| panic!("driver: numeric field {k} missing in {v}"))
}
fn ints(b: &[u8]) -> Value {
    Value::Array(b.iter().map(|x| json!(*x)).collect())
}
fn clamp(n: u64) -> u64 {
    n.min(2_000_000_000)
}
fn name_seed(name: &str) -> u64 {
    let mut h: u64 = 0xcbf2_9ce4_8422_2325;
    for b in name.as_bytes() {
        h ^= u64::from(*b);
        h = h.wrapping_mul(0x0000_0100_0000_01B3);
    }
    h
}
fn blte_wrap(inner: &[u8]) -> Vec<u8> {
    BlteFile::single_chunk(inner.to_vec(), CompressionMode::None).expect("driver: BLTE single chunk").build().expect("driver: BLTE build")
}
/// Concrete bytes of a payload: a fixed function of (name, class, nominal length).
fn content(name: &str, cls: &str, len: usize) -> Vec<u8> {
    let mut rng = Rng::new(name_seed(name));
    let mut v: Vec<u8> = match cls {
        "plain" => rng.bytes(len),
        "comp" => format!("{name}|lorem ipsum dolor sit amet|").as_bytes().iter().copied().cycle().take(len).collect(),
        "nested" => blte_wrap(&rng.bytes(len.saturating_sub(9))),
        other => panic!("driver: unknown payload class {other}"),
    };
    v.truncate(len);
    v
}

struct Payload {
    name: String,
    data: Vec<u8>,
    md5: String,
    ck: [u8; 16],
    /// encoding key the store files the object under: MD5 of its uncompressed single-chunk BLTE wrapping
    ek: [u8; 16],
}
fn payload_table(prog: &Value) -> Vec<Payload> {
    let mut t = vec![];
    for p in prog["payloads"].as_array().expect("payloads") {
        let name = p[0].as_str().unwrap().to_string();
        let data = content(&name, p[1].as_str().unwrap(), p[2].as_u64().unwrap() as usize);
        let ek = *EncodingKey::from_data(&blte_wrap(&data)).as_bytes();
        let ck = *ContentKey::from_data(&data).as_bytes();
        t.push(Payload { md5: md5hex(&data), name, data, ck, ek });
    }
    for i in 0..t.len() {
        for j in 0..i {
            assert!(t[i].md5 != t[j].md5, "driver: payloads {} and {} have the same content", t[i].name, t[j].name);
            assert!(t[i].ek[..9] != t[j].ek[..9] && t[i].ck[..9] != t[j].ek[..9] && t[i].ek[..9] != t[j].ck[..9], "driver: key prefixes collide");
        }
    }
    t
}

// ---------------------------------------------------------------------------------- family inst
struct Inst {
    root: PathBuf,
    inst: Option<Arc<Installation>>,
    dead: String,
    rt: tokio::runtime::Runtime,
    table: Vec<Payload>,
    roots: HashMap<String, Result<Vec<u8>, String>>,
    encs: HashMap<String, Result<Vec<u8>, String>>,
    compress: bool,
    /// the environment has cut or deleted the data file: index entries may point at places that belong to other records now
    disturbed: bool,
    /// objects whose record a cut / deletion took bytes from and that have not been written again since: the environment's
    /// later faults are not aimed at them (the place may belong to another record by now)
    lost: std::collections::HashSet<String>,
    /// the current handle was opened without initialize()
    raw_handle: bool,
}

fn concrete_path(t: &[Payload], sym: &str) -> String {
    let pay = |n: &str| t.iter().find(|p| p.name == n).unwrap_or_else(|| panic!("driver: unknown payload {n} in path {sym}"));
    if let Some(n) = sym.strip_prefix("@ek:") {
        format!("ekey:{}", hex(&pay(n).ek))
    } else if let Some(n) = sym.strip_prefix("@ck:") {
        hex(&pay(n).ck)
    } else if let Some(n) = sym.strip_prefix("@fdid:") {
        format!("fdid:{n}")
    } else if let Some(n) = sym.strip_prefix("~") {
        // the same file, spelled the way the manifest normalises it (upper case, backslashes)
        format!("WORLD\\MAPS\\{}.ADT", n.to_uppercase())
    } else {
        format!("World/Maps/{sym}.adt")
    }
}

impl Inst {
    fn pay(&self, n: &str) -> &Payload {
        self.table.iter().find(|p| p.name == n).unwrap_or_else(|| panic!("driver: unknown payload {n}"))
    }
    fn data_dir(&self) -> PathBuf {
        self.root.join(cascette_client_storage::DATA_DIR)
    }
    fn data_files(&self) -> Vec<(String, u64)> {
        let mut v = vec![];
        if let Ok(rd) = std::fs::read_dir(self.data_dir()) {
            for e in rd.flatten() {
                let f = e.file_name().to_string_lossy().to_string();
                if f.starts_with("data.") && f.len() == 8 {
                    v.push((f, e.metadata().map(|m| m.len()).unwrap_or(0)));
                }
            }
        }
        v.sort();
        v
    }
    fn idx_files(&self) -> usize {
        std::fs::read_dir(self.data_dir()).map(|rd| rd.flatten().filter(|e| e.file_name().to_string_lossy().ends_with(".idx")).count()).unwrap_or(0)
    }
    fn open(&mut self) -> String {
        self.inst = None;
        self.raw_handle = false;
        let root = self.root.clone();
        let r = (|| -> Result<Installation, StorageError> {
            let i = Installation::open(root)?;
            self.rt.block_on(i.initialize())?;
            Ok(i)
        })();
        match r {
            Ok(i) => {
                self.inst = Some(Arc::new(i));
                "ok".into()
            }
            Err(e) => {
                self.dead = kind(&e);
                self.dead.clone()
            }
        }
    }
    /// where the index says the object is: (archive, offset, size) by 9-byte key prefix
    fn locate(&self, p: &Payload) -> Option<(u16, u32, u32)> {
        let i = self.inst.as_ref()?;
        self.rt.block_on(i.get_all_index_entries()).iter().find(|e| e.key == p.ek[..9]).map(|e| (e.archive_id(), e.archive_offset(), e.size))
    }
    fn got(&self, r: Result<Vec<u8>, StorageError>, ev: &mut Value) {
        match r {
            Ok(d) => {
                ev["res"] = json!("ok");
                ev["md5"] = json!(md5hex(&d));
                ev["len"] = json!(d.len());
            }
            Err(e) => ev["res"] = json!(kind(&e)),
        }
    }
    fn gots(&self, r: Result<Vec<Vec<u8>>, StorageError>, ev: &mut Value) {
        match r {
            Ok(ds) => {
                ev["res"] = json!("ok");
                ev["md5s"] = Value::Array(ds.iter().map(|d| json!(md5hex(d))).collect());
            }
            Err(e) => ev["res"] = json!(kind(&e)),
        }
    }
    fn observe(&self) -> Value {
        let Some(i) = self.inst.as_ref() else { return json!({"dead": self.dead}) };
        let tf = |b: bool| if b { "t" } else { "f" };
        let mut he = Map::new();
        let mut hc = Map::new();
        for p in &self.table {
            he.insert(p.name.clone(), json!(tf(self.rt.block_on(i.has_encoding_key(&EncodingKey::from_bytes(p.ek))))));
            hc.insert(p.name.clone(), json!(tf(self.rt.block_on(i.has_content_key(&ContentKey::from_bytes(p.ck))))));
        }
        // index listing by payload name (9-byte prefix), anything else is counted
        let ents = self.rt.block_on(i.get_all_index_entries());
        let mut listed: Vec<String> = vec![];
        let mut unknown = 0;
        for e in &ents {
            match self.table.iter().find(|p| p.ek[..9] == e.key) {
                Some(p) => listed.push(p.name.clone()),
                None => unknown += 1,
            }
        }
        listed.sort();
        json!({"he": he, "hc": hc, "listed": listed, "unknown": unknown})
    }
    fn step(&mut self, op: &Value, ev: &mut Value) {
        let name = s(op, "op").to_string();
        if name == "reopen" {
            ev["res"] = json!(self.open());
            return;
        }
        if name == "reopen_raw" {
            // drop + Installation::open without initialize()
            self.inst = None;
            self.raw_handle = true;
            ev["res"] = json!(match Installation::open(self.root.clone()) {
                Ok(i) => {
                    self.inst = Some(Arc::new(i));
                    "ok".to_string()
                }
                Err(e) => {
                    self.dead = kind(&e);
                    self.dead.clone()
                }
            });
            return;
        }
        if name == "cut" || name == "rmdata" {
            // the environment shortens / deletes the data file while the installation is closed
            // (where the objects lie is read through a freshly initialised handle, whatever the current one knows)
            self.open();
            self.disturbed = true;
            let hit: Vec<String> = if name == "cut" {
                let files = self.data_files();
                let newlen = files.first().map(|f| f.1.saturating_sub(u(op, "n"))).unwrap_or(0);
                let h = self.table.iter().filter(|p| self.locate(p).is_some_and(|(_, off, sz)| u64::from(off) + u64::from(sz) > newlen)).map(|p| p.name.clone()).collect();
                self.inst = None;
                if let Some((f, _)) = files.first() {
                    let fh = std::fs::OpenOptions::new().write(true).open(self.data_dir().join(f)).expect("driver: open data file");
                    fh.set_len(newlen).expect("driver: truncate");
                }
                h
            } else {
                let h = self.table.iter().filter(|p| self.locate(p).is_some()).map(|p| p.name.clone()).collect();
                self.inst = None;
                for (f, _) in self.data_files() {
                    std::fs::remove_file(self.data_dir().join(f)).expect("driver: remove data file");
                }
                h
            };
            self.lost.extend(hit.iter().cloned());
            ev["hit"] = json!(hit);
            ev["res"] = json!(self.open());
            return;
        }
        let Some(inst) = self.inst.clone() else {
            ev["res"] = json!(self.dead.clone());
            return;
        };
        let rt = &self.rt;
        match name.as_str() {
            "write" => {
                let p = self.pay(s(op, "p"));
                match rt.block_on(inst.write_file(p.data.clone(), self.compress)) {
                    Ok(ck) => {
                        ev["res"] = json!("ok");
                        ev["ck"] = json!(hex(ck.as_bytes()));
                        let n = p.name.clone();
                        if self.raw_handle {
                            // a write through a handle that has not loaded the directory may have replaced the file: later faults are
                            // not aimed at the objects stored before
                            let others: Vec<String> = self.table.iter().map(|q| q.name.clone()).collect();
                            self.lost.extend(others);
                            self.disturbed = true;
                        }
                        self.lost.remove(&n);
                    }
                    Err(e) => ev["res"] = json!(kind(&e)),
                }
            }
            "load_root" => {
                let r = self.roots.get(s(op, "r")).unwrap_or_else(|| panic!("driver: unknown root preset"));
                ev["res"] = match r {
                    Ok(b) => json!(match inst.load_root_file(b) {
                        Ok(()) => "ok".to_string(),
                        Err(e) => kind(&e),
                    }),
                    Err(m) => json!(format!("builder:{m}")),
                };
            }
            "load_enc" => {
                let r = self.encs.get(s(op, "e")).unwrap_or_else(|| panic!("driver: unknown encoding preset"));
                ev["res"] = match r {
                    Ok(b) => json!(match inst.load_encoding_file(b) {
                        Ok(()) => "ok".to_string(),
                        Err(e) => kind(&e),
                    }),
                    Err(m) => json!(format!("builder:{m}")),
                };
            }
            "read_e" => {
                let p = self.pay(s(op, "p"));
                let r = rt.block_on(inst.read_file_by_encoding_key(&EncodingKey::from_bytes(p.ek)));
                self.got(r, ev);
            }
            "read_c" => {
                let p = self.pay(s(op, "p"));
                let r = if op["via"] == json!("bytes") {
                    rt.block_on(inst.read_file(&p.ck))
                } else {
                    rt.block_on(inst.read_file_by_content_key(&ContentKey::from_bytes(p.ck)))
                };
                self.got(r, ev);
            }
            "read_p" => {
                let path = concrete_path(&self.table, s(op, "s"));
                let r = rt.block_on(inst.read_file_by_path(&path));
                self.got(r, ev);
            }
            "read_f" => {
                let r = rt.block_on(inst.read_file_by_fdid(u(op, "n") as u32));
                self.got(r, ev);
            }
            "reads_p" => {
                let ps: Vec<String> = op["ss"].as_array().unwrap().iter().map(|x| concrete_path(&self.table, x.as_str().unwrap())).collect();
                let r = rt.block_on(inst.clone().read_files_by_paths(&ps));
                self.gots(r, ev);
            }
            "reads_f" => {
                let ns: Vec<u32> = op["ns"].as_array().unwrap().iter().map(|x| x.as_u64().unwrap() as u32).collect();
                let r = rt.block_on(inst.clone().read_files_by_fdids(&ns));
                self.gots(r, ev);
            }
            "reads_c" => {
                let ks: Vec<ContentKey> = op["ps"].as_array().unwrap().iter().map(|x| ContentKey::from_bytes(self.pay(x.as_str().unwrap()).ck)).collect();
                let r = rt.block_on(inst.clone().read_files_by_content_keys(&ks));
                self.gots(r, ev);
            }
            "info" => {
                let path = concrete_path(&self.table, s(op, "s"));
                ev["res"] = match inst.get_file_info(&path) {
                    Ok(None) => json!("none"),
                    Ok(Some(i)) => {
                        ev["ck"] = json!(hex(i.content_key.as_bytes()));
                        ev["ek"] = json!(hex(i.encoding_key.as_bytes()));
                        ev["size"] = json!(clamp(i.size));
                        ev["pathok"] = json!(i.path == path);
                        json!("some")
                    }
                    Err(e) => json!(kind(&e)),
                };
            }
            "stats" => {
                let st = rt.block_on(inst.stats());
                let files = self.data_files();
                ev["res"] = json!("ok");
                ev["st"] = json!({"index_files": st.index_files, "index_entries": st.index_entries, "archive_files": st.archive_files,
                                  "archive_size": clamp(st.archive_size), "cached_paths": st.cached_paths, "cached_content": st.cached_content,
                                  "pathok": st.path == self.root && inst.path() == &self.root});
                ev["fs"] = json!({"ndata": files.len(), "dlen": clamp(files.iter().map(|f| f.1).sum()), "nidx": self.idx_files()});
            }
            "verify" => match rt.block_on(inst.verify()) {
                Ok(v) => {
                    ev["res"] = json!("ok");
                    ev["v"] = json!({"total": v.total, "valid": v.valid, "invalid": v.invalid, "missing": v.missing});
                }
                Err(e) => ev["res"] = json!(kind(&e)),
            },
            "corrupt" => {
                // the environment flips one byte of the stored object (the memory map is shared: the change is seen)
                let p = self.pay(s(op, "p"));
                match self.locate(p).filter(|_| !self.lost.contains(&p.name)) {
                    None => ev["res"] = json!("skip"),
                    Some((id, off, size)) => {
                        let pos = match s(op, "at") {
                            "payload" => u64::from(off) + u64::from(size) - 1,
                            "blte" => u64::from(off) + 30 + 1,
                            _ => u64::from(off) + 3,
                        };
                        // the fault is aimed at this object's own record: where the index points must still begin with the
                        // object's local header (after a cut / deletion the place may belong to another object by now)
                        let own = std::fs::read(self.data_dir().join(format!("data.{id:03}"))).ok().is_some_and(|all| {
                            let mut rk = p.ek;
                            rk.reverse();
                            all.len() as u64 >= u64::from(off) + u64::from(size) && all[off as usize..off as usize + 16] == rk
                        });
                        if (self.disturbed && !own) || (s(op, "at") == "payload" && p.data.is_empty()) {
                            ev["res"] = json!("skip");
                        } else {
                            use std::io::{Read, Seek, SeekFrom, Write};
                            let f = self.data_dir().join(format!("data.{id:03}"));
                            let mut b = [0u8; 1];
                            // bytes that are no longer there (file cut or deleted) cannot be flipped
                            let there = std::fs::OpenOptions::new().read(true).write(true).open(&f).ok().and_then(|mut fh| {
                                fh.seek(SeekFrom::Start(pos)).ok()?;
                                fh.read_exact(&mut b).ok()?;
                                Some(fh)
                            });
                            match there {
                                None => ev["res"] = json!("skip"),
                                Some(mut fh) => {
                                    b[0] ^= 0x20;
                                    fh.seek(SeekFrom::Start(pos)).unwrap();
                                    fh.write_all(&b).unwrap();
                                    fh.sync_all().unwrap();
                                    ev["res"] = json!("ok");
                                }
                            }
                        }
                    }
                }
            }
            "raw" => {
                // the stored record of an object, as the data file has it (for the key rule: ek = MD5(BLTE bytes))
                let p = self.pay(s(op, "p"));
                match self.locate(p).filter(|_| !self.lost.contains(&p.name)) {
                    None => ev["res"] = json!("skip"),
                    Some((id, off, size)) => {
                        let all = std::fs::read(self.data_dir().join(format!("data.{id:03}"))).unwrap_or_default();
                        if (all.len() as u64) < u64::from(off) + u64::from(size) {
                            // the record is no longer (completely) there: nothing to show
                            ev["res"] = json!("skip");
                            return;
                        }
                        let rec = &all[off as usize..(off + size) as usize];
                        let mut rk = p.ek;
                        rk.reverse();
                        if self.disturbed && rec[..16] != rk {
                            // the place belongs to another record by now (the file was deleted and written again)
                            ev["res"] = json!("skip");
                            return;
                        }
                        ev["res"] = json!("ok");
                        ev["lhdr"] = ints(&rec[..30]);
                        ev["blte"] = ints(&rec[30..]);
                        ev["data"] = ints(&p.data);
                        ev["ck"] = ints(&p.ck);
                        ev["ek"] = ints(&p.ek);
                        ev["off"] = json!(off);
                    }
                }
            }
            other => panic!("driver: unknown inst op {other}"),
        }
    }
}

fn build_root(t: &[Payload], spec: &Value) -> Result<Vec<u8>, String> {
    let mut b = RootBuilder::new(RootVersion::from_u32(spec["ver"].as_u64().unwrap_or(2) as u32).expect("root version"));
    for e in spec["files"].as_array().expect("root files") {
        let fd = e[0].as_u64().unwrap() as u32;
        let path = e[1].as_str().filter(|p| *p != "-").map(|p| concrete_path(t, p));
        let target = t.iter().find(|p| p.name == e[2].as_str().unwrap()).expect("driver: root target");
        let flags = if path.is_some() { ContentFlags::INSTALL } else { ContentFlags::INSTALL | ContentFlags::NO_NAME_HASH };
        b.add_file(FileDataId::new(fd), ContentKey::from_bytes(target.ck), path.as_deref(), LocaleFlags::new(LocaleFlags::ENUS), ContentFlags::new(flags));
    }
    b.build().map_err(|e| format!("{e}"))
}
fn build_enc(t: &[Payload], spec: &Value) -> Result<Vec<u8>, String> {
    let mut b = EncodingBuilder::new();
    for e in spec.as_array().expect("enc entries") {
        let p = t.iter().find(|p| p.name == e.as_str().unwrap()).expect("driver: enc target");
        b.add_ckey_entry(CKeyEntryData { content_key: ContentKey::from_bytes(p.ck), file_size: p.data.len() as u64, encoding_keys: vec![EncodingKey::from_bytes(p.ek)] });
        b.add_ekey_entry(EKeyEntryData { encoding_key: EncodingKey::from_bytes(p.ek), espec: "n".to_string(), file_size: p.data.len() as u64 + 9 });
    }
    let f = b.build().map_err(|e| format!("{e}"))?;
    f.build().map_err(|e| format!("{e}"))
}

fn run_inst(prog: &Value, em: &Emit) {
    let dir = tmpdir();
    let table = payload_table(prog);
    let mut roots = HashMap::new();
    let mut encs = HashMap::new();
    if let Some(m) = prog["roots"].as_object() {
        for (k, v) in m {
            roots.insert(k.clone(), guarded(|| build_root(&table, v)).unwrap_or_else(|m| Err(format!("panic: {m}"))));
        }
    }
    if let Some(m) = prog["encs"].as_object() {
        for (k, v) in m {
            encs.insert(k.clone(), guarded(|| build_enc(&table, v)).unwrap_or_else(|m| Err(format!("panic: {m}"))));
        }
    }
    let mut w = Inst { root: dir.path().join("inst"), inst: None, dead: "closed".into(), rt: rt(), table, roots, encs, compress: prog["compress"] == json!(true), disturbed: false, lost: std::collections::HashSet::new(), raw_handle: false };
    let mut pl = Map::new();
    for p in &w.table {
        pl.insert(p.name.clone(), json!({"md5": p.md5, "len": p.data.len(), "ck": hex(&p.ck), "ek": hex(&p.ek),
                                         "bucket": IndexManager::bucket_for_key(&EncodingKey::from_bytes(p.ek))}));
    }
    let r0 = guarded(|| w.open()).unwrap_or_else(|m| format!("panic: {m}"));
    em.ev(json!({"op": "new", "fam": "inst", "pl": pl, "payloads": prog["payloads"], "roots": prog["roots"], "encs": prog["encs"], "paths": prog["paths"], "res": r0}));
    let mut seq = 0u64;
    let mut ops: Vec<Value> = prog["ops"].as_array().cloned().unwrap_or_default();
    if prog["audit"] != json!(false) {
        // the audit looks at what the disk holds: through a freshly opened and initialised handle
        ops.push(json!({"op": "reopen", "audit": 1}));
        for p in &w.table {
            ops.push(json!({"op": "read_e", "p": p.name, "audit": 1}));
        }
        ops.push(json!({"op": "stats", "audit": 1}));
        ops.push(json!({"op": "verify", "audit": 1}));
    }
    for op in &ops {
        em.begin(op);
        let mut ev = op.clone();
        seq += 1;
        ev["seq"] = json!(seq);
        if let Err(m) = guarded(|| w.step(op, &mut ev)) {
            ev["res"] = json!("panic");
            ev["panic"] = json!(m.chars().take(200).collect::<String>());
        }
        ev["obs"] = guarded(|| w.observe()).unwrap_or_else(|m| json!({"panic": m}));
        em.ev(ev);
    }
}

// ---------------------------------------------------------------------------------- family stor
fn digest_dir(p: &Path, rel: &Path, out: &mut Vec<String>) {
    if let Ok(rd) = std::fs::read_dir(p) {
        let mut es: Vec<_> = rd.flatten().collect();
        es.sort_by_key(std::fs::DirEntry::file_name);
        for e in es {
            let r = rel.join(e.file_name());
            let ft = e.file_type().expect("driver: file type");
            if ft.is_dir() {
                out.push(format!("{}/", r.display()));
                digest_dir(&e.path(), &r, out);
            } else {
                out.push(format!("{}", r.display()));
            }
        }
    }
}

fn run_stor(prog: &Value, em: &Emit) {
    let dir = tmpdir();
    // layout: <tmp>/outer/base is the storage; <tmp>/outer and <tmp> are somebody else's
    let outer = dir.path().join("outer");
    let base = outer.join("base");
    std::fs::create_dir_all(&outer).unwrap();
    std::fs::write(dir.path().join("victim.txt"), b"not yours").unwrap();
    let table = payload_table(prog);
    let rtm = rt();
    let cfg = StorageConfig { base_path: base.clone(), ..StorageConfig::default() };
    let st = guarded(|| Storage::new(cfg));
    let storage = match st {
        Ok(Ok(s)) => s,
        Ok(Err(e)) => {
            em.ev(json!({"op": "new", "fam": "stor", "res": kind(&e)}));
            return;
        }
        Err(m) => {
            em.ev(json!({"op": "new", "fam": "stor", "res": "panic", "panic": m}));
            return;
        }
    };
    let mut pl = Map::new();
    for p in &table {
        pl.insert(p.name.clone(), json!({"md5": p.md5, "len": p.data.len()}));
    }
    let mut base_listing = vec![];
    digest_dir(&base, Path::new(""), &mut base_listing);
    let outside_of = |dir: &Path| -> Vec<String> {
        let mut ol = vec![];
        digest_dir(dir, Path::new(""), &mut ol);
        ol.into_iter().filter(|x| !x.starts_with("outer/base/")).collect()
    };
    let abs = dir.path().join("absout").display().to_string();
    let real_name = |n: &str| n.replace("<abs>", &abs);
    em.ev(json!({"op": "new", "fam": "stor", "pl": pl, "payloads": prog["payloads"], "res": "ok", "base0": base_listing, "outside0": outside_of(dir.path()),
                 "paths": {"data": storage.data_path() == base.join("data"), "indices": storage.indices_path() == base.join("indices"),
                           "residency": storage.residency_path() == base.join("residency"), "ecache": storage.ecache_path() == base.join("ecache"),
                           "hardlink": storage.hardlink_path() == base.join("hardlink"), "build_info": storage.build_info_path() == base.join(".build.info"),
                           "base": storage.base_path() == &base}}));
    // handles returned so far, in order of first appearance
    let mut handles: Vec<Arc<Installation>> = vec![];
    let mut seq = 0u64;
    for op in prog["ops"].as_array().expect("ops") {
        em.begin(op);
        let mut ev = op.clone();
        seq += 1;
        ev["seq"] = json!(seq);
        let r = guarded(|| {
            let mut ev2 = json!({});
            let mut open = |n: &str, ev2: &mut Value| -> Option<Arc<Installation>> {
                match storage.open_installation(&real_name(n)) {
                    Ok(h) => {
                        let id = match handles.iter().position(|x| Arc::ptr_eq(x, &h)) {
                            Some(i) => i,
                            None => {
                                handles.push(h.clone());
                                handles.len() - 1
                            }
                        };
                        ev2["h"] = json!(id);
                        // where the installation lives, relative to the storage's base (canonical)
                        let canon = std::fs::canonicalize(h.path()).unwrap_or_else(|_| h.path().clone());
                        let cbase = std::fs::canonicalize(&base).unwrap();
                        ev2["dir"] = match canon.strip_prefix(&cbase) {
                            Ok(r) => json!(format!("base/{}", r.display())),
                            Err(_) => json!(format!("outside:{}", canon.display()).replace(&dir.path().display().to_string(), "<tmp>")),
                        };
                        ev2["open"] = json!("ok");
                        Some(h)
                    }
                    Err(e) => {
                        ev2["open"] = json!(kind(&e));
                        None
                    }
                }
            };
            match s(op, "op") {
                "open" => {
                    open(s(op, "n"), &mut ev2);
                    ev2["res"] = ev2["open"].clone();
                }
                "write" => {
                    let p = table.iter().find(|p| p.name == s(op, "p")).unwrap();
                    if let Some(h) = open(s(op, "n"), &mut ev2) {
                        ev2["res"] = json!(match rtm.block_on(h.write_file(p.data.clone(), false)) {
                            Ok(_) => "ok".to_string(),
                            Err(e) => kind(&e),
                        });
                    } else {
                        ev2["res"] = ev2["open"].clone();
                    }
                }
                "read" => {
                    let p = table.iter().find(|p| p.name == s(op, "p")).unwrap();
                    if let Some(h) = open(s(op, "n"), &mut ev2) {
                        match rtm.block_on(h.read_file_by_encoding_key(&EncodingKey::from_bytes(p.ek))) {
                            Ok(d) => {
                                ev2["res"] = json!("ok");
                                ev2["md5"] = json!(md5hex(&d));
                            }
                            Err(e) => ev2["res"] = json!(kind(&e)),
                        }
                    } else {
                        ev2["res"] = ev2["open"].clone();
                    }
                }
                "init" => {
                    // initialize(): load what the directory holds
                    if let Some(h) = open(s(op, "n"), &mut ev2) {
                        ev2["res"] = json!(match rtm.block_on(h.initialize()) {
                            Ok(()) => "ok".to_string(),
                            Err(e) => kind(&e),
                        });
                    } else {
                        ev2["res"] = ev2["open"].clone();
                    }
                }
                other => panic!("driver: unknown stor op {other}"),
            }
            ev2
        });
        match r {
            Ok(ev2) => {
                for (k, v) in ev2.as_object().unwrap() {
                    ev[k] = v.clone();
                }
            }
            Err(m) => {
                ev["res"] = json!("panic");
                ev["panic"] = json!(m.chars().take(200).collect::<String>());
            }
        }
        let mut list: Vec<String> = storage.list_installations().into_iter().map(|x| x.replace(&abs, "<abs>")).collect();
        list.sort();
        let mut bl = vec![];
        digest_dir(&base, Path::new(""), &mut bl);
        // only the directory skeleton two levels deep (installation dirs and their sub-directories), files as they are named
        let outside = outside_of(dir.path());
        let dirs: Vec<String> = bl.iter().filter(|x| x.ends_with('/') && x.matches('/').count() == 1).cloned().collect();
        ev["obs"] = json!({"list": list, "dirs": dirs, "outside": outside});
        em.ev(ev);
    }
}

// ---------------------------------------------------------------------------------- family binfo
fn run_binfo(prog: &Value, em: &Emit) {
    em.ev(json!({"op": "new", "fam": "binfo"}));
    let cols: Vec<(String, String)> = prog["cols"].as_array().unwrap().iter().map(|c| (c[0].as_str().unwrap().to_string(), c[1].as_str().unwrap().to_string())).collect();
    let rows: Vec<Vec<String>> = prog["rows"].as_array().unwrap().iter().map(|r| r.as_array().unwrap().iter().map(|x| x.as_str().unwrap().to_string()).collect()).collect();
    let via = prog["via"].as_str().unwrap_or("text");
    let eol = if prog["crlf"] == json!(true) { "\r\n" } else { "\n" };
    let mut ev = prog.clone();
    ev["op"] = json!("parse");
    ev["seq"] = json!(1);
    let text: Result<String, String> = if via == "builder" {
        (|| {
            let mut b = BpsvBuilder::new();
            for (n, t) in &cols {
                b.add_field(BpsvField::new(n.clone(), BpsvType::parse(t).map_err(|e| format!("{e}"))?));
            }
            for r in &rows {
                let mut vals = vec![];
                for (i, v) in r.iter().enumerate() {
                    vals.push(BpsvValue::parse(v, BpsvType::parse(&cols[i].1).map_err(|e| format!("{e}"))?).map_err(|e| format!("{e}"))?);
                }
                b.add_row(vals).map_err(|e| format!("{e}"))?;
            }
            Ok(cascette_formats::bpsv::format(&b.build()))
        })()
    } else {
        let mut t = cols.iter().map(|(n, ty)| format!("{n}!{ty}")).collect::<Vec<_>>().join("|");
        t.push_str(eol);
        if let Some(sq) = prog["seqn"].as_u64() {
            t.push_str(&format!("## seqn = {sq}{eol}"));
        }
        for r in &rows {
            t.push_str(&r.join("|"));
            t.push_str(eol);
        }
        Ok(t)
    };
    let text = match text {
        Ok(t) => t,
        Err(m) => {
            ev["res"] = json!(format!("builder:{m}"));
            em.ev(ev);
            return;
        }
    };
    let names = ["Branch", "Active", "Build Key", "CDN Key", "Install Key", "IM Size", "CDN Path", "CDN Hosts", "CDN Servers", "Tags", "Armadillo",
                 "Last Activated", "Version", "Product", "Nope"];
    let describe = |info: &BuildInfoFile| -> Value {
        let opt = |o: Option<&str>| o.map_or(json!("<none>"), |x| json!(x));
        let entry = |e: &cascette_client_storage::build_info::BuildInfoEntry| -> Value {
            let mut raw = Map::new();
            for (n, _) in &cols {
                raw.insert(n.clone(), opt(e.get_raw(n)));
            }
            json!({"raw": raw, "nope": opt(e.get_raw("Nope")), "branch": opt(e.branch()), "active": e.is_active(), "build_key": opt(e.build_key()),
                   "cdn_key": opt(e.cdn_key()), "install_key": opt(e.install_key()),
                   "install_size": e.install_size().map_or(json!(-1), |x| json!(clamp(x))), "cdn_path": opt(e.cdn_path()),
                   "cdn_hosts": e.cdn_hosts(), "cdn_servers": e.cdn_servers(), "tags": opt(e.tags()), "armadillo": opt(e.armadillo()),
                   "last_activated": opt(e.last_activated()), "version": opt(e.version()), "product": opt(e.product())})
        };
        let mut has = Map::new();
        for n in names {
            has.insert(n.to_string(), json!(info.has_column(n)));
        }
        json!({"count": info.entry_count(), "has": has, "entries": info.entries().iter().map(&entry).collect::<Vec<_>>(),
               "active": info.active_entry().as_ref().map_or(json!({"some": false}), |a| json!({"some": true, "e": entry(a)}))})
    };
    let r = guarded(|| {
        let parsed = if prog["from_path"] == json!(true) {
            let d = tmpdir();
            let p = d.path().join(".build.info");
            std::fs::write(&p, &text).unwrap();
            rt().block_on(BuildInfoFile::from_path(&p))
        } else {
            BuildInfoFile::parse_str(&text)
        };
        match parsed {
            Err(e) => json!({"res": kind(&e)}),
            Ok(info) => {
                let mut o = json!({"res": "ok", "d": describe(&info)});
                // serialise what was parsed and parse it again
                let again = cascette_formats::bpsv::format(info.document());
                o["rt"] = match BuildInfoFile::parse_str(&again) {
                    Ok(i2) => describe(&i2),
                    Err(e) => json!({"err": kind(&e)}),
                };
                o
            }
        }
    });
    match r {
        Ok(o) => {
            for (k, v) in o.as_object().unwrap() {
                ev[k] = v.clone();
            }
        }
        Err(m) => {
            ev["res"] = json!("panic");
            ev["panic"] = json!(m);
        }
    }
    em.ev(ev);
}

// ---------------------------------------------------------------------------------- family val
// Mock binary formats: behaviour set per program through a thread-local table indexed by the const parameter.
#[derive(Clone, Copy, Default, Debug)]
struct MockCfg {
    wfail: bool,
    ser_len: usize,
    invalid_ser: bool,
    rfail: bool,
    lossy: bool,
    trunc_ok: bool,
    /// number of edge cases and which of them (bit i) are lossy
    edges: usize,
    bad_edges: u32,
}
thread_local! {
    static MOCK: std::cell::RefCell<[MockCfg; 4]> = std::cell::RefCell::new([MockCfg::default(); 4]);
    static CALLS: std::cell::RefCell<[u32; 4]> = const { std::cell::RefCell::new([0; 4]) };
}
#[derive(Clone, Debug, PartialEq)]
struct Mock<const ID: usize> {
    v: u32,
    /// this instance does not survive a round trip
    bad: bool,
}
impl<const ID: usize> binrw::BinWrite for Mock<ID> {
    type Args<'a> = ();
    fn write_options<W: std::io::Write + std::io::Seek>(&self, w: &mut W, _e: binrw::Endian, _a: ()) -> binrw::BinResult<()> {
        let c = MOCK.with(|m| m.borrow()[ID]);
        if c.wfail {
            return Err(binrw::Error::Custom { pos: 0, err: Box::new("mock write failure") });
        }
        let mut b = vec![0u8; c.ser_len];
        for (i, x) in b.iter_mut().enumerate() {
            *x = if i == 0 { u8::from(self.bad) } else { (self.v >> (8 * ((i - 1) % 4))) as u8 };
        }
        w.write_all(&b).map_err(binrw::Error::Io)
    }
}
impl<const ID: usize> binrw::BinRead for Mock<ID> {
    type Args<'a> = ();
    fn read_options<R: std::io::Read + std::io::Seek>(r: &mut R, _e: binrw::Endian, _a: ()) -> binrw::BinResult<Self> {
        let c = MOCK.with(|m| m.borrow()[ID]);
        if c.rfail {
            return Err(binrw::Error::Custom { pos: 0, err: Box::new("mock read failure") });
        }
        let mut b = vec![];
        r.read_to_end(&mut b).map_err(binrw::Error::Io)?;
        if b.len() < c.ser_len && !c.trunc_ok {
            return Err(binrw::Error::Custom { pos: 0, err: Box::new("mock: short input") });
        }
        let mut v = 0u32;
        for i in 1..c.ser_len.min(5).min(b.len()) {
            v |= u32::from(b[i]) << (8 * (i - 1));
        }
        let bad = b.first().is_some_and(|x| *x & 1 == 1);
        // a lossy format (or a bad edge case) comes back different
        Ok(Mock { v: if c.lossy || bad { v.wrapping_add(1) } else { v }, bad })
    }
}
impl<const ID: usize> BinaryFormatValidator for Mock<ID> {
    fn generate_valid_instance() -> Self {
        CALLS.with(|c| c.borrow_mut()[ID] += 1);
        Mock { v: 0x0102_0304, bad: false }
    }
    fn generate_edge_cases() -> Vec<Self> {
        let c = MOCK.with(|m| m.borrow()[ID]);
        (0..c.edges).map(|i| Mock { v: 0x1000 + i as u32, bad: c.bad_edges >> i & 1 == 1 }).collect()
    }
    fn validate_serialized_data(&self, data: &[u8]) -> cascette_client_storage::Result<()> {
        let c = MOCK.with(|m| m.borrow()[ID]);
        if c.invalid_ser || data.is_empty() {
            return Err(StorageError::InvalidFormat("mock: serialised form rejected".into()));
        }
        Ok(())
    }
}
/// a format that keeps the trait's default methods (one edge case = the valid instance; non-empty check)
#[derive(Clone, Debug, PartialEq, binrw::BinRead, binrw::BinWrite)]
#[brw(big)]
struct Plain {
    a: u32,
    b: u16,
}
impl BinaryFormatValidator for Plain {
    fn generate_valid_instance() -> Self {
        Plain { a: 7, b: 9 }
    }
}

fn mock_cfg(v: &Value) -> MockCfg {
    let b = |k: &str| v[k] == json!(true);
    MockCfg { wfail: b("wfail"), ser_len: v["ser_len"].as_u64().unwrap_or(5) as usize, invalid_ser: b("invalid_ser"), rfail: b("rfail"), lossy: b("lossy"),
              trunc_ok: b("trunc_ok"), edges: v["edges"].as_u64().unwrap_or(1) as usize, bad_edges: v["bad_edges"].as_u64().unwrap_or(0) as u32 }
}
fn unit(r: cascette_client_storage::Result<()>) -> String {
    match r {
        Ok(()) => "ok".into(),
        Err(e) => kind(&e),
    }
}
fn val_one<const ID: usize>(ev: &mut Value) {
    let inst = Mock::<ID> { v: 0x0102_0304, bad: false };
    ev["rt"] = json!(guarded(|| unit(inst.validate_round_trip())).unwrap_or_else(|_| "panic".into()));
    ev["edges_r"] = json!(guarded(|| unit(Mock::<ID>::validate_all_edge_cases())).unwrap_or_else(|_| "panic".into()));
    ev["corr"] = json!(guarded(|| unit(Mock::<ID>::validate_corruption_handling())).unwrap_or_else(|_| "panic".into()));
    let r = guarded(|| {
        let mut fv = FormatValidator::<Mock<ID>>::new("mock");
        let r = unit(fv.run_comprehensive_validation());
        (r, fv.stats.clone())
    });
    match r {
        Ok((res, st)) => {
            ev["comp"] = json!(res);
            ev["stats"] = json!({"rt": st.round_trip_count, "edges": st.edges_cases(), "corr": st.corruption_tests, "avg": st.average_size as u64});
        }
        Err(_) => ev["comp"] = json!("panic"),
    }
}
trait EdgeCount {
    fn edges_cases(&self) -> usize;
}
impl EdgeCount for cascette_client_storage::validation::ValidationStats {
    fn edges_cases(&self) -> usize {
        self.edge_cases_tested
    }
}

fn run_val(prog: &Value, em: &Emit) {
    em.ev(json!({"op": "new", "fam": "val"}));
    let fmts = prog["fmts"].as_array().expect("fmts");
    assert!(fmts.len() <= 4);
    MOCK.with(|m| {
        for (i, f) in fmts.iter().enumerate() {
            m.borrow_mut()[i] = mock_cfg(f);
        }
    });
    CALLS.with(|c| *c.borrow_mut() = [0; 4]);
    let mut seq = 0;
    // each format on its own
    for (i, f) in fmts.iter().enumerate() {
        let mut ev = json!({"op": "format", "i": i, "cfg": f});
        seq += 1;
        ev["seq"] = json!(seq);
        match i {
            0 => val_one::<0>(&mut ev),
            1 => val_one::<1>(&mut ev),
            2 => val_one::<2>(&mut ev),
            _ => val_one::<3>(&mut ev),
        }
        em.ev(ev);
    }
    // the batch: every format in order (and the default-method format when asked for)
    CALLS.with(|c| *c.borrow_mut() = [0; 4]);
    let mut ev = json!({"op": "batch", "n": fmts.len(), "plain": prog["plain"] == json!(true)});
    seq += 1;
    ev["seq"] = json!(seq);
    let r = guarded(|| {
        let mut b = BatchValidator::new();
        for i in 0..fmts.len() {
            match i {
                0 => b.add_validator::<Mock<0>>("m0"),
                1 => b.add_validator::<Mock<1>>("m1"),
                2 => b.add_validator::<Mock<2>>("m2"),
                _ => b.add_validator::<Mock<3>>("m3"),
            }
        }
        if prog["plain"] == json!(true) {
            b.add_validator::<Plain>("plain");
        }
        let r = unit(b.run_all());
        b.print_summary();
        r
    });
    ev["res"] = json!(r.unwrap_or_else(|_| "panic".into()));
    ev["ran"] = json!(CALLS.with(|c| c.borrow()[..fmts.len()].iter().map(|x| *x > 0).collect::<Vec<_>>()));
    if prog["plain"] == json!(true) {
        let p = Plain::generate_valid_instance();
        ev["plain_rt"] = json!(unit(p.validate_round_trip()));
        ev["plain_edges"] = json!(unit(Plain::validate_all_edge_cases()));
        ev["plain_corr"] = json!(unit(Plain::validate_corruption_handling()));
    }
    em.ev(ev);
}

// ---------------------------------------------------------------------------------- family kmt
/// 16-byte key of a name: "k<i>" are spread over buckets as the program says, "f<j>" are fillers of one bucket
fn kmt_key(bucket: u8, n: u32) -> [u8; 16] {
    // bytes 1..16 pseudo-random from n, byte 0 chosen so that the XOR fold gives the bucket
    let mut rng = Rng::new(0x4B4D_5400 + u64::from(n));
    let mut k = [0u8; 16];
    k[1..].copy_from_slice(&rng.bytes(15));
    for cand in 0..=255u8 {
        k[0] = cand;
        if ResidencyEntry::bucket_hash(&k) == bucket {
            return k;
        }
    }
    unreachable!("driver: no first byte gives bucket {bucket}")
}

fn parse_res_file(bytes: &[u8]) -> Value {
    // structural split only: [bucket u8][page count u32 LE][pages of 1024 bytes]; entries of 40 bytes up to the first
    // entry whose first four bytes are zero; whether the rest of the page is zero
    let mut recs = vec![];
    let mut off = 0usize;
    while off + 5 <= bytes.len() {
        let b = bytes[off];
        let np = u32::from_le_bytes([bytes[off + 1], bytes[off + 2], bytes[off + 3], bytes[off + 4]]) as usize;
        off += 5;
        let mut pages = vec![];
        let mut complete = true;
        for _ in 0..np.min(64) {
            if off + 1024 > bytes.len() {
                complete = false;
                break;
            }
            let pg = &bytes[off..off + 1024];
            let mut ents = vec![];
            let mut i = 0;
            while i + 40 <= 1024 && pg[i..i + 4] != [0, 0, 0, 0] {
                ents.push(ints(&pg[i..i + 40]));
                i += 40;
            }
            pages.push(json!({"ents": ents, "rest0": pg[i..].iter().all(|x| *x == 0)}));
            off += 1024;
        }
        recs.push(json!({"b": b, "np": clamp(np as u64), "pages": pages, "complete": complete}));
        if !complete {
            break;
        }
    }
    json!({"recs": recs, "flen": bytes.len(), "tail": bytes.len() - off.min(bytes.len())})
}

fn run_kmt_res(prog: &Value, em: &Emit) {
    let dir = tmpdir();
    let path = dir.path().join("residency").join("wow.residency");
    let mut keys: BTreeMap<String, [u8; 16]> = BTreeMap::new();
    let mut kj = Map::new();
    for k in prog["keys"].as_array().expect("keys") {
        let name = k[0].as_str().unwrap().to_string();
        let key = if k[2] == json!("zero") { [0u8; 16] } else { kmt_key(k[1].as_u64().unwrap() as u8, k[2].as_u64().unwrap() as u32) };
        kj.insert(name.clone(), json!({"bytes": ints(&key), "bucket": ResidencyEntry::bucket_hash(&key)}));
        keys.insert(name, key);
    }
    em.ev(json!({"op": "new", "fam": "kmt", "sub": "res", "keys": kj, "prog_keys": prog["keys"]}));
    let mut db = ResidencyDb::new(path.clone());
    let mut fillers: Vec<[u8; 16]> = vec![];
    let mut seq = 0;
    for op in prog["ops"].as_array().expect("ops") {
        em.begin(op);
        let mut ev = op.clone();
        seq += 1;
        ev["seq"] = json!(seq);
        let key = |n: &str| *keys.get(n).unwrap_or_else(|| panic!("driver: unknown key {n}"));
        let r = guarded(|| -> String {
            match s(op, "op") {
                "mark" => {
                    db.mark_resident(&key(s(op, "k")));
                    "ok".into()
                }
                "unmark" => {
                    db.mark_non_resident(&key(s(op, "k")));
                    "ok".into()
                }
                "span" => {
                    db.mark_span_non_resident(&key(s(op, "k")), op["off"].as_i64().unwrap() as i32, op["len"].as_i64().unwrap() as i32);
                    "ok".into()
                }
                "delete" => {
                    let mut ks: Vec<[u8; 16]> = op["ks"].as_array().unwrap().iter().map(|x| key(x.as_str().unwrap())).collect();
                    // pad > 0: never-marked keys that push the call onto the batch path (> 10 000 keys)
                    for j in 0..u(op, "pad") {
                        ks.push(kmt_key((j % 16) as u8, 1_000_000 + j as u32));
                    }
                    db.delete_keys(&ks);
                    "ok".into()
                }
                "fill" => {
                    // n fresh keys of one bucket are marked resident
                    for _ in 0..u(op, "n") {
                        let k = kmt_key(u(op, "b") as u8, 10_000 + fillers.len() as u32);
                        db.mark_resident(&k);
                        fillers.push(k);
                    }
                    "ok".into()
                }
                "save" => match db.save() {
                    Ok(()) => "ok".into(),
                    Err(e) => kind(&e),
                },
                "reload" => match ResidencyDb::load(&path) {
                    Ok(d) => {
                        db = d;
                        "ok".into()
                    }
                    Err(e) => kind(&e),
                },
                "flip" => {
                    // the environment flips a bit of entry number `ent` (in file order) at byte `at` of the entry
                    let Ok(mut bytes) = std::fs::read(&path) else { return "skip".into() };
                    let mut off = 0usize;
                    let mut seen = 0u64;
                    let mut pos = None;
                    'outer: while off + 5 <= bytes.len() {
                        let np = u32::from_le_bytes([bytes[off + 1], bytes[off + 2], bytes[off + 3], bytes[off + 4]]) as usize;
                        off += 5;
                        for _ in 0..np {
                            let mut i = 0;
                            while i + 40 <= 1024 && off + i + 40 <= bytes.len() && bytes[off + i..off + i + 4] != [0, 0, 0, 0] {
                                if seen == u(op, "ent") {
                                    pos = Some(off + i + u(op, "at") as usize);
                                    break 'outer;
                                }
                                seen += 1;
                                i += 40;
                            }
                            off += 1024;
                        }
                    }
                    match pos {
                        None => "skip".into(),
                        Some(p) => {
                            bytes[p] ^= 1 << u(op, "bit");
                            std::fs::write(&path, &bytes).unwrap();
                            "ok".into()
                        }
                    }
                }
                other => panic!("driver: unknown kmt op {other}"),
            }
        });
        ev["res"] = json!(r.unwrap_or_else(|m| format!("panic: {m}")));
        // read-back: residency of every named key, scan, counts; the file as it is on disk
        let ob = guarded(|| {
            let mut res = Map::new();
            for (n, k) in &keys {
                res.insert(n.clone(), json!(db.is_resident(k)));
            }
            let scan = db.scan_keys();
            let mut named: Vec<String> = vec![];
            let mut nfill = 0;
            let mut phantom = 0;
            for k in &scan {
                if let Some((n, _)) = keys.iter().find(|(_, v)| *v == k) {
                    named.push(n.clone());
                } else if fillers.contains(k) {
                    nfill += 1;
                } else {
                    phantom += 1;
                }
            }
            json!({"res": res, "scan": named, "nfill": nfill, "phantom": phantom, "count": db.entry_count(),
                   "fres": fillers.iter().filter(|k| db.is_resident(k)).count()})
        });
        ev["obs"] = ob.unwrap_or_else(|m| json!({"panic": m}));
        if matches!(s(op, "op"), "save" | "flip") {
            ev["file"] = std::fs::read(&path).map_or(json!({"absent": true}), |b| parse_res_file(&b));
        }
        em.ev(ev);
    }
}

fn run_kmt_idx(prog: &Value, em: &Emit) {
    // IndexManager: add entries, merge them into the sorted section, save; the file image; flips; load
    let dir = tmpdir();
    let mut keys: BTreeMap<String, [u8; 16]> = BTreeMap::new();
    let mut kj = Map::new();
    for k in prog["keys"].as_array().expect("keys") {
        let name = k[0].as_str().unwrap().to_string();
        // an encoding key whose 9-byte prefix falls into the wanted .idx bucket
        let want = k[1].as_u64().unwrap() as u8;
        let mut n = k[2].as_u64().unwrap() as u32 * 1000;
        let key = loop {
            let mut rng = Rng::new(0x1D58_0000 + u64::from(n));
            let mut c = [0u8; 16];
            c.copy_from_slice(&rng.bytes(16));
            if IndexManager::bucket_for_key(&EncodingKey::from_bytes(c)) == want {
                break c;
            }
            n += 1;
        };
        kj.insert(name.clone(), json!({"bytes": ints(&key), "bucket": want}));
        keys.insert(name, key);
    }
    em.ev(json!({"op": "new", "fam": "kmt", "sub": "idx", "keys": kj, "prog_keys": prog["keys"]}));
    let rtm = rt();
    let mut im = IndexManager::new(dir.path());
    let mut seq = 0;
    let file_of = |b: u8| dir.path().join(format!("{b:02x}{:08x}.idx", 1));
    for op in prog["ops"].as_array().expect("ops") {
        em.begin(op);
        let mut ev = op.clone();
        seq += 1;
        ev["seq"] = json!(seq);
        let key = |n: &str| EncodingKey::from_bytes(*keys.get(n).unwrap_or_else(|| panic!("driver: unknown key {n}")));
        let r = guarded(|| -> String {
            match s(op, "op") {
                "add" => match im.add_entry(&key(s(op, "k")), u(op, "id") as u16, u(op, "off") as u32, u(op, "size") as u32) {
                    Ok(()) => "ok".into(),
                    Err(e) => kind(&e),
                },
                "flush" => match im.flush_updates_for_bucket(u(op, "b") as u8) {
                    Ok(()) => "ok".into(),
                    Err(e) => kind(&e),
                },
                "save" => match im.save_all() {
                    Ok(()) => "ok".into(),
                    Err(e) => kind(&e),
                },
                "reload" => {
                    let mut m2 = IndexManager::new(dir.path());
                    match rtm.block_on(m2.load_all()) {
                        Ok(()) => {
                            im = m2;
                            "ok".into()
                        }
                        Err(e) => kind(&e),
                    }
                }
                "flip" => {
                    let f = file_of(u(op, "b") as u8);
                    let Ok(mut bytes) = std::fs::read(&f) else { return "skip".into() };
                    let p = u(op, "pos") as usize;
                    if p >= bytes.len() {
                        return "skip".into();
                    }
                    bytes[p] ^= 1 << u(op, "bit");
                    std::fs::write(&f, &bytes).unwrap();
                    "ok".into()
                }
                other => panic!("driver: unknown idx op {other}"),
            }
        });
        ev["res"] = json!(r.unwrap_or_else(|m| format!("panic: {m}")));
        let ob = guarded(|| {
            let mut look = Map::new();
            for (n, k) in &keys {
                look.insert(n.clone(), match im.lookup(&EncodingKey::from_bytes(*k)) {
                    None => json!("none"),
                    Some(e) => json!(format!("{}:{}:{}", e.archive_id(), e.archive_offset(), e.size)),
                });
            }
            let mut unknown = 0;
            for (_, e) in im.iter_entries() {
                if !keys.values().any(|k| k[..9] == e.key) {
                    unknown += 1;
                }
            }
            json!({"look": look, "count": im.entry_count(), "unknown": unknown, "stats_entries": im.stats().total_entries, "stats_files": im.stats().index_count})
        });
        ev["obs"] = ob.unwrap_or_else(|m| json!({"panic": m}));
        if matches!(s(op, "op"), "save" | "flip") {
            let mut files = Map::new();
            let mut names: Vec<String> = std::fs::read_dir(dir.path()).unwrap().flatten().map(|e| e.file_name().to_string_lossy().to_string()).collect();
            names.sort();
            for n in &names {
                if !n.ends_with(".idx") {
                    continue;
                }
                let b = std::fs::read(dir.path().join(n)).unwrap();
                // structural split: 40 header bytes, the entry block as announced by bytes 32..36, is the rest up to the 64 KiB boundary zero
                let esz = if b.len() >= 36 { u32::from_le_bytes([b[32], b[33], b[34], b[35]]) as usize } else { 0 };
                let eend = (40 + esz).min(b.len());
                let bound = 65536.min(b.len());
                files.insert(n.clone(), json!({"hdr": ints(&b[..40.min(b.len())]), "ents": ints(&b[40.min(b.len())..eend.min(40 + 18 * 64)]), "esz": clamp(esz as u64),
                                               "pad0": b[eend.min(bound)..bound].iter().all(|x| *x == 0), "flen": b.len(),
                                               "upd_nonzero": b.len() > 65536 && b[65536..].iter().any(|x| *x != 0)}));
            }
            ev["files"] = Value::Object(files);
            ev["names"] = json!(names);
        }
        em.ev(ev);
    }
}

// ---------------------------------------------------------------------------------- random programs
fn random_program(rng: &mut Rng, len: usize) -> Value {
    // long Installation histories over a larger universe; the same event grammar as the enumerated ones
    let npay = 3 + rng.below(5) as usize;
    let mut payloads = vec![];
    let mut seen = std::collections::HashSet::new();
    for i in 0..npay {
        let cls = *rng.pick(&["plain", "plain", "comp", "nested"]);
        let len = if i == 0 { 0 } else { *rng.pick(&[1u64, 20, 33, 34, 100, 300, 5000]) };
        // (a nested payload of 9 bytes is the BLTE wrapping of the empty file: its content key would be the encoding key of an empty payload)
        // two names never denote the same bytes (short payloads of two names can coincide): lengthen until distinct
        let mut len = len.max(if cls == "nested" { 10 } else { 0 });
        while !seen.insert(md5hex(&content(&format!("q{i}"), cls, len as usize))) {
            len += 1;
        }
        payloads.push(json!([format!("q{i}"), cls, len]));
    }
    let pn = |rng: &mut Rng| format!("q{}", rng.below(npay as u64));
    let mut roots = Map::new();
    for r in ["R1", "R2", "R3"] {
        let mut files = vec![];
        let mut used = std::collections::HashSet::new();
        for fd in 1..=(2 + rng.below(5)) {
            let path = if rng.chance(3, 4) {
                let p = format!("p{}", 1 + rng.below(5));
                if used.insert(p.clone()) { json!(p) } else { json!("-") }
            } else {
                json!("-")
            };
            files.push(json!([fd, path, pn(rng)]));
        }
        roots.insert(r.to_string(), json!({"ver": *rng.pick(&[1u64, 2, 3, 4]), "files": files}));
    }
    let mut encs = Map::new();
    for e in ["E1", "E2"] {
        let mut set: Vec<String> = (0..npay).filter(|_| rng.chance(2, 3)).map(|i| format!("q{i}")).collect();
        if set.is_empty() {
            set.push("q0".into());
        }
        encs.insert(e.to_string(), json!(set));
    }
    let mut ops = vec![];
    for _ in 0..len {
        let path = |rng: &mut Rng| -> String {
            match rng.below(10) {
                0 => format!("@ek:{}", pn(rng)),
                1 => format!("@ck:{}", pn(rng)),
                2 => format!("@fdid:{}", 1 + rng.below(6)),
                3 => format!("~p{}", 1 + rng.below(5)),
                _ => format!("p{}", 1 + rng.below(6)),
            }
        };
        let op = match rng.below(100) {
            0..=17 => json!({"op": "write", "p": pn(rng)}),
            18..=25 => json!({"op": "load_root", "r": *rng.pick(&["R1", "R2", "R3"])}),
            26..=31 => json!({"op": "load_enc", "e": *rng.pick(&["E1", "E2"])}),
            32..=41 => json!({"op": "read_e", "p": pn(rng)}),
            42..=49 => json!({"op": "read_c", "p": pn(rng), "via": *rng.pick(&["key", "bytes"])}),
            50..=63 => json!({"op": "read_p", "s": path(rng)}),
            64..=73 => json!({"op": "read_f", "n": 1 + rng.below(7)}),
            74..=77 => json!({"op": "info", "s": path(rng)}),
            78..=80 => json!({"op": "reads_p", "ss": [path(rng), path(rng)]}),
            81..=82 => json!({"op": "reads_f", "ns": [1 + rng.below(7), 1 + rng.below(7)]}),
            83..=84 => json!({"op": "reads_c", "ps": [pn(rng), pn(rng)]}),
            85..=88 => json!({"op": "stats"}),
            89..=91 => json!({"op": "verify"}),
            92..=94 => json!({"op": "reopen"}),
            95 => json!({"op": "reopen_raw"}),
            96..=97 => json!({"op": "corrupt", "p": pn(rng), "at": *rng.pick(&["payload", "blte", "lhdr"])}),
            98 => json!({"op": "cut", "n": 1 + rng.below(40)}),
            _ => json!({"op": "rmdata"}),
        };
        ops.push(op);
    }
    // the path table: what each spelling denotes and which cache cell it would hit
    let mut paths = Map::new();
    for i in 1..=6 {
        paths.insert(format!("p{i}"), json!({"base": format!("p{i}"), "cell": format!("P:p{i}")}));
        paths.insert(format!("~p{i}"), json!({"base": format!("p{i}"), "cell": format!("P:~p{i}")}));
    }
    for i in 0..npay {
        paths.insert(format!("@ek:q{i}"), json!({"base": "-", "cell": format!("E:q{i}")}));
        paths.insert(format!("@ck:q{i}"), json!({"base": "-", "cell": format!("C:q{i}")}));
    }
    for n in 1..=7 {
        paths.insert(format!("@fdid:{n}"), json!({"base": "-", "cell": format!("F:{n}")}));
    }
    json!({"fam": "inst", "payloads": payloads, "roots": roots, "encs": encs, "paths": paths, "ops": ops})
}

fn run_program(prog: &Value, em: &Emit) {
    match prog["fam"].as_str().unwrap_or("inst") {
        "inst" => run_inst(prog, em),
        "stor" => run_stor(prog, em),
        "binfo" => run_binfo(prog, em),
        "val" => run_val(prog, em),
        "kmt" => {
            if prog["sub"] == json!("idx") {
                run_kmt_idx(prog, em);
            } else {
                run_kmt_res(prog, em);
            }
        }
        other => panic!("driver: unknown family {other}"),
    }
}

fn main() {
    quiet_panics();
    let args: Vec<String> = std::env::args().collect();
    let mut programs = vec![];
    if let Some(p) = arg(&args, "--programs") {
        programs = read_programs(&p);
    }
    let nrand = arg_u64(&args, "--random", 0);
    if nrand > 0 {
        let mut rng = Rng::new(seed_from_env());
        let len = arg_u64(&args, "--len", 60) as usize;
        let mut dump = arg(&args, "--dump-programs").map(|p| Out::to_path(Path::new(&p)));
        for _ in 0..nrand {
            let prog = random_program(&mut rng, len);
            if let Some(d) = dump.as_mut() {
                d.ev(&prog);
            }
            programs.push(prog);
        }
        if has_flag(&args, "--dump-only") {
            eprintln!("{}", json!({"programs": 0, "events": 0, "dumped": nrand}));
            return;
        }
    }
    let mut out = Out::from_arg(arg(&args, "--out").as_ref());
    let timeout = arg_u64(&args, "--timeout", 20);
    let st = run_with_watchdog(programs, &mut out, std::time::Duration::from_secs(timeout), run_program);
    out.flush();
    eprintln!("{}", json!({"programs": st.programs, "events": out.events, "hangs": st.hangs, "skipped": st.skipped}));
    if st.skipped > 0 {
        std::process::exit(3);
    }
}
