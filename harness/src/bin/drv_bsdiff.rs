//! C16 driver: executes patch programs on the real ZBSDIFF1 builders and patchers.
//!
//! usage: drv_bsdiff --programs <file|-> --out <file|-> [--alphabets 97:98,0:255]
//!
//! Programs (one JSON object per line; produced by TLC from spec/mc/MC_Bsdiff.tla or listed by checks/c16.py):
//!
//!   {"kind":"ab","old":[0,1,..],"new":[..]}            letters; executed once per alphabet of --alphabets
//!                                                       (or once with "alpha":[x,y] when the program names one)
//!   {"kind":"bytes","old":[..],"new":[..]}             explicit bytes, judged byte by byte
//!   {"kind":"gen","tier":"med"|"long","seed":s,"idx":i} seeded pair: random content + insert / delete / move /
//!                                                       repeat / substitute edits (med: judged byte by byte,
//!                                                       long: up to 64 KiB, judged by lengths and digests)
//!   {"kind":"struct","shape":"insert"|"delete"|"move"|"dup"|"subst","p":..,"i":..,"s":..,"alpha":k}
//!                                                       old = P+S / P+I+S ..., deterministic content
//!   {"kind":"arb","old":[..],"ctrl":[[x,y,z]..],"diff":[..],"extra":[..],"size":n}
//!                                                       an arbitrary patch, assembled by this driver's own
//!                                                       encoder (sign-magnitude control, zlib stored blocks)
//!   {"kind":"fixture","dir":d,"name":n}                 a real CDN triplet d/n.old, d/n.new, d/n.zbsdiff (made by
//!                                                       Blizzard's encoder): the patch is dissected and applied
//!                                                       like a generated one (validates the format definition)
//!
//! For every pair the three builders x max_diff_block_size values are run; each produced patch is taken apart by
//! an independent reader (own header split, own inflate - not the library's parser) and applied with
//! apply_patch_memory, ZbsdiffPatcher (several buffer sizes x initial positions of the old-file reader: start, 1,
//! middle, EOF - "s1024@mid" etc.; and once through a reader whose read() returns short counts, "s1024~short") and
//! ZbsDiff::parse(..).apply(..).  Configurations
//! that behaved identically (same patch blocks, same outputs) are logged as one record.
//!
//! The driver only executes and records; verdicts are computed by TLC (spec/trace/T_Bsdiff.tla).
use cascette_formats::zbsdiff::{ZbsDiff, ZbsdiffBuilder, ZbsdiffHeader, ZbsdiffPatcher, apply_patch_memory};
use serde_json::{Value, json};
use std::io::{Cursor, Seek, SeekFrom};
use verif_harness::*;

// ---------------------------------------------------------------------------
// independent zlib reader (RFC 1950 / 1951) and a stored-block writer
// ---------------------------------------------------------------------------
struct Bits<'a> {
    d: &'a [u8],
    pos: usize,
    buf: u32,
    cnt: u32,
}
impl Bits<'_> {
    fn bits(&mut self, n: u32) -> Result<u32, String> {
        while self.cnt < n {
            let b = *self.d.get(self.pos).ok_or("deflate: out of input")?;
            self.pos += 1;
            self.buf |= u32::from(b) << self.cnt;
            self.cnt += 8;
        }
        let v = if n == 0 { 0 } else { self.buf & ((1u32 << n) - 1) };
        self.buf >>= n;
        self.cnt -= n;
        Ok(v)
    }
}
struct Huff {
    count: [u16; 16],
    symbol: Vec<u16>,
}
fn huff(lengths: &[u8]) -> Huff {
    let mut count = [0u16; 16];
    for &l in lengths {
        count[l as usize] += 1;
    }
    let mut offs = [0u16; 16];
    for i in 1..15 {
        offs[i + 1] = offs[i] + count[i];
    }
    let mut symbol = vec![0u16; lengths.len()];
    for (s, &l) in lengths.iter().enumerate() {
        if l != 0 {
            symbol[offs[l as usize] as usize] = s as u16;
            offs[l as usize] += 1;
        }
    }
    count[0] = 0;
    Huff { count, symbol }
}
fn decode(bs: &mut Bits, h: &Huff) -> Result<u16, String> {
    let (mut code, mut first, mut index) = (0i32, 0i32, 0i32);
    for len in 1..=15 {
        code |= bs.bits(1)? as i32;
        let count = i32::from(h.count[len]);
        if code - count < first {
            return h.symbol.get((index + (code - first)) as usize).copied().ok_or_else(|| "deflate: bad code".into());
        }
        index += count;
        first += count;
        first <<= 1;
        code <<= 1;
    }
    Err("deflate: code not found".into())
}
const LBASE: [u16; 29] = [3, 4, 5, 6, 7, 8, 9, 10, 11, 13, 15, 17, 19, 23, 27, 31, 35, 43, 51, 59, 67, 83, 99, 115, 131, 163, 195, 227, 258];
const LEXT: [u8; 29] = [0, 0, 0, 0, 0, 0, 0, 0, 1, 1, 1, 1, 2, 2, 2, 2, 3, 3, 3, 3, 4, 4, 4, 4, 5, 5, 5, 5, 0];
const DBASE: [u16; 30] = [
    1, 2, 3, 4, 5, 7, 9, 13, 17, 25, 33, 49, 65, 97, 129, 193, 257, 385, 513, 769, 1025, 1537, 2049, 3073, 4097, 6145, 8193, 12289, 16385, 24577,
];
const DEXT: [u8; 30] = [0, 0, 0, 0, 1, 1, 2, 2, 3, 3, 4, 4, 5, 5, 6, 6, 7, 7, 8, 8, 9, 9, 10, 10, 11, 11, 12, 12, 13, 13];

fn codes(bs: &mut Bits, out: &mut Vec<u8>, lc: &Huff, dc: &Huff) -> Result<(), String> {
    loop {
        let sym = decode(bs, lc)? as usize;
        if sym < 256 {
            out.push(sym as u8);
        } else if sym == 256 {
            return Ok(());
        } else {
            let s = sym - 257;
            if s >= 29 {
                return Err("deflate: bad length symbol".into());
            }
            let len = LBASE[s] as usize + bs.bits(u32::from(LEXT[s]))? as usize;
            let d = decode(bs, dc)? as usize;
            if d >= 30 {
                return Err("deflate: bad distance symbol".into());
            }
            let dist = DBASE[d] as usize + bs.bits(u32::from(DEXT[d]))? as usize;
            if dist > out.len() {
                return Err("deflate: distance too far back".into());
            }
            for _ in 0..len {
                out.push(out[out.len() - dist]);
            }
        }
    }
}
fn inflate_zlib(d: &[u8]) -> Result<Vec<u8>, String> {
    if d.len() < 6 {
        return Err("zlib: too short".into());
    }
    if d[0] & 0x0f != 8 || (u32::from(d[0]) * 256 + u32::from(d[1])) % 31 != 0 || d[1] & 0x20 != 0 {
        return Err("zlib: bad header".into());
    }
    let mut bs = Bits { d, pos: 2, buf: 0, cnt: 0 };
    let mut out = Vec::new();
    loop {
        let last = bs.bits(1)?;
        match bs.bits(2)? {
            0 => {
                bs.buf = 0;
                bs.cnt = 0;
                if bs.pos + 4 > d.len() {
                    return Err("deflate: stored header".into());
                }
                let len = usize::from(d[bs.pos]) | usize::from(d[bs.pos + 1]) << 8;
                let nlen = usize::from(d[bs.pos + 2]) | usize::from(d[bs.pos + 3]) << 8;
                if len != (!nlen & 0xffff) {
                    return Err("deflate: stored length".into());
                }
                bs.pos += 4;
                if bs.pos + len > d.len() {
                    return Err("deflate: stored data".into());
                }
                out.extend_from_slice(&d[bs.pos..bs.pos + len]);
                bs.pos += len;
            }
            1 => {
                let mut l = [0u8; 288];
                for (i, x) in l.iter_mut().enumerate() {
                    *x = if i < 144 {
                        8
                    } else if i < 256 {
                        9
                    } else if i < 280 {
                        7
                    } else {
                        8
                    };
                }
                codes(&mut bs, &mut out, &huff(&l), &huff(&[5u8; 30]))?;
            }
            2 => {
                let nlen = bs.bits(5)? as usize + 257;
                let ndist = bs.bits(5)? as usize + 1;
                let ncode = bs.bits(4)? as usize + 4;
                if nlen > 286 || ndist > 30 {
                    return Err("deflate: bad counts".into());
                }
                const ORDER: [usize; 19] = [16, 17, 18, 0, 8, 7, 9, 6, 10, 5, 11, 4, 12, 3, 13, 2, 14, 1, 15];
                let mut cl = [0u8; 19];
                for &o in ORDER.iter().take(ncode) {
                    cl[o] = bs.bits(3)? as u8;
                }
                let clh = huff(&cl);
                let mut lengths = vec![0u8; nlen + ndist];
                let mut i = 0;
                while i < nlen + ndist {
                    let sym = decode(&mut bs, &clh)?;
                    if sym < 16 {
                        lengths[i] = sym as u8;
                        i += 1;
                    } else {
                        let (prev, rep) = match sym {
                            16 => {
                                if i == 0 {
                                    return Err("deflate: repeat without previous".into());
                                }
                                (lengths[i - 1], 3 + bs.bits(2)? as usize)
                            }
                            17 => (0, 3 + bs.bits(3)? as usize),
                            _ => (0, 11 + bs.bits(7)? as usize),
                        };
                        if i + rep > nlen + ndist {
                            return Err("deflate: too many lengths".into());
                        }
                        for _ in 0..rep {
                            lengths[i] = prev;
                            i += 1;
                        }
                    }
                }
                codes(&mut bs, &mut out, &huff(&lengths[..nlen]), &huff(&lengths[nlen..]))?;
            }
            _ => return Err("deflate: reserved block type".into()),
        }
        if last == 1 {
            break;
        }
    }
    if bs.pos + 4 > d.len() {
        return Err("zlib: missing checksum".into());
    }
    let want = u32::from_be_bytes([d[bs.pos], d[bs.pos + 1], d[bs.pos + 2], d[bs.pos + 3]]);
    if adler32(&out) != want {
        return Err("zlib: checksum mismatch".into());
    }
    Ok(out)
}
fn adler32(d: &[u8]) -> u32 {
    let (mut a, mut b) = (1u32, 0u32);
    for &x in d {
        a = (a + u32::from(x)) % 65521;
        b = (b + a) % 65521;
    }
    (b << 16) | a
}
fn zlib_stored(d: &[u8]) -> Vec<u8> {
    let mut o = vec![0x78, 0x01];
    let mut chunks: Vec<&[u8]> = d.chunks(65535).collect();
    if chunks.is_empty() {
        chunks.push(&[]);
    }
    let n = chunks.len();
    for (i, c) in chunks.iter().enumerate() {
        o.push(u8::from(i + 1 == n));
        o.extend_from_slice(&(c.len() as u16).to_le_bytes());
        o.extend_from_slice(&(!(c.len() as u16)).to_le_bytes());
        o.extend_from_slice(c);
    }
    o.extend_from_slice(&adler32(d).to_be_bytes());
    o
}
fn offtout(v: i64) -> [u8; 8] {
    let mut b = v.unsigned_abs().to_le_bytes();
    if v < 0 {
        b[7] |= 0x80;
    }
    b
}
fn offtin(b: &[u8]) -> i64 {
    let mut m = [0u8; 8];
    m.copy_from_slice(&b[..8]);
    let neg = m[7] & 0x80 != 0;
    m[7] &= 0x7f;
    let v = i64::from_le_bytes(m);
    if neg { -v } else { v }
}

// ---------------------------------------------------------------------------
// execution
// ---------------------------------------------------------------------------
#[derive(Clone, PartialEq)]
enum Outcome {
    Ok(Vec<u8>),
    Err(String),
    Panic(String),
}
fn short(e: &dyn std::fmt::Display) -> String {
    e.to_string().chars().take(100).collect()
}
fn outcome<E: std::fmt::Display>(r: Result<Result<Vec<u8>, E>, String>) -> Outcome {
    match r {
        Ok(Ok(v)) => Outcome::Ok(v),
        Ok(Err(e)) => Outcome::Err(short(&e)),
        Err(m) => Outcome::Panic(m.chars().take(160).collect()),
    }
}

fn build(builder: &str, bs: usize, old: &[u8], new: &[u8]) -> Outcome {
    let (o, n) = (old.to_vec(), new.to_vec());
    outcome(guarded(move || {
        let b = ZbsdiffBuilder::new(o, n).with_max_diff_block_size(bs);
        match builder {
            "simple" => b.build_simple_patch(),
            "chunked" => b.build_chunked_patch(),
            "optimized" => b.build_optimized_patch(),
            _ => panic!("driver: unknown builder"),
        }
    }))
}

/// Where the old-file reader stands when it is handed to the streaming patcher: a caller may have hashed the file
/// (reader at EOF), peeked at a header, or re-used a handle.  The patcher applies the patch to the old FILE, so the
/// expected output does not depend on it.  The first buffer size gets every position, the others start and EOF.
fn reader_positions(len: usize, first: bool) -> Vec<(&'static str, usize)> {
    if first { vec![("", 0), ("@1", 1.min(len)), ("@mid", len / 2), ("@end", len)] } else { vec![("", 0), ("@end", len)] }
}

/// An old-file source whose `read` returns short counts (1..=3 bytes per call, seeded; never 0 before EOF), as a
/// `BufReader` at a buffer boundary, `Take`, `Chain` or a network file system may.  `Read::read` is allowed to do
/// that, so the expected output does not depend on it.
struct ShortReader<'a> {
    inner: Cursor<&'a [u8]>,
    state: u64,
}
impl std::io::Read for ShortReader<'_> {
    fn read(&mut self, buf: &mut [u8]) -> std::io::Result<usize> {
        if buf.is_empty() {
            return Ok(0);
        }
        self.state = self.state.wrapping_mul(6_364_136_223_846_793_005).wrapping_add(1_442_695_040_888_963_407);
        let k = 1 + ((self.state >> 33) % 3) as usize;
        let n = k.min(buf.len());
        self.inner.read(&mut buf[..n])
    }
}
impl Seek for ShortReader<'_> {
    fn seek(&mut self, pos: SeekFrom) -> std::io::Result<u64> {
        self.inner.seek(pos)
    }
}

fn apply_all(old: &[u8], patch: &[u8], bufs: &[usize]) -> Vec<(String, Outcome)> {
    let mut v = vec![("mem".to_string(), outcome(guarded(|| apply_patch_memory(old, patch))))];
    if let Some(&b) = bufs.first() {
        v.push((
            format!("s{b}~short"),
            outcome(guarded(|| {
                let h = ZbsdiffHeader::parse_from_patch(patch)?;
                let rd = ShortReader { inner: Cursor::new(old), state: (old.len() as u64) << 32 ^ patch.len() as u64 };
                ZbsdiffPatcher::new(rd, h.output_size as usize).with_buffer_size(b).apply_patch_from_data(patch)
            })),
        ));
    }
    for (i, &b) in bufs.iter().enumerate() {
        for (tag, pos) in reader_positions(old.len(), i == 0) {
            v.push((
                format!("s{b}{tag}"),
                outcome(guarded(|| {
                    let h = ZbsdiffHeader::parse_from_patch(patch)?;
                    let mut rd = Cursor::new(old);
                    rd.seek(SeekFrom::Start(pos as u64)).expect("seek in a cursor");
                    ZbsdiffPatcher::new(rd, h.output_size as usize).with_buffer_size(b).apply_patch_from_data(patch)
                })),
            ));
        }
    }
    v.push(("obj".to_string(), outcome(guarded(|| ZbsDiff::parse(patch).and_then(|p| p.apply(old))))));
    v
}

/// group appliers with identical outcomes; `long` = log length + digest instead of bytes
fn outs_json(outs: &[(String, Outcome)], long: bool) -> Value {
    let mut groups: Vec<(Vec<String>, &Outcome)> = vec![];
    for (by, o) in outs {
        if let Some(g) = groups.iter_mut().find(|g| g.1 == o) {
            g.0.push(by.clone());
        } else {
            groups.push((vec![by.clone()], o));
        }
    }
    Value::Array(
        groups
            .into_iter()
            .map(|(by, o)| match o {
                Outcome::Ok(b) if long => json!({"by": by, "ok": true, "len": b.len(), "md5": md5hex(b)}),
                Outcome::Ok(b) => json!({"by": by, "ok": true, "len": b.len(), "b": b}),
                Outcome::Err(e) => json!({"by": by, "ok": false, "err": e}),
                Outcome::Panic(m) => json!({"by": by, "ok": false, "panic": m}),
            })
            .collect(),
    )
}

/// What an independent reader makes of the patch bytes (fields of the "patch" event).
fn dissect(patch: &[u8], long: bool) -> Value {
    let mut ev = json!({"plen": patch.len()});
    if patch.len() < 32 {
        ev["split"] = json!("bad");
        ev["hdr"] = json!(patch);
        return ev;
    }
    ev["hdr"] = json!(&patch[..32]);
    let c = i64::from_le_bytes(patch[8..16].try_into().expect("8 bytes"));
    let d = i64::from_le_bytes(patch[16..24].try_into().expect("8 bytes"));
    if c < 0 || d < 0 || c > patch.len() as i64 || d > patch.len() as i64 || 32 + c + d > patch.len() as i64 {
        ev["split"] = json!("bad");
        return ev;
    }
    let (c, d) = (c as usize, d as usize);
    let (c0, d0) = (c, d);
    ev["split"] = json!("ok");
    ev["zl"] = json!([c, d, patch.len() - 32 - c - d]);
    let blocks = (inflate_zlib(&patch[32..32 + c]), inflate_zlib(&patch[32 + c..32 + c + d]), inflate_zlib(&patch[32 + c + d..]));
    let (ctrl, diff, extra) = match blocks {
        (Ok(a), Ok(b), Ok(c)) => (a, b, c),
        (a, b, c) => {
            // the independent reader rejects a block.  If the library's zlib reads all three, the dispute is between
            // two inflaters and nothing can be concluded from this record ("disputed" -> the check exits 2).
            use cascette_formats::zbsdiff::decompress_zlib;
            let lib_reads_all = [&patch[32..32 + c0], &patch[32 + c0..32 + c0 + d0], &patch[32 + c0 + d0..]]
                .iter()
                .all(|z| matches!(guarded(|| decompress_zlib(z).is_ok()), Ok(true)));
            ev["inflate"] = json!(if lib_reads_all { "disputed" } else { "error" });
            ev["inflate_err"] = json!([a.err(), b.err(), c.err()]);
            return ev;
        }
    };
    if std::env::var_os("VERIF_BSDIFF_XCHECK").is_some() {
        // development aid: the independent inflater and the library's agree
        use cascette_formats::zbsdiff::decompress_zlib;
        assert!(decompress_zlib(&patch[32..32 + c]).ok().as_deref() == Some(&ctrl[..]), "xcheck ctrl");
        assert!(decompress_zlib(&patch[32 + c..32 + c + d]).ok().as_deref() == Some(&diff[..]), "xcheck diff");
        assert!(decompress_zlib(&patch[32 + c + d..]).ok().as_deref() == Some(&extra[..]), "xcheck extra");
    }
    ev["inflate"] = json!("ok");
    if long {
        // TLC integers are 32 bit: a size >= 2^24 is logged as 2^30 (it exceeds every block of this tier either way),
        // a negative size as -1, a seek is clamped to +-2^30 and flagged (seeks do not enter the length judgement)
        let size = |v: i64| if v < 0 { -1 } else if v >= 1 << 24 { 1 << 30 } else { v };
        let mut triples = vec![];
        let mut big = false;
        for t in ctrl.chunks_exact(24) {
            let (x, y, z) = (offtin(&t[0..8]), offtin(&t[8..16]), offtin(&t[16..24]));
            big |= z.unsigned_abs() > 1 << 30;
            triples.push(json!([size(x), size(y), z.clamp(-(1 << 30), 1 << 30)]));
        }
        ev["ctrl_rem"] = json!(ctrl.len() % 24);
        ev["ctrl_big"] = json!(big);
        ev["ctrl3"] = Value::Array(triples);
        ev["dlen"] = json!(diff.len());
        ev["elen"] = json!(extra.len());
    } else {
        ev["ctrl"] = json!(ctrl);
        ev["diff"] = json!(diff);
        ev["extra"] = json!(extra);
    }
    ev
}

const BUILDERS: [&str; 3] = ["simple", "chunked", "optimized"];

fn run_pair(kind: &str, prog: &Value, old: &[u8], new: &[u8], long: bool, em: &Emit) {
    let mut head = json!({"op": "new", "kind": kind, "tier": if long { "long" } else { "short" }, "prog": prog,
                          "oldlen": old.len(), "newlen": new.len(), "newmd5": md5hex(new)});
    if !long {
        head["old"] = json!(old);
        head["new"] = json!(new);
    }
    em.ev(head);
    em.begin(prog);
    let (bss, bufs): (Vec<usize>, Vec<usize>) = if !long {
        (vec![1, 4, 1 << 20], vec![1024, 8192])
    } else if old.len().max(new.len()) <= 8192 {
        (vec![1, 4, 1 << 20], vec![1024, 1500, 8192])
    } else {
        (vec![1, 100, 1 << 20], vec![1024, 1500, 8192])
    };
    // records: (key, cfgs, body)
    let mut recs: Vec<(String, Vec<Value>, Value)> = vec![];
    for b in BUILDERS {
        for &bs in &bss {
            let body = match build(b, bs, old, new) {
                Outcome::Err(e) => json!({"res": {"ok": false, "err": e}}),
                Outcome::Panic(m) => json!({"res": {"ok": false, "panic": m}}),
                Outcome::Ok(patch) => {
                    let mut ev = dissect(&patch, long);
                    ev["res"] = json!({"ok": true});
                    ev["outs"] = outs_json(&apply_all(old, &patch, &bufs), long);
                    ev
                }
            };
            let key = body.to_string();
            if let Some(r) = recs.iter_mut().find(|r| r.0 == key) {
                r.1.push(json!([b, bs]));
            } else {
                recs.push((key, vec![json!([b, bs])], body));
            }
        }
    }
    let n = recs.len();
    for (i, (_, cfgs, mut body)) in recs.into_iter().enumerate() {
        body["op"] = json!("patch");
        body["seq"] = json!(i + 1);
        body["cfgs"] = Value::Array(cfgs);
        em.ev(body);
    }
    em.ev(json!({"op": "end", "n": n}));
}

fn bytes_of(v: &Value) -> Vec<u8> {
    v.as_array().expect("byte array").iter().map(|x| u8::try_from(x.as_u64().expect("byte")).expect("byte")).collect()
}

fn run_arb(prog: &Value, em: &Emit) {
    let old = bytes_of(&prog["old"]);
    let diff = bytes_of(&prog["diff"]);
    let extra = bytes_of(&prog["extra"]);
    let size = prog["size"].as_i64().expect("size");
    let mut ctrl = vec![];
    for t in prog["ctrl"].as_array().expect("ctrl") {
        for k in 0..3 {
            ctrl.extend_from_slice(&offtout(t[k].as_i64().expect("control value")));
        }
    }
    let (zc, zd, ze) = (zlib_stored(&ctrl), zlib_stored(&diff), zlib_stored(&extra));
    let mut patch = b"ZBSDIFF1".to_vec();
    patch.extend_from_slice(&(zc.len() as i64).to_le_bytes());
    patch.extend_from_slice(&(zd.len() as i64).to_le_bytes());
    patch.extend_from_slice(&size.to_le_bytes());
    patch.extend_from_slice(&zc);
    patch.extend_from_slice(&zd);
    patch.extend_from_slice(&ze);
    em.ev(json!({"op": "new", "kind": "arb", "tier": "arb", "prog": prog, "old": old, "ctrl": prog["ctrl"], "diff": diff,
                 "extra": extra, "size": size}));
    em.begin(prog);
    em.ev(json!({"op": "apply", "seq": 1, "outs": outs_json(&apply_all(&old, &patch, &[1024, 8192]), false)}));
    em.ev(json!({"op": "end", "n": 1}));
}

// ---------------------------------------------------------------------------
// seeded pairs
// ---------------------------------------------------------------------------
fn alphabet(k: u64) -> Vec<u8> {
    match k % 10 {
        0..=2 => vec![b'a', b'b'],
        3 => vec![0, 255],
        4 | 5 => b"acgt".to_vec(),
        _ => (0..=255).collect(),
    }
}
fn rand_block(r: &mut Rng, alpha: &[u8], n: usize) -> Vec<u8> {
    (0..n).map(|_| *r.pick(alpha)).collect()
}
fn between(r: &mut Rng, lo: usize, hi: usize) -> usize {
    lo + r.below((hi - lo + 1) as u64) as usize
}
fn block_len(r: &mut Rng, long: bool) -> usize {
    if long {
        match r.below(4) {
            0 => between(r, 1, 64),
            1 => between(r, 65, 4096),
            2 => *r.pick(&[255usize, 256, 257, 511, 512, 1023, 1024, 1025, 8192]),
            _ => between(r, 9, 600),
        }
    } else {
        match r.below(4) {
            0 => between(r, 1, 8),
            1 => between(r, 9, 40),
            2 => *r.pick(&[255usize, 256, 257, 512]),
            _ => between(r, 4, 120),
        }
    }
}
fn gen_pair(tier: &str, seed: u64, idx: u64) -> (Vec<u8>, Vec<u8>) {
    let long = tier == "long";
    let mut r = Rng::new(seed.wrapping_mul(0x2545_F491_4F6C_DD1D) ^ idx.wrapping_mul(0xD6E8_FEB8_6659_FD93) ^ u64::from(long));
    let alpha = alphabet(r.next());
    let len = |r: &mut Rng| -> usize {
        if long {
            match r.below(10) {
                0..=5 => between(r, 1024, 8192),
                _ => between(r, 8193, 65536),
            }
        } else {
            match r.below(20) {
                0 => 0,
                1..=3 => between(r, 1, 16),
                4..=7 => between(r, 17, 120),
                _ => between(r, 121, 900),
            }
        }
    };
    let cap = if long { 65536 } else { 1400 };
    let n = len(&mut r);
    let old = rand_block(&mut r, &alpha, n);
    let mode = r.below(100);
    let mut new;
    if mode < 4 {
        new = vec![];
    } else if mode < 9 {
        new = old.clone();
    } else if mode < 20 {
        let m = len(&mut r);
        new = rand_block(&mut r, &alpha, m);
    } else {
        new = old.clone();
        for _ in 0..=r.below(6) {
            let bl = block_len(&mut r, long);
            let at = r.below(new.len() as u64 + 1) as usize;
            match r.below(8) {
                0 | 6 => {
                    let b = rand_block(&mut r, &alpha, bl);
                    new.splice(at..at, b);
                }
                1 => {
                    let e = (at + bl).min(new.len());
                    new.drain(at..e);
                }
                2 => {
                    let e = (at + bl).min(new.len());
                    let b: Vec<u8> = new.drain(at..e).collect();
                    let to = r.below(new.len() as u64 + 1) as usize;
                    new.splice(to..to, b);
                }
                3 => {
                    let e = (at + bl).min(new.len());
                    let b = new[at..e].to_vec();
                    let to = r.below(new.len() as u64 + 1) as usize;
                    new.splice(to..to, b);
                }
                4 => {
                    for _ in 0..=r.below(12) {
                        if !new.is_empty() {
                            let p = r.below(new.len() as u64) as usize;
                            new[p] = *r.pick(&alpha);
                        }
                    }
                }
                5 => {
                    let e = (at + bl).min(new.len());
                    let b = rand_block(&mut r, &alpha, e - at);
                    new[at..e].copy_from_slice(&b);
                }
                _ => {
                    let b = rand_block(&mut r, &alpha, bl);
                    if r.chance(1, 2) {
                        new.splice(0..0, b);
                    } else {
                        new.extend_from_slice(&b);
                    }
                }
            }
            new.truncate(cap);
        }
    }
    (old, new)
}

fn struct_pair(prog: &Value) -> (Vec<u8>, Vec<u8>) {
    let g = |k: &str| prog[k].as_u64().unwrap_or(0) as usize;
    let alpha = alphabet(prog["alpha"].as_u64().unwrap_or(0));
    let mut r = Rng::new(0xC16 ^ (g("p") as u64) << 40 ^ (g("i") as u64) << 20 ^ g("s") as u64 ^ prog["alpha"].as_u64().unwrap_or(0) << 60);
    let (p, i, s) = (rand_block(&mut r, &alpha, g("p")), rand_block(&mut r, &alpha, g("i")), rand_block(&mut r, &alpha, g("s")));
    let cat = |xs: &[&[u8]]| xs.concat();
    match prog["shape"].as_str().expect("shape") {
        "insert" => (cat(&[&p, &s]), cat(&[&p, &i, &s])),
        "delete" => (cat(&[&p, &i, &s]), cat(&[&p, &s])),
        "move" => (cat(&[&p, &i, &s]), cat(&[&i, &p, &s])),
        "dup" => (cat(&[&p, &i, &s]), cat(&[&p, &i, &s, &i])),
        "subst" => {
            let old = cat(&[&p, &i, &s]);
            let mut new = old.clone();
            if !i.is_empty() {
                new[p.len()] = new[p.len()].wrapping_add(1);
                let last = p.len() + i.len() - 1;
                new[last] = new[last].wrapping_sub(1);
            }
            (old, new)
        }
        x => panic!("driver: unknown shape {x}"),
    }
}

fn run_fixture(prog: &Value, em: &Emit) {
    let dir = std::path::Path::new(prog["dir"].as_str().expect("dir"));
    let name = prog["name"].as_str().expect("name");
    let rd = |ext: &str| std::fs::read(dir.join(format!("{name}.{ext}"))).unwrap_or_else(|e| panic!("driver: fixture {name}.{ext}: {e}"));
    let (old, new, patch) = (rd("old"), rd("new"), rd("zbsdiff"));
    em.ev(json!({"op": "new", "kind": "fixture", "tier": "short", "prog": prog, "oldlen": old.len(), "newlen": new.len(),
                 "newmd5": md5hex(&new), "old": old, "new": new}));
    em.begin(prog);
    let mut ev = dissect(&patch, false);
    ev["res"] = json!({"ok": true});
    ev["outs"] = outs_json(&apply_all(&old, &patch, &[1024, 8192]), false);
    ev["op"] = json!("patch");
    ev["seq"] = json!(1);
    ev["cfgs"] = json!([["foreign", 0]]);
    em.ev(ev);
    em.ev(json!({"op": "end", "n": 1}));
}

fn run_program(prog: &Value, em: &Emit, alphabets: &[(u8, u8)]) {
    match prog["kind"].as_str().expect("kind") {
        "ab" => {
            let named: Vec<(u8, u8)>;
            let alphas: &[(u8, u8)] = if let Some(a) = prog.get("alpha").and_then(Value::as_array) {
                named = vec![(a[0].as_u64().expect("byte") as u8, a[1].as_u64().expect("byte") as u8)];
                &named
            } else {
                alphabets
            };
            for &(x, y) in alphas {
                let conc = |v: &Value| -> Vec<u8> {
                    v.as_array().expect("letters").iter().map(|l| if l.as_u64() == Some(0) { x } else { y }).collect()
                };
                let p = json!({"kind": "ab", "old": prog["old"], "new": prog["new"], "alpha": [x, y]});
                run_pair("ab", &p, &conc(&prog["old"]), &conc(&prog["new"]), false, em);
            }
        }
        "bytes" => run_pair("bytes", prog, &bytes_of(&prog["old"]), &bytes_of(&prog["new"]), false, em),
        "gen" => {
            let tier = prog["tier"].as_str().expect("tier");
            let (old, new) = gen_pair(tier, prog["seed"].as_u64().expect("seed"), prog["idx"].as_u64().expect("idx"));
            run_pair(tier, prog, &old, &new, tier == "long", em);
        }
        "struct" => {
            let (old, new) = struct_pair(prog);
            run_pair("struct", prog, &old, &new, false, em);
        }
        "arb" => run_arb(prog, em),
        "fixture" => run_fixture(prog, em),
        k => panic!("driver: unknown program kind {k}"),
    }
}

fn main() {
    quiet_panics();
    let args: Vec<String> = std::env::args().collect();
    let mut out = Out::from_arg(arg(&args, "--out").as_ref());
    let programs = arg(&args, "--programs").map(|p| read_programs(&p)).unwrap_or_default();
    let alphabets: Vec<(u8, u8)> = arg(&args, "--alphabets")
        .unwrap_or_else(|| "97:98".to_string())
        .split(',')
        .map(|p| {
            let (a, b) = p.split_once(':').expect("alphabet x:y");
            (a.parse().expect("byte"), b.parse().expect("byte"))
        })
        .collect();
    assert!(alphabets.iter().all(|(a, b)| a != b), "driver: the two letters of an alphabet must differ");
    // self-check of the independent codec on a fixed vector (a driver bug must not look like a finding)
    let probe: Vec<u8> = (0..70000u32).map(|i| (i * 7 % 251) as u8).collect();
    assert!(inflate_zlib(&zlib_stored(&probe)).as_deref() == Ok(&probe[..]), "driver: zlib self-check");
    assert!(offtin(&offtout(-5)) == -5 && offtin(&offtout(1 << 40)) == 1 << 40, "driver: offtin self-check");
    let st = run_with_watchdog(programs, &mut out, std::time::Duration::from_secs(60), move |p, em| run_program(p, em, &alphabets));
    out.flush();
    eprintln!("{}", json!({"programs": st.programs, "events": out.events, "hangs": st.hangs, "skipped": st.skipped}));
    if st.skipped > 0 {
        std::process::exit(3);
    }
}
