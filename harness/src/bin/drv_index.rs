//! C05 driver: executes programs on the real local key index (`IndexManager`)
//! and on the real residency database (`ResidencyContainer` over `ResidencyDb`).
//!
//! usage: drv_index --programs <file|-> --out <file|->
//!                  [--random-index N --random-res N --len L] [--dump-programs <file>]
//!
//! The driver only executes and records.  Every event carries the operation,
//! its arguments, the result and the abstract state read back through the
//! public API; the verdict is computed by TLC (spec/trace/T_KvIndex.tla and
//! spec/trace/T_Residency.tla).
//!
//! ## Index programs
//!   {"sys":"index","keys":{"a":7,"b":7,"f":7,"o":12},"locs":{"L0":"1023/1073741823/4294967295",..},
//!    "ops":[{"op":"add","k":"a","alt":0,"loc":"L0"}, ...]}
//! `keys` maps an abstract key name to the bucket it must live in; the driver
//! builds a 16-byte encoding key whose first nine bytes XOR-fold to that bucket
//! (checked against `IndexManager::bucket_for_key`).  `alt` selects one of two
//! 16-byte keys that share the same 9-byte prefix (the index truncates).
//! `locs` names the locations "archive_id/offset/size"; events refer to
//! locations by name so that TLC never sees a number above 2^31.
//!
//! ops: add update status remove flush flush_all save reload clear_bucket clear fill bulk
//!   fill {k,alt,loc,left}: add_entry(k) repeatedly until exactly `left` slots of
//!   the bucket's update section remain (position found through the public
//!   counters only: a flush inside add_entry is visible as a drop of
//!   bucket_entry_count); the event reports the number `n` of add_entry calls.
//!
//! ## Residency programs
//!   {"sys":"res","keys":["a","b","c"],"ops":[{"op":"mark","k":"a"},{"op":"delete","ks":["a"],"pad":10001},..]}
//! ops: mark unmark span cremove delete save reload{ro}
use cascette_client_storage::container::residency::ResidencyContainer;
use cascette_client_storage::container::{AccessMode, Container};
use cascette_client_storage::index::{IndexEntry, IndexManager, UpdateStatus};
use cascette_crypto::EncodingKey;
use serde_json::{Map, Value, json};
use std::collections::{BTreeMap, HashMap};
use verif_harness::*;

const UPD_CAP: usize = 1260; // documented capacity of the update section: 60 pages x 21 entries

// ---------------------------------------------------------------------------
// concretisation (injective; checked when the universe is built)
// ---------------------------------------------------------------------------
fn tag_num(name: &str) -> (u8, u32) {
    let tag = name.as_bytes()[0];
    let n = name[1..].parse::<u32>().unwrap_or(0);
    (tag, n)
}

fn index_key9(name: &str, bucket: u8) -> [u8; 9] {
    if name == "z" {
        assert_eq!(bucket, 0, "the all-zero key lives in bucket 0");
        return [0; 9];
    }
    let (tag, n) = tag_num(name);
    let nb = n.to_be_bytes();
    // first byte scrambled so that key order is unrelated to creation order
    let scr = (n.wrapping_mul(167).wrapping_add(u32::from(tag) * 29) & 0xFF) as u8;
    let mut k = [scr, tag, nb[0], nb[1], nb[2], nb[3], 0xA5, 0x00, 0x00];
    let h = k.iter().fold(0u8, |a, b| a ^ b);
    k[8] = (bucket ^ (h & 0x0F) ^ (h >> 4)) & 0x0F;
    k
}
fn index_key16(k9: &[u8; 9], alt: u64) -> EncodingKey {
    let mut k = [0u8; 16];
    k[..9].copy_from_slice(k9);
    let t = if alt == 0 { 0x11 } else { 0xEE };
    for b in &mut k[9..] {
        *b = t;
    }
    EncodingKey::from_bytes(k)
}

fn res_key16(name: &str) -> [u8; 16] {
    if name == "z" {
        return [0; 16];
    }
    let (tag, n) = tag_num(name);
    let mut k = [0u8; 16];
    if name.len() == 1 {
        // letters a,b share their first 8 bytes (same MurmurHash3 fast-path slot), c.. do not
        let grp = if tag == b'a' || tag == b'b' { 0x42 } else { tag };
        k[..8].copy_from_slice(&[grp; 8]);
        k[8] = tag;
        k[9] = 0x77;
    } else {
        // numbered keys: groups of four share the first 8 bytes; two buckets are used
        let g = (n / 4).to_be_bytes();
        k[..8].copy_from_slice(&[tag, g[0], g[1], g[2], g[3], 0x5A, 0xC3, 0x01]);
        k[8..12].copy_from_slice(&n.to_be_bytes());
        k[12] = tag;
        let h = k.iter().fold(0u8, |a, b| a ^ b);
        let want = if tag == b'x' { (n % 16) as u8 } else { (n % 2) as u8 * 9 };
        k[15] = (want ^ (h & 0x0F) ^ (h >> 4)) & 0x0F;
    }
    k
}

fn status_of(s: &str) -> UpdateStatus {
    match s {
        "normal" => UpdateStatus::Normal,
        "delete" => UpdateStatus::Delete,
        "hdr" => UpdateStatus::HeaderNonResident,
        "data" => UpdateStatus::DataNonResident,
        other => panic!("driver: unknown status {other}"),
    }
}

// one runtime per driver thread and one table of pad keys per process (both are costly to build per program)
thread_local! {
    static RT: tokio::runtime::Runtime = rt();
}
fn pad_keys(n: usize) -> &'static [[u8; 16]] {
    static PADS: std::sync::OnceLock<Vec<[u8; 16]>> = std::sync::OnceLock::new();
    let v = PADS.get_or_init(|| (0..10_001u32).map(|i| res_key16(&format!("x{i}"))).collect());
    assert!(n <= v.len(), "driver: pad larger than the pad table");
    &v[..n]
}

fn scratch() -> std::path::PathBuf {
    let p = std::path::Path::new("/dev/shm");
    if p.is_dir() { p.to_path_buf() } else { std::env::temp_dir() }
}

// ---------------------------------------------------------------------------
// index
// ---------------------------------------------------------------------------
struct IndexWorld {
    names: Vec<(String, u8, [u8; 9])>,
    by_name: HashMap<String, usize>,
    by_key9: HashMap<[u8; 9], String>,
    locs: BTreeMap<String, (u16, u32, u32)>,
    loc_names: HashMap<(u16, u32, u32), String>,
}
impl IndexWorld {
    fn new(prog: &Value) -> Self {
        let mut names = vec![];
        let mut by_key9 = HashMap::new();
        for (k, b) in prog["keys"].as_object().expect("keys object") {
            let b = b.as_u64().expect("bucket") as u8;
            let k9 = index_key9(k, b);
            for alt in 0..2 {
                assert_eq!(IndexManager::bucket_for_key(&index_key16(&k9, alt)), b, "driver: key {k} is not in bucket {b}");
            }
            assert!(by_key9.insert(k9, k.clone()).is_none(), "driver: concretisation of {k} collides");
            names.push((k.clone(), b, k9));
        }
        let mut locs = BTreeMap::new();
        let mut loc_names = HashMap::new();
        for (n, v) in prog["locs"].as_object().expect("locs object") {
            let p: Vec<u64> = v.as_str().expect("loc string").split('/').map(|x| x.parse().expect("loc number")).collect();
            let l = (p[0] as u16, p[1] as u32, p[2] as u32);
            locs.insert(n.clone(), l);
            assert!(loc_names.insert(l, n.clone()).is_none(), "driver: location {n} collides");
        }
        let by_name = names.iter().enumerate().map(|(i, (n, _, _))| (n.clone(), i)).collect();
        IndexWorld { names, by_name, by_key9, locs, loc_names }
    }
    fn key(&self, op: &Value) -> EncodingKey {
        let k = op["k"].as_str().expect("k");
        let alt = op["alt"].as_u64().unwrap_or(0);
        let i = *self.by_name.get(k).unwrap_or_else(|| panic!("driver: key {k} not declared"));
        index_key16(&self.names[i].2, alt)
    }
    fn loc(&self, op: &Value) -> (u16, u32, u32) {
        let l = op["loc"].as_str().expect("loc");
        *self.locs.get(l).unwrap_or_else(|| panic!("driver: location {l} not declared"))
    }
    fn loc_name(&self, e: &IndexEntry) -> String {
        let l = (e.archive_id(), e.archive_offset(), e.size);
        self.loc_names.get(&l).cloned().unwrap_or_else(|| format!("?{}/{}/{}", l.0, l.1, l.2))
    }
    fn observe(&self, ix: &IndexManager) -> Value {
        let mut look = Map::new();
        let mut look1 = Map::new();
        let mut has = Map::new();
        for (n, _, k9) in &self.names {
            for (alt, m) in [(0u64, &mut look), (1u64, &mut look1)] {
                let k = index_key16(k9, alt);
                let v = match ix.lookup(&k) {
                    Some(e) if e.key == *k9 => self.loc_name(&e),
                    Some(e) => format!("?wrongkey:{}", hex(&e.key)),
                    None => "-".to_string(),
                };
                m.insert(n.clone(), json!(v));
            }
            has.insert(n.clone(), json!(ix.has_entry(&index_key16(k9, 1))));
        }
        let mut ent = Map::new();
        let mut niter = 0u64;
        let mut badbucket = 0u64;
        for (b, e) in ix.iter_entries() {
            niter += 1;
            let name = self.by_key9.get(&e.key).cloned().unwrap_or_else(|| format!("?{}", hex(&e.key)));
            if let Some(&i) = self.by_name.get(&name)
                && self.names[i].1 != b
            {
                badbucket += 1;
            }
            ent.insert(name, json!(self.loc_name(&e)));
        }
        json!({"look": look, "look1": look1, "has": has, "ent": ent, "niter": niter, "count": ix.entry_count(), "badbucket": badbucket})
    }
}

// results are always strings, so that the monitor can compare them with anything (TLC refuses to
// compare a boolean with a string); a panic of the code under test is the result "panic"
fn ok_err<T, E>(r: &Result<T, E>) -> Value {
    json!(if r.is_ok() { "ok" } else { "err" })
}
fn tf(b: bool) -> Value {
    json!(if b { "true" } else { "false" })
}
fn set_result(ev: &mut Value, r: Result<Value, String>) {
    match r {
        Ok(v) => ev["res"] = v,
        Err(m) => {
            ev["res"] = json!("panic");
            ev["panic"] = json!(m.chars().take(160).collect::<String>());
        }
    }
}

fn run_index(prog: &Value, out: &Emit) {
    RT.with(|rt| run_index_rt(prog, out, rt));
}
fn run_index_rt(prog: &Value, out: &Emit, rt: &tokio::runtime::Runtime) {
    let dir = tempfile::tempdir_in(scratch()).expect("tempdir");
    let w = IndexWorld::new(prog);
    let mut ix = IndexManager::new(dir.path());
    out.ev(json!({"op": "new", "sys": "index", "keys": prog["keys"], "locs": prog["locs"]}));
    let mut seq = 0u64;
    for op in prog["ops"].as_array().unwrap() {
        let name_ = op["op"].as_str().unwrap();
        let mut ev = op.clone();
        out.begin(op);
        let mut extra: Option<(String, Value)> = None;
        let r = guarded(|| -> Value {
            match name_ {
                "add" => {
                    let (id, off, sz) = w.loc(op);
                    ok_err(&ix.add_entry(&w.key(op), id, off, sz))
                }
                "update" => {
                    let (id, off, sz) = w.loc(op);
                    tf(ix.update_entry(&w.key(op), id, off, sz))
                }
                "status" => tf(ix.update_entry_status(&w.key(op), status_of(op["st"].as_str().unwrap()))),
                "remove" => tf(ix.remove_entry(&w.key(op))),
                "flush" => ok_err(&ix.flush_updates_for_bucket(op["b"].as_u64().unwrap() as u8)),
                "flush_all" => ok_err(&ix.flush_all_updates()),
                "save" => ok_err(&ix.save_all()),
                "reload" => {
                    let mut fresh = IndexManager::new(dir.path());
                    let r = rt.block_on(fresh.load_all());
                    ix = fresh;
                    ok_err(&r)
                }
                "clear_bucket" => {
                    let n = ix.clear_bucket(op["b"].as_u64().unwrap() as u8);
                    extra = Some(("cnt".to_string(), json!(n)));
                    json!("ok")
                }
                "clear" => {
                    ix.clear();
                    json!("ok")
                }
                "bulk" => {
                    // add_entry for the keys <pre><from> .. <pre><from+n-1> (all declared in the universe), same location
                    let pre = op["pre"].as_str().unwrap();
                    let from = op["from"].as_u64().unwrap();
                    let n = op["n"].as_u64().unwrap();
                    let (id, off, sz) = w.loc(op);
                    let mut res = "ok";
                    for i in from..from + n {
                        let k = json!({"k": format!("{pre}{i}"), "alt": op["alt"]});
                        if ix.add_entry(&w.key(&k), id, off, sz).is_err() {
                            res = "err";
                            break;
                        }
                    }
                    json!(res)
                }
                "fill" => {
                    let key = w.key(op);
                    let b = IndexManager::bucket_for_key(&key);
                    let (id, off, sz) = w.loc(op);
                    let left = op["left"].as_u64().unwrap() as usize;
                    let mut n = 0u64;
                    let mut res = "ok";
                    // phase 1: add until a flush inside add_entry is seen (the section then holds one entry)
                    let mut seen_flush = false;
                    for _ in 0..(UPD_CAP + 2) {
                        let before = ix.bucket_entry_count(b);
                        if ix.add_entry(&key, id, off, sz).is_err() {
                            res = "err";
                            break;
                        }
                        n += 1;
                        if ix.bucket_entry_count(b) != before + 1 {
                            seen_flush = true;
                            break;
                        }
                    }
                    // phase 2: one entry is pending; leave exactly `left` free slots
                    if seen_flush && res == "ok" {
                        for _ in 0..(UPD_CAP - 1 - left.min(UPD_CAP - 1)) {
                            if ix.add_entry(&key, id, off, sz).is_err() {
                                res = "err";
                                break;
                            }
                            n += 1;
                        }
                    } else if res == "ok" {
                        res = "noflush";
                    }
                    extra = Some(("n".to_string(), json!(n)));
                    json!(res)
                }
                other => panic!("driver: unknown op {other}"),
            }
        });
        seq += 1;
        ev["seq"] = json!(seq);
        if let Some((k, v)) = extra {
            ev[k] = v;
        }
        set_result(&mut ev, r);
        match guarded(|| w.observe(&ix)) {
            Ok(o) => ev["obs"] = o,
            Err(m) => {
                ev["obs"] = json!({"look": {}, "look1": {}, "has": {}, "ent": {}, "niter": -1, "count": -1, "badbucket": 0, "panic": m});
                out.ev(ev);
                return;
            }
        }
        out.ev(ev);
    }
}

// ---------------------------------------------------------------------------
// residency
// ---------------------------------------------------------------------------
fn res_observe(c: &ResidencyContainer, rt: &tokio::runtime::Runtime, names: &[(String, [u8; 16])], by_key: &HashMap<[u8; 16], String>, pads: &[[u8; 16]], check_pads: bool) -> Value {
    let mut res = Map::new();
    let mut q = Map::new();
    for (n, k) in names {
        res.insert(n.clone(), json!(c.is_resident(k)));
        q.insert(n.clone(), match rt.block_on(c.query(k)) {
            Ok(b) => tf(b),
            Err(_) => json!("err"),
        });
    }
    let raw = c.scan_keys();
    let mut scan: Vec<String> = raw.iter().map(|k| by_key.get(k).cloned().unwrap_or_else(|| format!("?{}", hex(k)))).collect();
    scan.sort();
    // the never-marked pad keys of a big delete: probed after the delete itself and after every save / reopen
    let padres = if check_pads { pads.iter().filter(|k| c.is_resident(k)).count() } else { 0 };
    json!({"res": res, "q": q, "scan": scan, "nscan": raw.len(), "count": c.resident_count(), "padres": padres})
}

fn run_res(prog: &Value, out: &Emit) {
    RT.with(|rt| run_res_rt(prog, out, rt));
}
fn run_res_rt(prog: &Value, out: &Emit, rt: &tokio::runtime::Runtime) {
    let dir = tempfile::tempdir_in(scratch()).expect("tempdir");
    let mut names: Vec<(String, [u8; 16])> = vec![];
    let mut by_key = HashMap::new();
    for k in prog["keys"].as_array().expect("keys array") {
        let n = k.as_str().unwrap().to_string();
        let key = res_key16(&n);
        assert!(by_key.insert(key, n.clone()).is_none(), "driver: concretisation of {n} collides");
        names.push((n, key));
    }
    let maxpad = prog["ops"].as_array().unwrap().iter().map(|o| o["pad"].as_u64().unwrap_or(0)).max().unwrap_or(0);
    let pads: &[[u8; 16]] = pad_keys(maxpad as usize);
    // pad keys carry the tag 'x', universe keys never do
    assert!(names.iter().all(|(n, _)| !n.starts_with('x')), "driver: universe key named like a pad key");
    let key_of = |n: &str| -> [u8; 16] { names.iter().find(|(x, _)| x == n).unwrap_or_else(|| panic!("driver: key {n} not declared")).1 };
    let open = |ro: bool| -> (ResidencyContainer, Value) {
        let mode = if ro { AccessMode::ReadOnly } else { AccessMode::ReadWrite };
        let mut c = ResidencyContainer::new("wow".to_string(), mode, dir.path().to_path_buf());
        let r = rt.block_on(c.initialize());
        (c, ok_err(&r))
    };
    let (mut c, _) = open(false);
    out.ev(json!({"op": "new", "sys": "res", "keys": prog["keys"]}));
    let mut seq = 0u64;
    for op in prog["ops"].as_array().unwrap() {
        let name_ = op["op"].as_str().unwrap();
        let mut ev = op.clone();
        out.begin(op);
        let r = guarded(|| -> Value {
            match name_ {
                "mark" => ok_err(&c.mark_resident(&key_of(op["k"].as_str().unwrap()))),
                "unmark" => ok_err(&c.mark_non_resident(&key_of(op["k"].as_str().unwrap()))),
                "span" => ok_err(&c.mark_span_non_resident(
                    &key_of(op["k"].as_str().unwrap()),
                    op["off"].as_i64().unwrap_or(0) as i32,
                    op["len"].as_i64().unwrap_or(1) as i32,
                )),
                "cremove" => ok_err(&rt.block_on(c.remove(&key_of(op["k"].as_str().unwrap())))),
                "delete" => {
                    let mut ks: Vec<[u8; 16]> = op["ks"].as_array().unwrap().iter().map(|k| key_of(k.as_str().unwrap())).collect();
                    let pad = op["pad"].as_u64().unwrap_or(0) as usize;
                    // interleave: universe keys first, in the middle and last positions do not matter to a set; keep them first
                    ks.extend_from_slice(&pads[..pad]);
                    ok_err(&c.delete_keys(&ks))
                }
                "save" => ok_err(&c.flush()),
                "reload" => {
                    let (fresh, r) = open(op["ro"].as_bool().unwrap_or(false));
                    c = fresh;
                    r
                }
                other => panic!("driver: unknown op {other}"),
            }
        });
        seq += 1;
        ev["seq"] = json!(seq);
        set_result(&mut ev, r);
        let check_pads = matches!(name_, "save" | "reload") || op["pad"].as_u64().unwrap_or(0) > 0;
        match guarded(|| res_observe(&c, rt, &names, &by_key, pads, check_pads)) {
            Ok(o) => ev["obs"] = o,
            Err(m) => {
                ev["obs"] = json!({"res": {}, "q": {}, "scan": [], "nscan": -1, "count": -1, "padres": 0, "panic": m});
                out.ev(ev);
                return;
            }
        }
        out.ev(ev);
    }
}

fn run_program(prog: &Value, out: &Emit) {
    match prog["sys"].as_str() {
        Some("index") => run_index(prog, out),
        Some("res") => run_res(prog, out),
        other => panic!("driver: unknown sys {other:?}"),
    }
}

// ---------------------------------------------------------------------------
// seeded random programs
// ---------------------------------------------------------------------------
const LOCS: [(&str, &str); 8] = [
    ("L0", "1023/1073741823/4294967295"),
    ("L1", "5/4096/100"),
    ("L2", "0/0/0"),
    ("L3", "1/0/1"),
    ("L4", "1023/0/0"),
    ("L5", "0/1073741823/1"),
    ("L6", "256/536870912/2147483648"),
    ("L7", "3/1073741822/65536"),
];

/// kind 0: long history without fills (the 1260 boundary is reached by plain mutations)
/// kind 1: shorter history with `fill` operations that park the update section next to the boundary
fn random_index(rng: &mut Rng, len: usize, kind: u64) -> Value {
    let main_b = rng.below(16);
    let other_b = (main_b + 1 + rng.below(15)) % 16;
    let nk = 6 + rng.below(18);
    let mut keys = Map::new();
    let mut names = vec![];
    for i in 0..nk {
        let n = format!("k{i}");
        keys.insert(n.clone(), json!(main_b));
        names.push(n);
    }
    for i in 0..3 {
        let n = format!("o{i}");
        keys.insert(n.clone(), json!(other_b));
        names.push(n);
    }
    keys.insert("f".into(), json!(main_b));
    let locs: Map<String, Value> = LOCS.iter().map(|(a, b)| ((*a).to_string(), json!(b))).collect();
    let mut ops = vec![];
    for _ in 0..len {
        let k = rng.pick(&names).clone();
        let alt = rng.below(2);
        let loc = LOCS[rng.below(8) as usize].0;
        let b = if rng.chance(4, 5) { main_b } else { other_b };
        let x = rng.below(1000);
        let op = if kind == 1 && x < 40 {
            json!({"op": "fill", "k": "f", "alt": 0, "loc": loc, "left": rng.below(4)})
        } else {
            match x % 100 {
                0..=34 => json!({"op": "add", "k": k, "alt": alt, "loc": loc}),
                35..=54 => json!({"op": "update", "k": k, "alt": alt, "loc": loc}),
                55..=64 => json!({"op": "status", "k": k, "alt": alt, "st": *rng.pick(&["normal", "delete", "hdr", "data"])}),
                65..=82 => json!({"op": "remove", "k": k, "alt": alt}),
                83..=86 => json!({"op": "flush", "b": b}),
                87..=88 => json!({"op": "flush_all"}),
                89..=92 => json!({"op": "save"}),
                93..=96 => json!({"op": "reload"}),
                97..=98 => json!({"op": "clear_bucket", "b": b}),
                _ => {
                    if rng.chance(1, 4) {
                        json!({"op": "clear"})
                    } else {
                        json!({"op": "save"})
                    }
                }
            }
        };
        ops.push(op);
    }
    json!({"sys": "index", "keys": keys, "locs": locs, "ops": ops})
}

/// A sorted section around the 64 KiB boundary where the update section of the file is aligned
/// (40 bytes of headers + 18 bytes per entry: 3638 entries end below it, 3639 above), observed at few points.
fn big_index(rng: &mut Rng, idx: u64) -> Value {
    let b = rng.below(16);
    // the first two programs sit exactly on the first / second boundary and follow a fixed script
    let n = match idx {
        0 => 3639,
        1 => 7280,
        _ => *rng.pick(&[3637u64, 3638, 3639, 3639, 3640, 3700, 7279, 7280, 7280]),
    };
    let extra = 6u64;
    let mut keys = Map::new();
    for i in 0..n + extra {
        keys.insert(format!("q{i}"), json!(b));
    }
    let locs: Map<String, Value> = LOCS.iter().map(|(a, b)| ((*a).to_string(), json!(b))).collect();
    let mut ops = vec![json!({"op": "bulk", "pre": "q", "from": 0, "n": n, "alt": 0, "loc": "L1"})];
    if idx < 2 {
        // exactly n sorted entries plus a non-empty update section in the saved file, several times
        let new = format!("q{n}");
        let old = format!("q{}", rng.below(n));
        let old2 = format!("q{}", rng.below(n));
        ops.extend([
            json!({"op": "flush", "b": b}),
            json!({"op": "reload"}),
            json!({"op": "update", "k": old, "alt": 1, "loc": "L0"}),
            json!({"op": "save"}),
            json!({"op": "reload"}),
            json!({"op": "add", "k": new, "alt": 0, "loc": "L6"}),
            json!({"op": "remove", "k": old2, "alt": 0}),
            json!({"op": "save"}),
            json!({"op": "reload"}),
            json!({"op": "flush", "b": b}),
            json!({"op": "reload"}),
        ]);
        return json!({"sys": "index", "keys": keys, "locs": locs, "ops": ops});
    }
    // leave the bulk in the sorted section (mostly) or partly in the update section
    ops.push(if rng.chance(3, 4) { json!({"op": "flush", "b": b}) } else { json!({"op": "save"}) });
    ops.push(json!({"op": "reload"}));
    for _ in 0..12 {
        let old = format!("q{}", rng.below(n));
        let new = format!("q{}", n + rng.below(extra));
        let loc = LOCS[rng.below(8) as usize].0;
        let alt = rng.below(2);
        ops.push(match rng.below(10) {
            0..=1 => json!({"op": "add", "k": new, "alt": alt, "loc": loc}),
            2..=3 => json!({"op": "update", "k": old, "alt": alt, "loc": loc}),
            4 => json!({"op": "remove", "k": old, "alt": alt}),
            5 => json!({"op": "flush", "b": b}),
            6..=7 => json!({"op": "save"}),
            _ => json!({"op": "reload"}),
        });
    }
    ops.push(json!({"op": "save"}));
    ops.push(json!({"op": "reload"}));
    json!({"sys": "index", "keys": keys, "locs": locs, "ops": ops})
}

fn random_res(rng: &mut Rng, len: usize, big: bool) -> Value {
    let nk = 8 + rng.below(72);
    let names: Vec<String> = (0..nk).map(|i| format!("k{i}")).chain(["z".to_string()]).collect();
    let mut ops = vec![];
    let big_at = if big { rng.below(len as u64) as usize } else { usize::MAX };
    for i in 0..len {
        let k = rng.pick(&names).clone();
        let op = if i == big_at {
            let m = 1 + rng.below(nk);
            let ks: Vec<String> = (0..m).map(|_| rng.pick(&names).clone()).collect();
            json!({"op": "delete", "ks": ks, "pad": 10_001})
        } else {
            match rng.below(100) {
                0..=44 => json!({"op": "mark", "k": k}),
                45..=59 => json!({"op": "unmark", "k": k}),
                60..=69 => json!({"op": "span", "k": k, "off": rng.below(1 << 20), "len": 1 + rng.below(1 << 20)}),
                70..=73 => json!({"op": "cremove", "k": k}),
                74..=83 => {
                    let m = 1 + rng.below(6);
                    let ks: Vec<String> = (0..m).map(|_| rng.pick(&names).clone()).collect();
                    json!({"op": "delete", "ks": ks, "pad": 0})
                }
                84..=91 => json!({"op": "save"}),
                92..=97 => json!({"op": "reload", "ro": false}),
                _ => json!({"op": "reload", "ro": true}),
            }
        };
        ops.push(op);
    }
    json!({"sys": "res", "keys": names, "ops": ops})
}

fn main() {
    quiet_panics();
    let args: Vec<String> = std::env::args().collect();
    let mut out = Out::from_arg(arg(&args, "--out").as_ref());
    let mut programs = vec![];
    if let Some(p) = arg(&args, "--programs") {
        programs = read_programs(&p);
    }
    let nri = arg_u64(&args, "--random-index", 0);
    let nrr = arg_u64(&args, "--random-res", 0);
    if nri + nrr + arg_u64(&args, "--big", 0) + arg_u64(&args, "--long", 0) > 0 {
        let mut rng = Rng::new(seed_from_env());
        let len = arg_u64(&args, "--len", 300) as usize;
        let longlen = arg_u64(&args, "--long-len", 3000) as usize;
        let nlong = arg_u64(&args, "--long", 0);
        let mut dump = arg(&args, "--dump-programs").map(|p| Out::to_path(std::path::Path::new(&p)));
        let mut push = |prog: Value, programs: &mut Vec<Value>| {
            if let Some(d) = dump.as_mut() {
                d.ev(&prog);
            }
            programs.push(prog);
        };
        for _ in 0..nlong {
            let p = random_index(&mut rng, longlen, 0);
            push(p, &mut programs);
        }
        for i in 0..arg_u64(&args, "--big", 0) {
            let p = big_index(&mut rng, i);
            push(p, &mut programs);
        }
        for _ in 0..nri {
            let p = random_index(&mut rng, len, 1);
            push(p, &mut programs);
        }
        for i in 0..nrr {
            let p = random_res(&mut rng, len, i % 8 == 0);
            push(p, &mut programs);
        }
    }
    let st = run_with_watchdog(programs, &mut out, std::time::Duration::from_secs(10), run_program);
    out.flush();
    eprintln!("{}", json!({"programs": st.programs, "events": out.events, "hangs": st.hangs, "skipped": st.skipped}));
    if st.skipped > 0 {
        std::process::exit(3);
    }
}
