//! X04 driver: the typed / content-addressed cache layer of cascette-cache
//! (key.rs, stats.rs, ngdp.rs, cdn.rs, traits.rs InvalidationStrategy, config.rs warming).
//!
//! usage: drv_typedcache --programs <file|-> --out <file|->
//!
//! A program is {"kind": K, "cfg": {...}, "keys": [...], "ops": [...]}; K selects the component:
//!
//!  "keys"  typed keys (cfg.kt = ribbit|config|index|manifest|range|root|encoding|block|blte|content) as
//!          OBJECTS held in numbered slots, optionally in front of a roomy MemoryCache/DiskCache (cfg.back):
//!            mk{s,f}  slot s := key built by the type's constructor from the field list f
//!            set{s,i,v}  assign public field i (1-based, declaration order) of slot s
//!            clone{s,t}  slot t := slot s .clone()
//!            obs      for every live slot: as_cache_key(), Display, fast_hash(), hash_key(), std Hash (SipHash with
//!                     fixed keys), and == for every pair of slots
//!            put{s,n} get{s} contains{s} remove{s}   cache call with the slot's key (the event also logs "name" =
//!                     the slot's as_cache_key() read just before the call)
//!            probe    one get per field tuple of "keys", each with a freshly constructed key
//!  "met"   a bare AtomicCacheMetrics: mget{hit} mput{n} mrem{n} mevi{n} mexp{n} mbatch{hits:[..]} mreset;
//!          every event carries snapshot() and fast_snapshot() (a counter above 2^30 is logged as -1)
//!  "blk"   BlteBlockCache + ContentAddressedCache (+ CdnContentCache) over MemoryCache<BlteBlockKey>
//!            putb{c,i,d,n} getb{c,i,d} meta{c} evold{age:"zero"|"huge"} putv{c,as} getv{c} getf{c} tick probe
//!  "arc"   ArchiveCache (+ CdnArchiveCache) over MemoryCache<ArchiveRangeKey>
//!            putr{a,o,l,n} getr{a,o,l} isc{a,o,l} ovl{a,o,l} getf{a,o,l} meta{a} tick probe   (o = number, -1 = u64::MAX)
//!  "res"   NgdpResolutionCache (+ CdnNgdpResolutionCache)
//!            croot{r,as} res{r,p} cenc{e,as} rese{e,c} chain{r,e,p} fb{r,p} fcfg{h} (CdnClient::fetch_config)
//!  "inv"   pure decisions: sinv{strat,ent,size,bytes} gttl{strat} wval{en,maxe}
//!
//! Events: {"op":"new","kind":..,"cfg":..,"keys":..,...,"res":{"ok":true}} starts a run, then one event per operation
//! (the operation's fields + "seq" + "res" + the component's own books read back after the call).
//! Nothing here decides anything: spec/trace/T_TypedCache.tla (TLC) judges the events.
use bytes::Bytes;
use cascette_cache::config::{CacheConfig, CacheWarmingConfig, DiskCacheConfig, MemoryCacheConfig};
use cascette_cache::key::*;
use cascette_cache::traits::{AsyncCache, CacheEntry, InvalidationStrategy};
use cascette_cache::{
    ArchiveCache, AtomicCacheMetrics, BlteBlockCache, CdnArchiveCache, CdnClient, CdnConfig, CdnContentCache,
    CdnNgdpResolutionCache, ContentAddressedCache, DiskCache, MemoryCache, NgdpCacheError, NgdpResolutionCache,
    NgdpResolutionConfig, NgdpValidationHooks,
};
use cascette_crypto::{ContentKey, EncodingKey, FileDataId};
use serde_json::{Value, json};
use std::collections::BTreeMap;
use std::hash::{Hash, Hasher};
use std::sync::Arc;
use std::time::Duration;
use verif_harness::*;

const SHORT_TTL: Duration = Duration::from_millis(2);
const LONG_TTL: Duration = Duration::from_secs(3600);
const TICK: Duration = Duration::from_millis(10);
const MOCK: &[u8] = b"mock content data"; // what cdn.rs's MockHttpClient::get answers

// --------------------------------------------------------------------------- small helpers
fn value_bytes(v: u64, n: usize) -> Vec<u8> {
    Rng::new(v.wrapping_mul(0x1_0000_01B3) ^ 0x5804).bytes(n)
}
fn small(x: u64) -> Value {
    if x <= (1 << 30) { json!(x) } else { json!(-1) }
}
fn id16(id: &str) -> [u8; 16] {
    // "c1".."c9" / "k1".."k9": sixteen copies of 0x11 * digit
    let d = id[1..].parse::<u8>().unwrap_or_else(|_| panic!("driver: bad key id {id}"));
    [d.wrapping_mul(0x11); 16]
}
fn ck(id: &str) -> ContentKey {
    ContentKey::from_bytes(id16(id))
}
fn ek(id: &str) -> EncodingKey {
    EncodingKey::from_bytes(id16(id))
}
fn s(v: &Value) -> String {
    v.as_str().unwrap_or_else(|| panic!("driver: string expected, got {v}")).to_string()
}
fn opt_s(v: &Value) -> Option<String> {
    let a = v.as_array().unwrap_or_else(|| panic!("driver: option (list) expected, got {v}"));
    a.first().map(s)
}
fn num<T: std::str::FromStr>(v: &Value) -> T {
    let t = s(v);
    t.parse::<T>().unwrap_or_else(|_| panic!("driver: number expected, got {t}"))
}
fn opt_num<T: std::str::FromStr>(v: &Value) -> Option<T> {
    let a = v.as_array().unwrap_or_else(|| panic!("driver: option (list) expected, got {v}"));
    a.first().map(num::<T>)
}
fn b(v: &Value) -> bool {
    v.as_bool().unwrap_or_else(|| panic!("driver: bool expected, got {v}"))
}
fn std_hash<T: Hash>(t: &T) -> String {
    #[allow(deprecated)]
    let mut h = std::hash::SipHasher::new(); // fixed keys: equal inputs <=> equal outputs across calls
    t.hash(&mut h);
    h.finish().to_string()
}
fn get_res<E: std::fmt::Display>(r: Result<Option<Bytes>, E>) -> Value {
    match r {
        Ok(None) => json!({"hit": false}),
        Ok(Some(b)) => json!({"hit": true, "n": b.len(), "h": md5hex(&b)}),
        Err(e) => json!({"err": "other", "msg": e.to_string()}),
    }
}
fn err_class(e: &NgdpCacheError) -> Value {
    let c = match e {
        NgdpCacheError::ContentValidationFailed(_) => "validation",
        NgdpCacheError::ParseFailed(_) => "parse",
        NgdpCacheError::NetworkError(_) => "network",
        NgdpCacheError::CacheFull => "full",
        _ => "other",
    };
    json!({"err": c, "msg": e.to_string().chars().take(160).collect::<String>()})
}
fn nget_res(r: Result<Option<Bytes>, NgdpCacheError>) -> Value {
    match r {
        Ok(None) => json!({"hit": false}),
        Ok(Some(b)) => json!({"hit": true, "n": b.len(), "h": md5hex(&b)}),
        Err(e) => err_class(&e),
    }
}
fn nunit_res(r: Result<(), NgdpCacheError>) -> Value {
    match r {
        Ok(()) => json!({"ok": true}),
        Err(e) => err_class(&e),
    }
}
fn ttl_of(class: &str) -> Duration {
    match class {
        "short" => SHORT_TTL,
        _ => LONG_TTL,
    }
}
fn scratch() -> std::path::PathBuf {
    let p = std::path::Path::new("/dev/shm");
    if p.is_dir() { p.to_path_buf() } else { std::env::temp_dir() }
}
fn mem_cfg(maxe: usize, dttl: &str) -> MemoryCacheConfig {
    MemoryCacheConfig { max_entries: maxe, max_memory_bytes: None, default_ttl: Some(ttl_of(dttl)), ..MemoryCacheConfig::default() }
}
fn cdn_client(urls: u64) -> Arc<CdnClient> {
    let mut c = CdnConfig::default();
    if urls == 0 {
        c.cdn_urls.clear();
    }
    Arc::new(CdnClient::new(c))
}
fn cdn_books(c: &CdnClient) -> Value {
    match c.metrics() {
        Ok(m) => json!({"req": small(m.total_requests), "ok": small(m.successful_requests), "fail": small(m.failed_requests)}),
        Err(e) => json!({"err": e.to_string()}),
    }
}
/// run one operation: panics become {"outcome":"panic"}
fn call(out: &Emit, op: &Value, f: impl FnOnce() -> Value) -> Value {
    out.begin(op);
    match guarded(f) {
        Ok(v) => v,
        Err(m) => outcome_panic(&m),
    }
}

// --------------------------------------------------------------------------- kind "keys"
trait TK: CacheKey + std::fmt::Display + 'static + Sized {
    fn mk(f: &[Value]) -> Self;
    fn set(&mut self, i: usize, v: &Value);
}
impl TK for RibbitKey {
    fn mk(f: &[Value]) -> Self {
        match opt_s(&f[2]) {
            None => RibbitKey::new(s(&f[0]), s(&f[1])),
            Some(p) => RibbitKey::with_product(s(&f[0]), s(&f[1]), p),
        }
    }
    fn set(&mut self, i: usize, v: &Value) {
        match i {
            1 => self.endpoint = s(v),
            2 => self.region = s(v),
            3 => self.product = opt_s(v),
            _ => panic!("driver: field {i}"),
        }
    }
}
impl TK for ConfigKey {
    fn mk(f: &[Value]) -> Self {
        ConfigKey::new(s(&f[0]), s(&f[1]))
    }
    fn set(&mut self, i: usize, v: &Value) {
        match i {
            1 => self.config_type = s(v),
            2 => self.hash = s(v),
            _ => panic!("driver: field {i}"),
        }
    }
}
impl TK for ArchiveIndexKey {
    fn mk(f: &[Value]) -> Self {
        ArchiveIndexKey::new(s(&f[0]), s(&f[1]))
    }
    fn set(&mut self, i: usize, v: &Value) {
        match i {
            1 => self.archive_name = s(v),
            2 => self.index_hash = s(v),
            _ => panic!("driver: field {i}"),
        }
    }
}
impl TK for ManifestKey {
    fn mk(f: &[Value]) -> Self {
        match opt_s(&f[2]) {
            None => ManifestKey::new(s(&f[0]), ck(&s(&f[1]))),
            Some(v) => ManifestKey::with_version(s(&f[0]), ck(&s(&f[1])), v),
        }
    }
    fn set(&mut self, i: usize, v: &Value) {
        match i {
            1 => self.manifest_type = s(v),
            2 => self.content_key = ck(&s(v)),
            3 => self.version = opt_s(v),
            _ => panic!("driver: field {i}"),
        }
    }
}
impl TK for ArchiveRangeKey {
    fn mk(f: &[Value]) -> Self {
        ArchiveRangeKey::new(s(&f[0]), num::<u64>(&f[1]), num::<u32>(&f[2]))
    }
    fn set(&mut self, i: usize, v: &Value) {
        match i {
            1 => self.archive_id = s(v),
            2 => self.start_offset = num(v),
            3 => self.length = num(v),
            _ => panic!("driver: field {i}"),
        }
    }
}
impl TK for RootFileKey {
    fn mk(f: &[Value]) -> Self {
        match (opt_num::<u8>(&f[2]), b(&f[1])) {
            (Some(v), p) => RootFileKey::with_version(ck(&s(&f[0])), p, v),
            (None, true) => RootFileKey::new_parsed(ck(&s(&f[0]))),
            (None, false) => RootFileKey::new_raw(ck(&s(&f[0]))),
        }
    }
    fn set(&mut self, i: usize, v: &Value) {
        match i {
            1 => self.content_key = ck(&s(v)),
            2 => self.is_parsed = b(v),
            3 => self.version = opt_num(v),
            _ => panic!("driver: field {i}"),
        }
    }
}
impl TK for EncodingFileKey {
    fn mk(f: &[Value]) -> Self {
        match (opt_num::<u32>(&f[1]), b(&f[2])) {
            (Some(p), parsed) => EncodingFileKey::with_page(ek(&s(&f[0])), p, parsed),
            (None, true) => EncodingFileKey::new_parsed(ek(&s(&f[0]))),
            (None, false) => EncodingFileKey::new_raw(ek(&s(&f[0]))),
        }
    }
    fn set(&mut self, i: usize, v: &Value) {
        match i {
            1 => self.encoding_key = ek(&s(v)),
            2 => self.page = opt_num(v),
            3 => self.is_parsed = b(v),
            _ => panic!("driver: field {i}"),
        }
    }
}
impl TK for BlteBlockKey {
    fn mk(f: &[Value]) -> Self {
        if b(&f[2]) { BlteBlockKey::new_decompressed(ck(&s(&f[0])), num(&f[1])) } else { BlteBlockKey::new_raw(ck(&s(&f[0])), num(&f[1])) }
    }
    fn set(&mut self, i: usize, v: &Value) {
        match i {
            1 => self.content_key = ck(&s(v)),
            2 => self.block_index = num(v),
            3 => self.is_decompressed = b(v),
            _ => panic!("driver: field {i}"),
        }
    }
}
impl TK for BlteKey {
    fn mk(f: &[Value]) -> Self {
        match opt_num::<u32>(&f[1]) {
            None => BlteKey::new(ek(&s(&f[0]))),
            Some(i) => BlteKey::with_block(ek(&s(&f[0])), i),
        }
    }
    fn set(&mut self, i: usize, v: &Value) {
        match i {
            1 => self.encoding_key = ek(&s(v)),
            2 => self.block_index = opt_num(v),
            _ => panic!("driver: field {i}"),
        }
    }
}
impl TK for ContentCacheKey {
    fn mk(f: &[Value]) -> Self {
        ContentCacheKey::new(ck(&s(&f[0])))
    }
    fn set(&mut self, i: usize, v: &Value) {
        match i {
            1 => self.content_key = ck(&s(v)),
            _ => panic!("driver: field {i}"),
        }
    }
}

fn run_keys<K: TK>(prog: &Value, cfg: &Value, out: &Emit) {
    let rt = rt();
    let dir = tempfile::tempdir_in(scratch()).expect("tempdir");
    let back = cfg["back"].as_str().unwrap_or("none");
    let cache: Option<Box<dyn AsyncCache<K>>> = match back {
        "mem" => Some(Box::new(MemoryCache::<K>::new(mem_cfg(10_000, "long")).expect("driver: memory cache"))),
        "disk" => {
            let mut c = DiskCacheConfig::new(dir.path());
            c.max_files = 100_000;
            c.max_disk_bytes = None;
            c.default_ttl = None;
            c.use_subdirectories = cfg["subdirs"].as_bool().unwrap_or(true);
            Some(Box::new(DiskCache::<K>::new(c).expect("driver: disk cache")))
        }
        _ => None,
    };
    let keys: Vec<Value> = prog["keys"].as_array().cloned().unwrap_or_default();
    out.ev(json!({"op": "new", "kind": "keys", "cfg": cfg, "keys": keys, "res": {"ok": true}}));
    let mut slots: BTreeMap<u64, K> = BTreeMap::new();
    let mut seq = 0u64;
    for op in prog["ops"].as_array().unwrap() {
        let name_ = op["op"].as_str().unwrap();
        let mut ev = op.clone();
        seq += 1;
        ev["seq"] = json!(seq);
        let sl = op.get("s").and_then(Value::as_u64).unwrap_or(0);
        let is_cache_op = matches!(name_, "put" | "get" | "contains" | "remove");
        if is_cache_op {
            // the name the key object reports when it is handed to the cache
            ev["name"] = match guarded(|| slots[&sl].as_cache_key().to_string()) {
                Ok(n) => json!(n),
                Err(m) => json!(format!("panic: {m}")),
            };
        }
        let mut val = None;
        if name_ == "put" {
            let n = op["n"].as_u64().unwrap() as usize;
            let bytes = value_bytes(seq, n);
            ev["vh"] = json!(md5hex(&bytes));
            val = Some(Bytes::from(bytes));
        }
        let res = call(out, op, || match name_ {
            "mk" => {
                slots.insert(sl, K::mk(op["f"].as_array().unwrap()));
                json!({"ok": true})
            }
            "set" => {
                slots.get_mut(&sl).expect("driver: slot").set(op["i"].as_u64().unwrap() as usize, &op["v"]);
                json!({"ok": true})
            }
            "clone" => {
                let c = slots[&sl].clone();
                slots.insert(op["t"].as_u64().unwrap(), c);
                json!({"ok": true})
            }
            "obs" => {
                let mut o = vec![];
                for (i, k) in &slots {
                    let fh = k.fast_hash();
                    o.push(json!({"s": i, "name": k.as_cache_key(), "disp": format!("{k}"), "fh64": fh.hash64.to_string(),
                                  "fh32": fh.hash32.to_string(), "hk64": k.hash_key().hash64.to_string(), "sh": std_hash(k)}));
                }
                let mut eq = vec![];
                for (i, a) in &slots {
                    for (j, b) in &slots {
                        if i <= j {
                            eq.push(json!([i, j, a == b]));
                        }
                    }
                }
                json!({"o": o, "eq": eq})
            }
            "put" => match rt.block_on(cache.as_ref().unwrap().put(slots[&sl].clone(), val.clone().unwrap())) {
                Ok(()) => json!({"ok": true}),
                Err(e) => json!({"err": "other", "msg": e.to_string()}),
            },
            "get" => get_res(rt.block_on(cache.as_ref().unwrap().get(&slots[&sl]))),
            "contains" => match rt.block_on(cache.as_ref().unwrap().contains(&slots[&sl])) {
                Ok(x) => json!({"b": x}),
                Err(e) => json!({"err": "other", "msg": e.to_string()}),
            },
            "remove" => match rt.block_on(cache.as_ref().unwrap().remove(&slots[&sl])) {
                Ok(x) => json!({"b": x}),
                Err(e) => json!({"err": "other", "msg": e.to_string()}),
            },
            "probe" => {
                let mut vals = vec![];
                let mut names = vec![];
                for f in &keys {
                    let k = K::mk(f.as_array().unwrap());
                    names.push(k.as_cache_key().to_string());
                    vals.push(get_res(rt.block_on(cache.as_ref().unwrap().get(&k))));
                }
                json!({"vals": vals, "names": names})
            }
            other => panic!("driver: unknown keys op {other}"),
        });
        ev["res"] = res;
        if let Some(c) = cache.as_ref()
            && (is_cache_op || name_ == "probe")
        {
            match guarded(|| (rt.block_on(c.size()), rt.block_on(c.stats()))) {
                Ok((Ok(cnt), Ok(st))) => {
                    ev["cnt"] = json!(cnt);
                    ev["st"] = json!({"n": st.entry_count, "mem": st.memory_usage_bytes, "gets": small(st.get_count),
                                      "hits": small(st.hit_count), "miss": small(st.miss_count)});
                }
                _ => ev["obs_err"] = json!(true),
            }
        }
        out.ev(ev);
    }
}

// --------------------------------------------------------------------------- kind "met"
fn met_books(m: &AtomicCacheMetrics) -> (Value, Value) {
    let s = m.snapshot();
    let f = m.fast_snapshot();
    (
        json!({"gets": small(s.get_count), "hits": small(s.hit_count), "miss": small(s.miss_count), "puts": small(s.put_count),
               "rems": small(s.remove_count), "evis": small(s.eviction_count), "exps": small(s.expiration_count),
               "n": small(s.entry_count as u64), "mem": small(s.memory_usage_bytes as u64), "max": small(s.max_memory_usage_bytes as u64)}),
        json!({"gets": small(f.get_count), "hits": small(f.hit_count), "n": small(f.entry_count), "mb": small(u64::from(f.memory_usage_mb))}),
    )
}
fn run_met(prog: &Value, cfg: &Value, out: &Emit) {
    let m = AtomicCacheMetrics::new();
    out.ev(json!({"op": "new", "kind": "met", "cfg": cfg, "keys": [], "res": {"ok": true}}));
    let mut seq = 0u64;
    let d = Duration::from_micros(3);
    for op in prog["ops"].as_array().unwrap() {
        let name_ = op["op"].as_str().unwrap();
        let mut ev = op.clone();
        seq += 1;
        ev["seq"] = json!(seq);
        let n = op.get("n").and_then(Value::as_u64).unwrap_or(0) as usize;
        ev["res"] = call(out, op, || {
            match name_ {
                "mget" => m.record_get(b(&op["hit"]), d),
                "mput" => m.record_put(n, d),
                "mrem" => m.record_remove(n),
                "mevi" => m.record_eviction(n),
                "mexp" => m.record_expiration(n),
                "mbatch" => {
                    let v: Vec<(bool, Duration)> = op["hits"].as_array().unwrap().iter().map(|x| (b(x), d)).collect();
                    m.record_batch_gets(&v);
                }
                "mreset" => m.reset(),
                other => panic!("driver: unknown met op {other}"),
            }
            json!({"ok": true})
        });
        match guarded(|| met_books(&m)) {
            Ok((s, f)) => {
                ev["snap"] = s;
                ev["fast"] = f;
            }
            Err(msg) => ev["obs_err"] = json!(msg),
        }
        out.ev(ev);
    }
}

// --------------------------------------------------------------------------- kind "blk"
fn content_bytes(c: &str) -> Vec<u8> {
    match c {
        "m" => MOCK.to_vec(),
        other => format!("validated content <{other}> of the X04 driver").into_bytes(),
    }
}
fn run_blk(prog: &Value, cfg: &Value, out: &Emit) {
    let rt = rt();
    let maxe = cfg["maxe"].as_u64().unwrap() as usize;
    let dttl = cfg["dttl"].as_str().unwrap();
    let shared = cfg["shared"].as_bool().unwrap();
    let inner = Arc::new(MemoryCache::<BlteBlockKey>::new(mem_cfg(maxe, dttl)).expect("driver: inner cache"));
    let inner2 = if shared { inner.clone() } else { Arc::new(MemoryCache::<BlteBlockKey>::new(mem_cfg(maxe, dttl)).expect("driver: inner cache")) };
    let blk = BlteBlockCache::new(inner.clone(), cfg["maxb"].as_u64().unwrap() as u32);
    let cac = Arc::new(ContentAddressedCache::new(inner2.clone(), Arc::new(NgdpValidationHooks::default())));
    let cdn = cdn_client(cfg["urls"].as_u64().unwrap());
    let cdnc = CdnContentCache::new(cac.clone(), cdn.clone());
    let keys: Vec<Value> = prog["keys"].as_array().cloned().unwrap_or_default();
    let cs: Vec<String> = prog["cs"].as_array().map(|a| a.iter().map(s).collect()).unwrap_or_default();
    let ctab: Vec<Value> = cs.iter().map(|c| { let d = content_bytes(c); json!({"c": c, "h": md5hex(&d), "n": d.len()}) }).collect();
    out.ev(json!({"op": "new", "kind": "blk", "cfg": cfg, "keys": keys, "cs": cs, "ctab": ctab, "res": {"ok": true}}));
    let meta_of = |c: &str| -> Value {
        match blk.get_metadata(&ContentKey::from_data(&content_bytes(c))) {
            None => json!({"some": false}),
            Some(m) => json!({"some": true, "cached": m.cached_blocks, "sizes": m.block_sizes, "total": m.total_blocks}),
        }
    };
    let mut seq = 0u64;
    for op in prog["ops"].as_array().unwrap() {
        let name_ = op["op"].as_str().unwrap();
        let mut ev = op.clone();
        seq += 1;
        ev["seq"] = json!(seq);
        let c = op.get("c").and_then(Value::as_str).unwrap_or("x");
        let key = ContentKey::from_data(&content_bytes(c));
        let i = op.get("i").and_then(Value::as_u64).unwrap_or(0) as u32;
        let d = op.get("d").and_then(Value::as_bool).unwrap_or(false);
        let mut val = None;
        if name_ == "putb" {
            let bytes = value_bytes(seq, op["n"].as_u64().unwrap() as usize);
            ev["vh"] = json!(md5hex(&bytes));
            val = Some(Bytes::from(bytes));
        }
        ev["res"] = call(out, op, || match name_ {
            "putb" => nunit_res(rt.block_on(blk.put_block(key, i, val.clone().unwrap(), d))),
            "getb" => nget_res(rt.block_on(blk.get_block(key, i, d))),
            "meta" => meta_of(c),
            "evold" => {
                blk.evict_old_entries(if op["age"] == "zero" { Duration::ZERO } else { LONG_TTL });
                json!({"ok": true})
            }
            "putv" => nunit_res(rt.block_on(cac.put_validated(key, Bytes::from(content_bytes(op["as"].as_str().unwrap()))))),
            "getv" => nget_res(rt.block_on(cac.get_validated(key))),
            "getf" => match rt.block_on(cdnc.get_with_fallback(key)) {
                Ok(b) => json!({"hit": true, "n": b.len(), "h": md5hex(&b)}),
                Err(e) => err_class(&e),
            },
            "tick" => {
                std::thread::sleep(TICK);
                json!({"ok": true})
            }
            "probe" => {
                let mut vals = vec![];
                for k in &keys {
                    let kc = ContentKey::from_data(&content_bytes(k[0].as_str().unwrap()));
                    vals.push(nget_res(rt.block_on(blk.get_block(kc, k[1].as_u64().unwrap() as u32, k[2].as_bool().unwrap()))));
                }
                let metas: Vec<Value> = cs.iter().map(|c| meta_of(c)).collect();
                let cvals: Vec<Value> = cs.iter().map(|c| nget_res(rt.block_on(cac.get_validated(ContentKey::from_data(&content_bytes(c)))))).collect();
                json!({"vals": vals, "metas": metas, "cvals": cvals})
            }
            other => panic!("driver: unknown blk op {other}"),
        });
        match guarded(|| (cac.metrics(), cdn_books(&cdn), rt.block_on(inner.size()), rt.block_on(inner2.size()))) {
            Ok((vm, cm, Ok(c1), Ok(c2))) => {
                ev["vm"] = json!({"tot": small(vm.total_validations), "ok": small(vm.successful_validations), "bad": small(vm.failed_validations)});
                ev["cm"] = cm;
                ev["cnt"] = json!(c1);
                ev["cnt2"] = json!(c2);
            }
            _ => ev["obs_err"] = json!(true),
        }
        out.ev(ev);
    }
}

// --------------------------------------------------------------------------- kind "arc"
/// offsets: -1 stands for u64::MAX (TLC integers are 32-bit)
fn off(v: &Value) -> u64 {
    if v.as_i64() == Some(-1) { u64::MAX } else { v.as_u64().unwrap_or_else(|| panic!("driver: offset {v}")) }
}
fn off_json(o: u64) -> Value {
    if o == u64::MAX { json!(-1) } else { small(o) }
}
fn run_arc(prog: &Value, cfg: &Value, out: &Emit) {
    let rt = rt();
    let inner = Arc::new(
        MemoryCache::<ArchiveRangeKey>::new(mem_cfg(cfg["maxe"].as_u64().unwrap() as usize, cfg["dttl"].as_str().unwrap())).expect("driver: inner cache"),
    );
    let ac = Arc::new(ArchiveCache::new(inner.clone(), cfg["maxr"].as_u64().unwrap() as usize));
    let cdn = cdn_client(cfg["urls"].as_u64().unwrap());
    let cdna = CdnArchiveCache::new(ac.clone(), cdn.clone());
    let keys: Vec<Value> = prog["keys"].as_array().cloned().unwrap_or_default();
    let ars: Vec<String> = prog["as"].as_array().map(|a| a.iter().map(s).collect()).unwrap_or_default();
    out.ev(json!({"op": "new", "kind": "arc", "cfg": cfg, "keys": keys, "as": ars, "res": {"ok": true}}));
    let meta_of = |a: &str| -> Value {
        match ac.get_metadata(a) {
            None => json!({"some": false}),
            Some(m) => json!({"some": true, "ranges": m.cached_ranges.iter().map(|(o, l)| json!([off_json(*o), l])).collect::<Vec<_>>(),
                              "acc": small(m.access_count), "total": small(m.total_size)}),
        }
    };
    let mut seq = 0u64;
    for op in prog["ops"].as_array().unwrap() {
        let name_ = op["op"].as_str().unwrap();
        let mut ev = op.clone();
        seq += 1;
        ev["seq"] = json!(seq);
        let a = op.get("a").and_then(Value::as_str).unwrap_or("a");
        let o = op.get("o").map(off).unwrap_or(0);
        let l = op.get("l").and_then(Value::as_u64).unwrap_or(0) as u32;
        let mut val = None;
        if name_ == "putr" {
            let bytes = value_bytes(seq, op["n"].as_u64().unwrap() as usize);
            ev["vh"] = json!(md5hex(&bytes));
            val = Some(Bytes::from(bytes));
        }
        ev["res"] = call(out, op, || match name_ {
            "putr" => nunit_res(rt.block_on(ac.put_range(a, o, l, val.clone().unwrap()))),
            "getr" => nget_res(rt.block_on(ac.get_range(a, o, l))),
            "isc" => json!({"b": ac.is_range_cached(a, o, l)}),
            "ovl" => json!({"rs": ac.find_overlapping_ranges(a, o, l).iter().map(|(ro, rl)| json!([off_json(*ro), rl])).collect::<Vec<_>>()}),
            "getf" => match rt.block_on(cdna.get_range_with_fallback(a, o, l)) {
                Ok(b) => json!({"hit": true, "n": b.len(), "h": md5hex(&b)}),
                Err(e) => err_class(&e),
            },
            "meta" => meta_of(a),
            "tick" => {
                std::thread::sleep(TICK);
                json!({"ok": true})
            }
            "probe" => {
                let mut vals = vec![];
                let mut iscs = vec![];
                for k in &keys {
                    let (ka, ko, kl) = (k[0].as_str().unwrap(), off(&k[1]), k[2].as_u64().unwrap() as u32);
                    // first what the metadata claims, then what a get really returns (nothing happens in between)
                    iscs.push(json!(ac.is_range_cached(ka, ko, kl)));
                    vals.push(nget_res(rt.block_on(ac.get_range(ka, ko, kl))));
                }
                let metas: Vec<Value> = ars.iter().map(|a| meta_of(a)).collect();
                json!({"vals": vals, "iscs": iscs, "metas": metas})
            }
            other => panic!("driver: unknown arc op {other}"),
        });
        match guarded(|| (cdn_books(&cdn), rt.block_on(inner.size()))) {
            Ok((cm, Ok(c1))) => {
                ev["cm"] = cm;
                ev["cnt"] = json!(c1);
            }
            _ => ev["obs_err"] = json!(true),
        }
        out.ev(ev);
    }
}

// --------------------------------------------------------------------------- kind "res"
/// Root blobs: "r1" = {p1 -> c1, p2 -> c2}, "r2" = {p1 -> c3}, "rj" = the bytes the mock CDN answers (not a root file).
/// Encoding blobs: "e1" = {c1 -> k1, c2 -> k2}, "e2" = {c1 -> k3}, "ej" = junk.
fn blob_table(id: &str) -> Vec<(&'static str, &'static str)> {
    match id {
        "r1" => vec![("p1", "c1"), ("p2", "c2")],
        "r2" => vec![("p1", "c3")],
        "e1" => vec![("c1", "k1"), ("c2", "k2")],
        "e2" => vec![("c1", "k3")],
        _ => vec![],
    }
}
fn path_of(p: &str) -> String {
    format!("interface/x04/{p}.blp")
}
fn blob_bytes(id: &str) -> Vec<u8> {
    use cascette_formats::encoding::{CKeyEntryData, EKeyEntryData, EncodingBuilder};
    use cascette_formats::root::{ContentFlags, LocaleFlags, RootBuilder, RootVersion};
    match id {
        "rj" => MOCK.to_vec(),
        "ej" => b"this is not an encoding file".to_vec(),
        r if r.starts_with('r') => {
            let mut bld = RootBuilder::new(RootVersion::V1);
            for (n, (p, c)) in blob_table(r).iter().enumerate() {
                bld.add_file(FileDataId::new(100 + n as u32), ck(c), Some(path_of(p).as_str()), LocaleFlags::new(LocaleFlags::ENUS), ContentFlags::new(ContentFlags::INSTALL));
            }
            bld.build().expect("driver: RootBuilder::build")
        }
        e => {
            let mut bld = EncodingBuilder::new().with_page_sizes(1, 1);
            for (c, k) in blob_table(e) {
                bld.add_ckey_entry(CKeyEntryData { content_key: ck(c), file_size: 10, encoding_keys: vec![ek(k)] });
                bld.add_ekey_entry(EKeyEntryData { encoding_key: ek(k), espec: "n".to_string(), file_size: 10 });
            }
            bld.build().expect("driver: EncodingBuilder::build").build().expect("driver: EncodingFile::build")
        }
    }
}
fn name_of_ckey(k: &ContentKey) -> Value {
    for i in 1..=9u8 {
        if k.as_bytes() == &[i.wrapping_mul(0x11); 16] {
            return json!(format!("c{i}"));
        }
    }
    json!(format!("?{}", k.to_hex()))
}
fn name_of_ekey(k: &EncodingKey) -> Value {
    for i in 1..=9u8 {
        if k.as_bytes() == &[i.wrapping_mul(0x11); 16] {
            return json!(format!("k{i}"));
        }
    }
    json!(format!("?{}", k.to_hex()))
}
fn run_res(prog: &Value, cfg: &Value, out: &Emit) {
    let rt = rt();
    let rcfg = NgdpResolutionConfig { max_root_files: cfg["maxroots"].as_u64().unwrap() as usize, max_encoding_pages: cfg["maxroots"].as_u64().unwrap() as usize, ..NgdpResolutionConfig::default() };
    let nc = match guarded(|| NgdpResolutionCache::new(rcfg)) {
        Ok(Ok(c)) => Arc::new(c),
        Ok(Err(e)) => {
            out.ev(json!({"op": "new", "kind": "res", "cfg": cfg, "keys": [], "res": {"err": "other", "msg": e.to_string()}}));
            return;
        }
        Err(m) => {
            out.ev(json!({"op": "new", "kind": "res", "cfg": cfg, "keys": [], "res": outcome_panic(&m)}));
            return;
        }
    };
    let cdn = cdn_client(cfg["urls"].as_u64().unwrap());
    let fbc = CdnNgdpResolutionCache::new(nc.clone(), cdn.clone());
    // the blob tables are part of the run's description (the monitor reads them from here, not from its own copy)
    let blobs: Vec<Value> = ["r1", "r2", "rj", "e1", "e2", "ej"]
        .iter()
        .map(|id| json!({"id": id, "tab": blob_table(id).iter().map(|(a, b)| json!([a, b])).collect::<Vec<_>>(), "junk": id.ends_with('j')}))
        .collect();
    out.ev(json!({"op": "new", "kind": "res", "cfg": cfg, "keys": [], "blobs": blobs, "res": {"ok": true}}));
    let rkey = |r: &str| ContentKey::from_data(&blob_bytes(r));
    let ekey = |e: &str| EncodingKey::from_data(&blob_bytes(e));
    let some_c = |r: Result<Option<ContentKey>, NgdpCacheError>| match r {
        Ok(Some(k)) => json!({"some": name_of_ckey(&k)}),
        Ok(None) => json!({"none": true}),
        Err(e) => err_class(&e),
    };
    let some_e = |r: Result<Option<EncodingKey>, NgdpCacheError>| match r {
        Ok(Some(k)) => json!({"some": name_of_ekey(&k)}),
        Ok(None) => json!({"none": true}),
        Err(e) => err_class(&e),
    };
    let mut seq = 0u64;
    for op in prog["ops"].as_array().unwrap() {
        let name_ = op["op"].as_str().unwrap();
        let mut ev = op.clone();
        seq += 1;
        ev["seq"] = json!(seq);
        let r = op.get("r").and_then(Value::as_str).unwrap_or("r1");
        let e = op.get("e").and_then(Value::as_str).unwrap_or("e1");
        let p = op.get("p").and_then(Value::as_str).map(path_of).unwrap_or_default();
        ev["res"] = call(out, op, || match name_ {
            "croot" => nunit_res(rt.block_on(nc.cache_root_file(rkey(r), Bytes::from(blob_bytes(op["as"].as_str().unwrap()))))),
            "res" => some_c(rt.block_on(nc.resolve_file_to_content(rkey(r), &p))),
            "cenc" => nunit_res(rt.block_on(nc.cache_encoding_file(ekey(e), Bytes::from(blob_bytes(op["as"].as_str().unwrap())), None))),
            "rese" => some_e(rt.block_on(nc.resolve_content_to_encoding(ekey(e), ck(op["c"].as_str().unwrap())))),
            "chain" => some_e(rt.block_on(nc.resolve_full_chain(rkey(r), ekey(e), &p))),
            "fb" => some_c(rt.block_on(fbc.resolve_with_fallback(rkey(r), &p))),
            "fcfg" => match rt.block_on(cdn.fetch_config(op["h"].as_str().unwrap())) {
                Ok(b) => json!({"hit": true, "n": b.len(), "h": md5hex(&b)}),
                Err(e) => err_class(&e),
            },
            other => panic!("driver: unknown res op {other}"),
        });
        match guarded(|| (nc.metrics(), cdn_books(&cdn))) {
            Ok((m, cm)) => {
                ev["rm"] = json!({"tot": small(m.total_resolutions), "ok": small(m.successful_resolutions), "rh": small(m.root_cache_hits),
                                  "rmiss": small(m.root_cache_misses), "eh": small(m.encoding_cache_hits), "emiss": small(m.encoding_cache_misses)});
                ev["cm"] = cm;
            }
            Err(_) => ev["obs_err"] = json!(true),
        }
        out.ev(ev);
    }
}

// --------------------------------------------------------------------------- kind "inv"
fn strat_of(v: &Value) -> InvalidationStrategy {
    match v["t"].as_str().unwrap() {
        "never" => InvalidationStrategy::Never,
        "ttl" => InvalidationStrategy::Ttl(Duration::from_millis(v["ms"].as_u64().unwrap())),
        "lru" => InvalidationStrategy::Lru,
        "lfu" => InvalidationStrategy::Lfu,
        "size" => InvalidationStrategy::Size { max_entries: v["max"].as_u64().unwrap() as usize },
        "mem" => InvalidationStrategy::Memory { max_bytes: v["max"].as_u64().unwrap() as usize },
        "comb" => InvalidationStrategy::Combined(v["of"].as_array().unwrap().iter().map(strat_of).collect()),
        other => panic!("driver: unknown strategy {other}"),
    }
}
fn run_inv(prog: &Value, cfg: &Value, out: &Emit) {
    out.ev(json!({"op": "new", "kind": "inv", "cfg": cfg, "keys": [], "res": {"ok": true}}));
    // three entries: without expiry, with an expiry far away, with an expiry that has passed
    let e_none = CacheEntry::new(0u8, 1);
    let e_live = CacheEntry::with_ttl(0u8, 1, LONG_TTL);
    let e_dead = CacheEntry::with_ttl(0u8, 1, Duration::from_millis(1));
    std::thread::sleep(Duration::from_millis(5));
    let mut seq = 0u64;
    for op in prog["ops"].as_array().unwrap() {
        let name_ = op["op"].as_str().unwrap();
        let mut ev = op.clone();
        seq += 1;
        ev["seq"] = json!(seq);
        ev["res"] = call(out, op, || match name_ {
            "sinv" => {
                let ent = match op["ent"].as_str().unwrap() {
                    "none" => &e_none,
                    "live" => &e_live,
                    _ => &e_dead,
                };
                json!({"b": strat_of(&op["strat"]).should_invalidate(ent, op["size"].as_u64().unwrap() as usize, op["bytes"].as_u64().unwrap() as usize)})
            }
            "gttl" => match strat_of(&op["strat"]).get_ttl() {
                None => json!({"ttl": -1}),
                Some(d) => json!({"ttl": d.as_millis() as u64}),
            },
            "wval" => {
                let c = CacheConfig::memory_only().with_warming(CacheWarmingConfig { enabled: b(&op["en"]), max_entries: op["maxe"].as_u64().unwrap() as usize, ..CacheWarmingConfig::default() });
                json!({"b": c.validate().is_ok()})
            }
            other => panic!("driver: unknown inv op {other}"),
        });
        out.ev(ev);
    }
}

// --------------------------------------------------------------------------- dispatch
fn run_program(prog: &Value, out: &Emit) {
    let cfg = prog["cfg"].clone();
    match prog["kind"].as_str().unwrap_or("?") {
        "keys" => match cfg["kt"].as_str().unwrap_or("?") {
            "ribbit" => run_keys::<RibbitKey>(prog, &cfg, out),
            "config" => run_keys::<ConfigKey>(prog, &cfg, out),
            "index" => run_keys::<ArchiveIndexKey>(prog, &cfg, out),
            "manifest" => run_keys::<ManifestKey>(prog, &cfg, out),
            "range" => run_keys::<ArchiveRangeKey>(prog, &cfg, out),
            "root" => run_keys::<RootFileKey>(prog, &cfg, out),
            "encoding" => run_keys::<EncodingFileKey>(prog, &cfg, out),
            "block" => run_keys::<BlteBlockKey>(prog, &cfg, out),
            "blte" => run_keys::<BlteKey>(prog, &cfg, out),
            "content" => run_keys::<ContentCacheKey>(prog, &cfg, out),
            other => panic!("driver: unknown key type {other}"),
        },
        "met" => run_met(prog, &cfg, out),
        "blk" => run_blk(prog, &cfg, out),
        "arc" => run_arc(prog, &cfg, out),
        "res" => run_res(prog, &cfg, out),
        "inv" => run_inv(prog, &cfg, out),
        other => panic!("driver: unknown program kind {other}"),
    }
}

fn main() {
    quiet_panics();
    let args: Vec<String> = std::env::args().collect();
    let mut out = Out::from_arg(arg(&args, "--out").as_ref());
    let programs = read_programs(&arg(&args, "--programs").expect("--programs"));
    let st = run_with_watchdog(programs, &mut out, Duration::from_secs(10), run_program);
    out.flush();
    eprintln!("{}", json!({"programs": st.programs, "events": out.events, "hangs": st.hangs, "skipped": st.skipped}));
    if st.skipped > 0 {
        std::process::exit(3);
    }
}
