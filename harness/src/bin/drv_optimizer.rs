//! X09 driver: executes programs on the optimisation layer of the CDN streaming module of cascette-protocol
//! (feature `streaming`, cdn/streaming/optimizer.rs): AdvancedRangeCoalescer (+ statistics), PriorityRequestQueue
//! (gated mock HttpClient, tokio's paused clock as "run until everybody is blocked"), ZeroCopyBuffer and
//! BandwidthMonitor; and on StreamingBlteProcessor (cdn/streaming/blte.rs) over an in-memory resource.
//!
//! usage: drv_optimizer --programs <file> --out <file>
//!        drv_optimizer --random N --out <file> [--dump-programs <file>]     (seeded by VERIF_SEED)
//!
//! A program is {"fam":F,"cfg":{..},"ops":[{"op":..,..},..]}; families and their operations:
//!
//!  coal  cfg {impl:"adv", thr, max, maxn, bw, shift:"0"|"2p32"|"top", lim}    (the record RangePlan.tla judges)
//!        offsets are RELATIVE to a base (0, 2^32, u64::MAX - lim) the driver adds and subtracts again (-1 = outside)
//!        ops  coalesce {reqs:[[s,e]..]}  -> res {kind:"Ok",plan:[[s,e]..]} | {kind:"Err",err} | {kind:"panic"}
//!                                           obs {stats:[processed,coalesced,saved]}
//!  queue cfg {max, corder}     request number k (1,2,..) travels in the URL ("u<k>"); the mock's get_range(k) blocks
//!                              on a gate until the program finishes it; an Ok body is 8+k bytes of value k
//!        ops  enq {k,p,c}      PrioritizedRequest{priority p (0 = Critical .. 4 = Prefetch), created_at = t0 + c ms}
//!                              -> res {kind:"Ok",id}
//!             fin {k,ok}       open the gate of request k (Ok body / HTTP 503)        -> res {kind:"Ok",was}
//!             recv | try       recv() under a (virtual) 1 s time-out / try_recv()     -> res {kind:"Ok",r:{r:"some",id,k,ok,len}|{r:"none"}|{r:"blocked"}}
//!             rtry             recv() in a background task, then try_recv() under a time-out -> res {kind:"Ok",bg:{..},try:{..}}
//!             shutdown         -> res {kind:"Ok"}
//!             drain            open every gate (Ok) and try_recv until nothing moves     -> res {kind:"Ok",dl:[{id,k,ok,len}..]}
//!        obs (after every operation, once every task is blocked): {started:[k..] in the order the mock was called,
//!             pend, act (statistics()), infl, maxinfl (the mock's own count), dl (metrics.bytes_downloaded)}
//!  buf   cfg {size, maxp}
//!        ops  get              -> res {kind:"Ok",h,len,cap}
//!             ret {h,how,fill} how: "own" (fill bytes written) | "shrunk" (emptied, shrink_to_fit) | "grown" (3 x size written)
//!             retf {cap,fill}  a buffer that did not come from the pool
//!                              -> res {kind:"Ok",cap,len}   (capacity/length of the vector handed to return_buffer)
//!        obs {stats:[pooled,allocated,reused,returned]}
//!  bw    cfg {win:"1h"|"20ms"|"max"}     (std::time::Instant: real clock; windows far above / far below what elapses)
//!        ops  rec {b,ms}       b = -1: u64::MAX bytes; ms = 0: zero duration; ms = -1: one nanosecond
//!             sleep {ms}       real sleep
//!             rng {tms}        recommend_range_size; tms = -1: Duration::MAX           -> res {kind:"Ok",v} | panic
//!        obs {cur,peak,avg,mavg}   saturated at 2e9; mavg = -1: moving_average_bandwidth panicked
//!  sblte cfg {chunks:[{m:"N"|"Z",n}..], multi}     a BLTE file built by cascette-formats, served from memory
//!        ops  all | range {a,n} | info
//!                              -> res {kind:"Ok",same,len} | {kind:"Err",err} | panic;  obs {calls:[[s,e]..], total}
//!
//! Events (judged by spec/trace/T_Optimizer.tla; nothing is decided here):
//!   {"op":"new","fam":F,"cfg":{..}} then one event per operation {"op":..,args..,"seq":n,"res":..,"obs":..}.
use async_trait::async_trait;
use bytes::Bytes;
use cascette_protocol::cdn::streaming::{
    AdvancedRangeCoalescer, BandwidthMonitor, HttpClient, HttpRange, PrioritizedRequest, PriorityRequestQueue,
    RequestPriority, StreamingBlteProcessor, StreamingConfig, StreamingError, StreamingMetrics, ZeroCopyBuffer,
};
use serde_json::{Value, json};
use std::collections::BTreeMap;
use std::sync::atomic::Ordering;
use std::sync::{Arc, Mutex};
use std::time::Duration;
use verif_harness::*;

const WINDOW: u64 = 1 << 30;
const SAT: u64 = 2_000_000_000;

fn sat(x: u64) -> u64 {
    x.min(SAT)
}
fn u(v: &Value, k: &str) -> u64 {
    v[k].as_u64().unwrap_or_else(|| panic!("driver: field {k} missing in {v}"))
}
fn i(v: &Value, k: &str) -> i64 {
    v[k].as_i64().unwrap_or_else(|| panic!("driver: field {k} missing in {v}"))
}
fn s<'a>(v: &'a Value, k: &str) -> &'a str {
    v[k].as_str().unwrap_or_else(|| panic!("driver: field {k} missing in {v}"))
}
fn panic_res(m: &str) -> Value {
    json!({"kind": "panic", "msg": m.chars().take(200).collect::<String>()})
}
fn short(e: &StreamingError) -> String {
    e.to_string().lines().next().unwrap_or("").chars().take(120).collect()
}
fn err_name(e: &StreamingError) -> String {
    let d = format!("{e:?}");
    d.split(|c: char| !c.is_alphanumeric()).next().unwrap_or("?").to_string()
}

// ------------------------------------------------------------------------------------------------
// coal
// ------------------------------------------------------------------------------------------------
fn plan_base(cfg: &Value) -> u64 {
    match s(cfg, "shift") {
        "0" => 0,
        "2p32" => 1u64 << 32,
        "top" => u64::MAX - u(cfg, "lim"),
        x => panic!("driver: shift {x}"),
    }
}
fn rel(base: u64, v: u64) -> i64 {
    if v >= base && v - base <= WINDOW { (v - base) as i64 } else { -1 }
}
fn run_coal(p: &Value, em: &Emit) {
    let cfg = &p["cfg"];
    let base = plan_base(cfg);
    let sc = StreamingConfig {
        range_coalesce_threshold: u(cfg, "thr"),
        max_range_size: u(cfg, "max"),
        max_ranges_per_request: u(cfg, "maxn") as usize,
        ..StreamingConfig::default()
    };
    let mon = Arc::new(BandwidthMonitor::new(Duration::from_secs(3600)));
    let bw = cfg["bw"].as_u64().unwrap_or(0);
    if bw > 0 {
        rt().block_on(mon.record_sample(bw, Duration::from_secs(1)));
    }
    em.ev(json!({"op": "new", "fam": "coal", "cfg": cfg, "valid": sc.validate().is_ok(), "bw_seen": sat(mon.current_bandwidth())}));
    let advc = AdvancedRangeCoalescer::new(sc, mon.clone());
    let mut seq = 0u64;
    for op in p["ops"].as_array().expect("ops") {
        em.begin(op);
        seq += 1;
        let mut ev = op.as_object().expect("op object").clone();
        ev.insert("seq".into(), json!(seq));
        match s(op, "op") {
            "coalesce" => {
                let reqs: Vec<HttpRange> = op["reqs"]
                    .as_array()
                    .expect("reqs")
                    .iter()
                    .map(|r| HttpRange { start: base + r[0].as_u64().expect("s"), end: base + r[1].as_u64().expect("e") })
                    .collect();
                let r = guarded(|| advc.coalesce_ranges(reqs.clone()));
                let res = match &r {
                    Ok(Ok(plan)) => json!({"kind": "Ok", "plan": plan.iter().map(|r| json!([rel(base, r.start), rel(base, r.end)])).collect::<Vec<_>>(),
                                           "raw": plan.iter().take(6).map(|r| format!("{}-{}", r.start, r.end)).collect::<Vec<_>>()}),
                    Ok(Err(e)) => json!({"kind": "Err", "err": err_name(e)}),
                    Err(m) => panic_res(m),
                };
                let (a, b, c) = advc.statistics();
                ev.insert("res".into(), res);
                ev.insert("obs".into(), json!({"stats": [sat(a), sat(b), sat(c)]}));
            }
            other => panic!("driver: coal op {other}"),
        }
        em.ev(Value::Object(ev));
    }
}

// ------------------------------------------------------------------------------------------------
// queue
// ------------------------------------------------------------------------------------------------
#[derive(Default)]
struct MockSt {
    calls: Vec<u64>,
    gates: BTreeMap<u64, tokio::sync::oneshot::Sender<bool>>,
    infl: u64,
    maxinfl: u64,
    bad_range: u64,
}
struct Gated {
    st: Mutex<MockSt>,
}
fn k_of_url(url: &str) -> u64 {
    url.trim_start_matches('u').parse().unwrap_or(0)
}
fn body_len(k: u64) -> usize {
    8 + k as usize
}
#[async_trait]
impl HttpClient for Gated {
    async fn get_range(&self, url: &str, range: Option<HttpRange>) -> Result<Bytes, StreamingError> {
        let k = k_of_url(url);
        let (tx, rx) = tokio::sync::oneshot::channel();
        {
            let mut st = self.st.lock().expect("mock");
            st.calls.push(k);
            st.gates.insert(k, tx);
            st.infl += 1;
            st.maxinfl = st.maxinfl.max(st.infl);
            if range != Some(HttpRange { start: k, end: k + 9 }) {
                st.bad_range += 1;
            }
        }
        let out = rx.await;
        self.st.lock().expect("mock").infl -= 1;
        match out {
            Ok(true) => Ok(Bytes::from(vec![k as u8; body_len(k)])),
            Ok(false) => Err(StreamingError::HttpStatus { status_code: 503, url: url.to_string() }),
            Err(_) => Err(StreamingError::Timeout { timeout_ms: 1, url: url.to_string() }),
        }
    }
    async fn get_content_length(&self, _url: &str) -> Result<u64, StreamingError> {
        Ok(0)
    }
    async fn supports_ranges(&self, _url: &str) -> Result<bool, StreamingError> {
        Ok(true)
    }
}
fn prio_of(p: u64) -> RequestPriority {
    match p {
        0 => RequestPriority::Critical,
        1 => RequestPriority::High,
        2 => RequestPriority::Normal,
        3 => RequestPriority::Low,
        _ => RequestPriority::Prefetch,
    }
}
fn delivered(x: &(u64, Result<Bytes, StreamingError>)) -> Value {
    match &x.1 {
        Ok(b) => json!({"r": "some", "id": sat(x.0), "k": b.first().map_or(0, |v| u64::from(*v)), "ok": true, "len": b.len(),
                        "uniform": b.iter().all(|v| Some(v) == b.first())}),
        Err(e) => {
            let k = match e {
                StreamingError::HttpStatus { url, .. } | StreamingError::Timeout { url, .. } => k_of_url(url),
                _ => 0,
            };
            json!({"r": "some", "id": sat(x.0), "k": k, "ok": false, "len": 0, "err": err_name(e)})
        }
    }
}
/// Under the paused clock a timer fires only when every task is blocked: "run until quiescent".
async fn settle() {
    for _ in 0..4 {
        tokio::task::yield_now().await;
    }
    tokio::time::sleep(Duration::from_millis(1)).await;
    for _ in 0..4 {
        tokio::task::yield_now().await;
    }
}
type Q = PriorityRequestQueue<Gated>;
async fn recv_to(q: &Q) -> Value {
    match tokio::time::timeout(Duration::from_secs(1), q.recv()).await {
        Ok(Some(x)) => delivered(&x),
        Ok(None) => json!({"r": "none"}),
        Err(_) => json!({"r": "blocked"}),
    }
}
async fn try_to(q: &Q) -> Value {
    match tokio::time::timeout(Duration::from_secs(1), q.try_recv()).await {
        Ok(Some(x)) => delivered(&x),
        Ok(None) => json!({"r": "none"}),
        Err(_) => json!({"r": "blocked"}),
    }
}
fn run_queue(p: &Value, em: &Emit) {
    let cfg = &p["cfg"];
    em.ev(json!({"op": "new", "fam": "queue", "cfg": cfg}));
    let rt = tokio::runtime::Builder::new_current_thread().enable_time().start_paused(true).build().expect("paused runtime");
    let mock = Arc::new(Gated { st: Mutex::new(MockSt::default()) });
    let mon = Arc::new(BandwidthMonitor::new(Duration::from_secs(3600)));
    let metrics = Arc::new(StreamingMetrics::new());
    let q: Arc<Q> = Arc::new(PriorityRequestQueue::new(u(cfg, "max") as usize, mock.clone(), mon, metrics.clone()));
    let t0 = std::time::Instant::now();
    let mut seq = 0u64;
    for op in p["ops"].as_array().expect("ops") {
        em.begin(op);
        seq += 1;
        let mut ev = op.as_object().expect("op").clone();
        ev.insert("seq".into(), json!(seq));
        let r = guarded(|| {
            rt.block_on(async {
                let res = match s(op, "op") {
                    "enq" => {
                        let k = u(op, "k");
                        let req = PrioritizedRequest {
                            url: format!("u{k}"),
                            range: Some(HttpRange { start: k, end: k + 9 }),
                            priority: prio_of(u(op, "p")),
                            expected_size: None,
                            created_at: t0 + Duration::from_millis(u(op, "c")),
                            id: 0,
                        };
                        let id = q.enqueue(req).await;
                        json!({"kind": "Ok", "id": sat(id)})
                    }
                    "fin" => {
                        let gate = mock.st.lock().expect("mock").gates.remove(&u(op, "k"));
                        let was = gate.is_some_and(|g| g.send(op["ok"].as_bool().expect("ok")).is_ok());
                        json!({"kind": "Ok", "was": was})
                    }
                    "recv" => json!({"kind": "Ok", "r": recv_to(&q).await}),
                    "try" => json!({"kind": "Ok", "r": try_to(&q).await}),
                    "rtry" => {
                        let q2 = q.clone();
                        let h = tokio::spawn(async move { q2.recv().await });
                        settle().await;
                        let t = try_to(&q).await;
                        let bg = if h.is_finished() {
                            match h.await {
                                Ok(Some(x)) => delivered(&x),
                                Ok(None) => json!({"r": "none"}),
                                Err(_) => json!({"r": "died"}),
                            }
                        } else {
                            h.abort();
                            let _ = h.await;
                            json!({"r": "blocked"})
                        };
                        json!({"kind": "Ok", "bg": bg, "try": t})
                    }
                    "shutdown" => {
                        q.shutdown();
                        json!({"kind": "Ok"})
                    }
                    "drain" => {
                        let mut dl = Vec::new();
                        for _round in 0..64 {
                            let gates: Vec<_> = std::mem::take(&mut mock.st.lock().expect("mock").gates).into_iter().collect();
                            let mut moved = !gates.is_empty();
                            for (_, g) in gates {
                                let _ = g.send(true);
                            }
                            settle().await;
                            loop {
                                let t = try_to(&q).await;
                                if t["r"] != "some" {
                                    break;
                                }
                                moved = true;
                                dl.push(t);
                            }
                            if !moved {
                                break;
                            }
                        }
                        json!({"kind": "Ok", "dl": dl})
                    }
                    other => panic!("driver: queue op {other}"),
                };
                settle().await;
                res
            })
        });
        ev.insert("res".into(), r.unwrap_or_else(|m| panic_res(&m)));
        let (pend, act) = rt.block_on(q.statistics());
        let st = mock.st.lock().expect("mock");
        ev.insert("obs".into(), json!({"started": st.calls, "pend": pend, "act": act, "infl": st.infl, "maxinfl": st.maxinfl,
                                        "bad_range": st.bad_range, "dl": sat(metrics.bytes_downloaded.load(Ordering::SeqCst))}));
        drop(st);
        em.ev(Value::Object(ev));
    }
    // tasks still blocked on a gate are dropped with the runtime
    mock.st.lock().expect("mock").gates.clear();
    drop(q);
    drop(rt);
}

// ------------------------------------------------------------------------------------------------
// buf
// ------------------------------------------------------------------------------------------------
fn run_buf(p: &Value, em: &Emit) {
    let cfg = &p["cfg"];
    em.ev(json!({"op": "new", "fam": "buf", "cfg": cfg}));
    let size = u(cfg, "size") as usize;
    let pool = ZeroCopyBuffer::new(size, u(cfg, "maxp") as usize);
    let rt = rt();
    let mut held: BTreeMap<u64, Vec<u8>> = BTreeMap::new();
    let mut next_h = 0u64;
    let mut seq = 0u64;
    for op in p["ops"].as_array().expect("ops") {
        em.begin(op);
        seq += 1;
        let mut ev = op.as_object().expect("op").clone();
        ev.insert("seq".into(), json!(seq));
        let r = guarded(|| {
            rt.block_on(async {
                match s(op, "op") {
                    "get" => {
                        let b = pool.get_buffer().await;
                        next_h += 1;
                        let res = json!({"kind": "Ok", "h": next_h, "len": b.len(), "cap": b.capacity()});
                        held.insert(next_h, b);
                        res
                    }
                    "ret" => match held.remove(&u(op, "h")) {
                        None => json!({"kind": "Skip"}),
                        Some(mut b) => {
                            match s(op, "how") {
                                "own" => b.extend(std::iter::repeat_n(0xA5u8, u(op, "fill") as usize)),
                                "shrunk" => {
                                    b.clear();
                                    b.shrink_to_fit();
                                }
                                "grown" => b.extend(std::iter::repeat_n(0x5Au8, 3 * size.max(1))),
                                other => panic!("driver: ret how {other}"),
                            }
                            let res = json!({"kind": "Ok", "cap": b.capacity(), "len": b.len()});
                            pool.return_buffer(b).await;
                            res
                        }
                    },
                    "retf" => {
                        let mut b: Vec<u8> = Vec::with_capacity(u(op, "cap") as usize);
                        b.extend(std::iter::repeat_n(0x11u8, (u(op, "fill") as usize).min(b.capacity())));
                        let res = json!({"kind": "Ok", "cap": b.capacity(), "len": b.len()});
                        pool.return_buffer(b).await;
                        res
                    }
                    other => panic!("driver: buf op {other}"),
                }
            })
        });
        ev.insert("res".into(), r.unwrap_or_else(|m| panic_res(&m)));
        let (a, b, c, d) = rt.block_on(pool.statistics());
        ev.insert("obs".into(), json!({"stats": [a, sat(b), sat(c), sat(d)]}));
        em.ev(Value::Object(ev));
    }
}

// ------------------------------------------------------------------------------------------------
// bw
// ------------------------------------------------------------------------------------------------
fn run_bw(p: &Value, em: &Emit) {
    let cfg = &p["cfg"];
    em.ev(json!({"op": "new", "fam": "bw", "cfg": cfg}));
    let win = match s(cfg, "win") {
        "1h" => Duration::from_secs(3600),
        "20ms" => Duration::from_millis(20),
        "max" => Duration::MAX,
        x => panic!("driver: win {x}"),
    };
    let mon = BandwidthMonitor::new(win);
    let rt = rt();
    let mut seq = 0u64;
    for op in p["ops"].as_array().expect("ops") {
        em.begin(op);
        seq += 1;
        let mut ev = op.as_object().expect("op").clone();
        ev.insert("seq".into(), json!(seq));
        let r = guarded(|| {
            rt.block_on(async {
                match s(op, "op") {
                    "rec" => {
                        let b = i(op, "b");
                        let ms = i(op, "ms");
                        let bytes = if b < 0 { u64::MAX } else { b as u64 };
                        let d = if ms < 0 { Duration::from_nanos(1) } else { Duration::from_millis(ms as u64) };
                        mon.record_sample(bytes, d).await;
                        json!({"kind": "Ok"})
                    }
                    "sleep" => {
                        std::thread::sleep(Duration::from_millis(u(op, "ms")));
                        json!({"kind": "Ok"})
                    }
                    "rng" => {
                        let t = i(op, "tms");
                        let d = if t < 0 { Duration::MAX } else { Duration::from_millis(t as u64) };
                        json!({"kind": "Ok", "v": sat(mon.recommend_range_size(d).await)})
                    }
                    other => panic!("driver: bw op {other}"),
                }
            })
        });
        ev.insert("res".into(), r.unwrap_or_else(|m| panic_res(&m)));
        let mavg = guarded(|| rt.block_on(mon.moving_average_bandwidth())).map_or(-1, |v| sat(v) as i64);
        ev.insert("obs".into(), json!({"cur": sat(mon.current_bandwidth()), "peak": sat(mon.peak_bandwidth()),
                                        "avg": sat(mon.average_bandwidth()), "mavg": mavg}));
        em.ev(Value::Object(ev));
    }
}

// ------------------------------------------------------------------------------------------------
// sblte: StreamingBlteProcessor over an in-memory BLTE file
// ------------------------------------------------------------------------------------------------
struct MemInner {
    data: Vec<u8>,
    calls: Mutex<Vec<(i64, i64)>>,
}
struct MemRes(Arc<MemInner>);
impl std::ops::Deref for MemRes {
    type Target = MemInner;
    fn deref(&self) -> &MemInner {
        &self.0
    }
}
#[async_trait]
impl HttpClient for MemRes {
    async fn get_range(&self, _url: &str, range: Option<HttpRange>) -> Result<Bytes, StreamingError> {
        let n = self.data.len() as u64;
        match range {
            None => {
                self.calls.lock().expect("calls").push((-1, -1));
                Ok(Bytes::from(self.data.clone()))
            }
            Some(r) => {
                self.calls.lock().expect("calls").push((sat(r.start) as i64, sat(r.end) as i64));
                if r.start >= n {
                    return Err(StreamingError::HttpStatus { status_code: 416, url: "mem".into() });
                }
                let e = r.end.min(n - 1);
                Ok(Bytes::from(self.data[r.start as usize..=e as usize].to_vec()))
            }
        }
    }
    async fn get_content_length(&self, _url: &str) -> Result<u64, StreamingError> {
        Ok(self.data.len() as u64)
    }
    async fn supports_ranges(&self, _url: &str) -> Result<bool, StreamingError> {
        Ok(true)
    }
}
fn chunk_plain(ix: usize, n: usize) -> Vec<u8> {
    (0..n).map(|j| (ix * 37 + j * 7 + 1) as u8).collect()
}
fn run_sblte(p: &Value, em: &Emit) {
    use cascette_formats::CascFormat;
    use cascette_formats::blte::{BlteFile, ChunkData, CompressionMode};
    let cfg = &p["cfg"];
    let specs = cfg["chunks"].as_array().expect("chunks");
    let multi = cfg["multi"].as_bool().unwrap_or(specs.len() > 1);
    let mut plains: Vec<Vec<u8>> = Vec::new();
    let built = guarded(|| {
        let mut chunks = Vec::new();
        for (ix, c) in specs.iter().enumerate() {
            let plain = chunk_plain(ix, u(c, "n") as usize);
            let mode = if s(c, "m") == "Z" { CompressionMode::ZLib } else { CompressionMode::None };
            chunks.push(ChunkData::new(plain.clone(), mode).expect("chunk"));
            plains.push(plain);
        }
        let f = if multi { BlteFile::multi_chunk(chunks).expect("multi") } else { BlteFile::single_chunk(plains[0].clone(), if s(&specs[0], "m") == "Z" { CompressionMode::ZLib } else { CompressionMode::None }).expect("single") };
        let bytes = f.build().expect("build");
        // the reference: the in-memory decoder of cascette-formats on the same bytes
        let whole = BlteFile::parse(&bytes).expect("reparse").decompress().expect("reference decompress");
        (bytes, whole)
    });
    let (bytes, whole) = match built {
        Ok(x) => x,
        Err(m) => {
            em.ev(json!({"op": "new", "fam": "sblte", "cfg": cfg, "built": false, "msg": m}));
            return;
        }
    };
    let sizes: Vec<usize> = plains.iter().map(Vec::len).collect();
    em.ev(json!({"op": "new", "fam": "sblte", "cfg": cfg, "built": true, "total": bytes.len(), "plain": whole.len(),
                 "ref_ok": whole == plains.concat(), "hdr": bytes.iter().take(8).map(|b| u64::from(*b)).collect::<Vec<_>>()}));
    let res = Arc::new(MemInner { data: bytes, calls: Mutex::new(Vec::new()) });
    let proc_ = StreamingBlteProcessor::with_defaults(MemRes(res.clone()));
    let rt = rt();
    let mut seq = 0u64;
    for op in p["ops"].as_array().expect("ops") {
        em.begin(op);
        seq += 1;
        let mut ev = op.as_object().expect("op").clone();
        ev.insert("seq".into(), json!(seq));
        res.calls.lock().expect("calls").clear();
        let r = guarded(|| {
            rt.block_on(async {
                match s(op, "op") {
                    "all" => match proc_.decompress_from_url("mem", None).await {
                        Ok(v) => json!({"kind": "Ok", "same": v == whole, "len": v.len()}),
                        Err(e) => json!({"kind": "Err", "err": err_name(&e), "msg": short(&e)}),
                    },
                    "range" => {
                        let (a, n) = (u(op, "a") as usize, u(op, "n") as usize);
                        let lo = a.min(sizes.len());
                        let hi = (a + n).min(sizes.len());
                        let want: Vec<u8> = plains[lo..hi].concat();
                        match proc_.decompress_chunk_range("mem", a, n, None).await {
                            Ok(v) => json!({"kind": "Ok", "same": v == want, "len": v.len()}),
                            Err(e) => json!({"kind": "Err", "err": err_name(&e), "msg": short(&e)}),
                        }
                    }
                    "info" => match proc_.get_header_info("mem").await {
                        Ok(h) => json!({"kind": "Ok", "single": h.is_single_chunk, "chunks": h.chunk_count, "plain": sat(h.total_decompressed_size), "hdr": h.header_size}),
                        Err(e) => json!({"kind": "Err", "err": err_name(&e), "msg": short(&e)}),
                    },
                    other => panic!("driver: sblte op {other}"),
                }
            })
        });
        ev.insert("res".into(), r.unwrap_or_else(|m| panic_res(&m)));
        let calls = res.calls.lock().expect("calls");
        ev.insert("obs".into(), json!({"calls": calls.iter().map(|c| json!([c.0, c.1])).collect::<Vec<_>>(), "total": res.data.len()}));
        drop(calls);
        em.ev(Value::Object(ev));
    }
}

// ------------------------------------------------------------------------------------------------
// seeded random programs (large numbers, long histories)
// ------------------------------------------------------------------------------------------------
fn rand_range(r: &mut Rng, hull: u64) -> Value {
    let a = r.below(hull);
    let len = match r.below(4) {
        0 => 1,
        1 => 1 + r.below(16),
        2 => 1 + r.below(5000),
        _ => 1 + r.below(hull / 2 + 1),
    };
    json!([a, (a + len - 1).min(hull - 1)])
}
const MIB: u64 = 1 << 20;
fn random_program(r: &mut Rng) -> Value {
    match r.below(10) {
        0..=2 => {
            let hull = *r.pick(&[64u64, 4096, 1 << 20, 1 << 24]);
            let thr = *r.pick(&[0u64, 1, 16, 1024, 65536]);
            let max = thr.max(*r.pick(&[1u64, 7, 4096, 1 << 20, 10 << 20]));
            let shift = *r.pick(&["0", "0", "2p32", "top", "top"]);
            // bandwidths at the tier boundaries of the dynamic threshold
            let bw = *r.pick(&[0u64, 0, 1, MIB, 2 * MIB - 1, 2 * MIB, 5 * MIB, 11 * MIB - 1, 11 * MIB, 20 * MIB, 51 * MIB - 1, 51 * MIB, 100 * MIB]);
            let mut ops = Vec::new();
            for _ in 0..1 + r.below(4) {
                let n = r.below(7);
                let mut reqs: Vec<Value> = (0..n).map(|_| rand_range(r, hull)).collect();
                if n > 0 && r.chance(1, 3) {
                    let d = reqs[r.below(n) as usize].clone();
                    reqs.push(d);
                }
                ops.push(json!({"op": "coalesce", "reqs": reqs}));
            }
            let lim = hull - 1 + r.below(2);
            json!({"fam": "coal", "cfg": {"impl": "adv", "thr": thr, "max": max, "maxn": 64, "bw": bw, "shift": shift, "lim": lim}, "ops": ops})
        }
        3..=5 => {
            let max = 1 + r.below(3);
            let corder = *r.pick(&["asc", "desc", "same"]);
            let mut ops = Vec::new();
            let mut n = 0u64;
            let mut shut = false;
            for _ in 0..6 + r.below(14) {
                ops.push(match r.below(12) {
                    0..=4 if n < 9 => {
                        n += 1;
                        let c = match corder {
                            "asc" => n,
                            "desc" => 100 - n,
                            _ => 0,
                        };
                        json!({"op": "enq", "k": n, "p": r.below(5), "c": c})
                    }
                    0..=7 if n > 0 => json!({"op": "fin", "k": 1 + r.below(n), "ok": r.chance(3, 4)}),
                    8 => json!({"op": "recv"}),
                    9 => json!({"op": "rtry"}),
                    10 if !shut && r.chance(1, 3) => {
                        shut = true;
                        json!({"op": "shutdown"})
                    }
                    _ => json!({"op": "try"}),
                });
            }
            ops.push(json!({"op": "drain"}));
            json!({"fam": "queue", "cfg": {"max": max, "corder": corder}, "ops": ops})
        }
        6..=7 => {
            let size = *r.pick(&[0u64, 1, 64, 4096]);
            let maxp = r.below(4);
            let mut ops = Vec::new();
            let mut h = 0u64;
            for _ in 0..8 + r.below(16) {
                ops.push(match r.below(10) {
                    0..=4 => {
                        h += 1;
                        json!({"op": "get"})
                    }
                    5..=7 if h > 0 => json!({"op": "ret", "h": 1 + r.below(h), "how": *r.pick(&["own", "own", "own", "shrunk", "grown"]), "fill": r.below(size + 1)}),
                    8 => json!({"op": "retf", "cap": *r.pick(&[0u64, 1, size / 2, size, 2 * size + 1]), "fill": r.below(3)}),
                    _ => json!({"op": "get"}),
                });
            }
            // a "ret" names a handle that has been given out by then (every "get" hands out the next one)
            let mut seen = 0u64;
            for o in &mut ops {
                if o["op"] == "get" {
                    seen += 1;
                } else if o["op"] == "ret" {
                    let hh = o["h"].as_u64().unwrap_or(1).min(seen.max(1));
                    o["h"] = json!(hh);
                }
            }
            json!({"fam": "buf", "cfg": {"size": size, "maxp": maxp}, "ops": ops})
        }
        8 if r.chance(1, 2) => {
            let n = 1 + r.below(6);
            let chunks: Vec<Value> = (0..n).map(|_| json!({"m": *r.pick(&["N", "Z"]), "n": *r.pick(&[0u64, 1, 3, 4, 7, 8, 100, 5000])})).collect();
            let multi = n > 1 || r.chance(1, 2);
            let ops = vec![json!({"op": "all"}), json!({"op": "info"}), json!({"op": "range", "a": r.below(n + 1), "n": r.below(n + 2)})];
            json!({"fam": "sblte", "cfg": {"chunks": chunks, "multi": multi}, "ops": ops})
        }
        _ => {
            let win = *r.pick(&["1h", "1h", "1h", "max"]);
            let mut ops = Vec::new();
            for _ in 0..4 + r.below(10) {
                ops.push(match r.below(10) {
                    0..=6 => {
                        let (b, ms) = *r.pick(&[(0i64, 1000i64), (1, 1000), (1000, 1000), (1500, 500), (2000, 1000), (3000, 3000), (4096, 1), (65536, 250),
                                                 (1_048_576, 1000), (2_000_000, 1000), (1_048_576, 500), (123_457, 700), (999, 0), (7, 3)]);
                        json!({"op": "rec", "b": b, "ms": ms})
                    }
                    _ => json!({"op": "rng", "tms": *r.pick(&[0i64, 100, 1000, 2000, 10000, -1])}),
                });
            }
            json!({"fam": "bw", "cfg": {"win": win}, "ops": ops})
        }
    }
}

fn main() {
    quiet_panics();
    let args: Vec<String> = std::env::args().collect();
    let mut out = Out::from_arg(arg(&args, "--out").as_ref());
    let programs = if let Some(p) = arg(&args, "--programs") {
        read_programs(&p)
    } else {
        let n = arg_u64(&args, "--random", 100);
        let mut r = Rng::new(seed_from_env());
        let ps: Vec<Value> = (0..n).map(|_| random_program(&mut r)).collect();
        if let Some(d) = arg(&args, "--dump-programs") {
            let mut f = std::fs::File::create(d).expect("dump");
            for p in &ps {
                use std::io::Write;
                writeln!(f, "{p}").expect("dump");
            }
        }
        ps
    };
    let patience = Duration::from_secs(arg_u64(&args, "--patience", 60));
    let stats = run_with_watchdog(programs, &mut out, patience, |p, em| match s(p, "fam") {
        "coal" => run_coal(p, em),
        "queue" => run_queue(p, em),
        "buf" => run_buf(p, em),
        "bw" => run_bw(p, em),
        "sblte" => run_sblte(p, em),
        other => panic!("driver: unknown family {other}"),
    });
    out.flush();
    eprintln!("{}", json!({"programs": stats.programs, "events": out.events, "hangs": stats.hangs, "skipped": stats.skipped}));
    if stats.skipped > 0 {
        std::process::exit(3);
    }
}
