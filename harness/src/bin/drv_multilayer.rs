//! C12 driver: executes layered-cache programs on the real `MultiLayerCacheImpl<RibbitKey>`.
//!
//! usage: drv_multilayer --programs <file> --out <file> [--jobs J] [--timeout-ms T] [--max-hangs N]
//!        drv_multilayer --random N --len L --out <file> [--dump-programs <file>] [--avoid-hang]
//!
//! Program: {"kinds":["mem","disk"],"caps":[1,1000],"budgets":[40,0],"policies":["ttl","lru"],"hooks":false,"keys":["a","b.tmp"],
//!           "strategy":"on_hit","ops":[{"op":"put","k":"a","v":"v1"}, ...]}
//! Operations (layer indices 0-based, as in the API):
//!   put k v | put_ttl k v ttl(long|short) | put_layer k v layer | get k | get_layer k layer |
//!   promote k from to | remove k | clear | batch_get ks | batch_put items[{k,v}] |
//!   put_val k v ck | get_val k ck(value name | "none") | tick |
//!   corrupt k | delete k | trunc0 k | trunc1 k | extend1 k  [layer i]  (environment: the file of k in disk
//!   layer i, default the first disk layer)
//! Value "e" is the empty value.
//! Events: {"op":"new",...config} then one per operation: the operation's fields + "seq",
//! "res" (a string: value name / "none" / "ok" / "true" / "false" / "err" / "panic"), "rs" for
//! batch_get, and "obs": per layer {key: value name | "none"} read back with get_from_layer
//! (not after the environment actions corrupt / delete, whose effect is defined by the model).
//! The driver records; verdicts are computed by TLC (spec/trace/T_MultiLayer.tla).
use bytes::Bytes;
use cascette_cache::config::{DiskCacheConfig, MemoryCacheConfig, MultiLayerCacheConfig, PromotionStrategy};
use cascette_cache::key::RibbitKey;
use cascette_cache::multi_layer::MultiLayerCacheImpl;
use cascette_cache::traits::{AsyncCache, EvictionPolicy, MultiLayerCache};
use cascette_cache::validation::{Md5ValidationHooks, NgdpValidationHooks};
use cascette_crypto::ContentKey;
use serde_json::{Value, json};
use std::path::{Path, PathBuf};
use std::sync::Arc;
use std::time::Duration;
use verif_harness::*;

const SHORT_TTL: Duration = Duration::from_millis(25);
const TICK: Duration = Duration::from_millis(110);
const LONG_TTL: Duration = Duration::from_secs(3600);

// ---- concretisation (injective; checked at start) ---------------------------
fn value_bytes(v: &str) -> Vec<u8> {
    match v {
        "e" => vec![], // the empty value
        "big" => vec![b'B'; 64], // larger than every byte budget the programs give a memory layer
        "bad" => b"\xffcorrupted file content\x00".to_vec(),
        _ => format!("payload<{v}>{}", "#".repeat(v.len() * 3)).into_bytes(),
    }
}
const VALUE_NAMES: [&str; 7] = ["v1", "v2", "v3", "v4", "e", "big", "bad"];
/// Name of a byte string: a value, a value without its last byte ("v1-"), a value with one more byte
/// ("v1+", "e+"), or "other".
fn value_name(b: &[u8]) -> String {
    for n in VALUE_NAMES {
        if value_bytes(n) == b {
            return n.to_string();
        }
    }
    for n in VALUE_NAMES {
        if n == "bad" {
            continue;
        }
        let v = value_bytes(n);
        if !v.is_empty() && v[..v.len() - 1] == *b {
            return format!("{n}-");
        }
        if b.len() == v.len() + 1 && b[..v.len()] == v[..] && b[v.len()] == b'+' {
            return format!("{n}+");
        }
    }
    "other".to_string()
}
fn key(k: &str) -> RibbitKey {
    RibbitKey::new(format!("ep-{k}"), "us")
}
fn ckey(v: &str) -> ContentKey {
    ContentKey::from_data(&value_bytes(v))
}
fn check_concretisation() {
    let mut seen = std::collections::HashSet::new();
    for n in VALUE_NAMES {
        assert!(seen.insert(value_bytes(n)), "value concretisation collides");
        assert_eq!(value_name(&value_bytes(n)), n);
    }
    let mut ks = std::collections::HashSet::new();
    for k in ["a", "b", "c", "d", "a.tmp", "b.TMP", "c.TMP"] {
        assert!(ks.insert(key(k).as_cache_key().to_string()), "key concretisation collides");
    }
}

fn policy(name: &str) -> EvictionPolicy {
    match name {
        "lfu" => EvictionPolicy::Lfu,
        "fifo" => EvictionPolicy::Fifo,
        "random" => EvictionPolicy::Random,
        "ttl" => EvictionPolicy::Ttl,
        "lru" => EvictionPolicy::Lru,
        other => panic!("driver: unknown eviction policy {other}"),
    }
}

/// bytes of every value name `value_name` can produce (except "other")
fn size_table() -> Value {
    let mut m = serde_json::Map::new();
    for n in VALUE_NAMES {
        let l = value_bytes(n).len();
        m.insert(n.to_string(), json!(l));
        if n != "bad" {
            if l > 0 {
                m.insert(format!("{n}-"), json!(l - 1));
            }
            m.insert(format!("{n}+"), json!(l + 1));
        }
    }
    Value::Object(m)
}

fn strategy(name: &str) -> PromotionStrategy {
    match name {
        "after2" => PromotionStrategy::AfterNHits(2),
        "freq" => PromotionStrategy::FrequencyBased { threshold: 1.0 },
        "age" => PromotionStrategy::AgeBased { min_age: Duration::from_millis(1) },
        "manual" => PromotionStrategy::Manual,
        _ => PromotionStrategy::OnHit,
    }
}

struct Run {
    rt: tokio::runtime::Runtime,
    cache: MultiLayerCacheImpl<RibbitKey>,
    disk_dirs: Vec<Option<PathBuf>>, // per layer
    keys: Vec<String>,
    nlayers: usize,
    _dir: tempfile::TempDir,
}

fn scratch() -> PathBuf {
    let base = if Path::new("/dev/shm").is_dir() { PathBuf::from("/dev/shm") } else { std::env::temp_dir() };
    // created once in main, removed at exit (a thread abandoned after a hang must not bring it back)
    base.join(format!("drv_multilayer.{}", std::process::id()))
}

fn new_run(prog: &Value) -> Run {
    let rt = rt();
    let dir = tempfile::tempdir_in(scratch()).expect("tempdir");
    let kinds: Vec<String> = prog["kinds"].as_array().unwrap().iter().map(|x| x.as_str().unwrap().to_string()).collect();
    let caps: Vec<u64> = prog["caps"].as_array().unwrap().iter().map(|x| x.as_u64().unwrap()).collect();
    let mut cfg = MultiLayerCacheConfig::new().with_promotion_strategy(strategy(prog["strategy"].as_str().unwrap_or("on_hit")));
    let mut disk_dirs = vec![None; kinds.len()];
    for (i, k) in kinds.iter().enumerate() {
        if k == "disk" {
            let d = dir.path().join(format!("layer{i}"));
            disk_dirs[i] = Some(d.clone());
            cfg = cfg.add_disk_layer(DiskCacheConfig::new(d).with_max_files(caps[i] as usize).with_default_ttl(LONG_TTL));
        } else {
            let mut m = MemoryCacheConfig::new()
                .with_max_entries(caps[i] as usize)
                .with_default_ttl(LONG_TTL)
                .with_eviction_policy(policy(prog["policies"][i].as_str().unwrap_or("lru")));
            // 0 = no byte budget given by the program: the library's default (100 MB) is never reached here
            if let Some(b) = prog["budgets"][i].as_u64().filter(|b| *b > 0) {
                m = m.with_max_memory(b as usize);
            }
            cfg = cfg.add_memory_layer(m);
        }
    }
    // the constructors spawn background tasks: they need a runtime context (the tasks are never polled:
    // every call below is a block_on of a future that is ready at its first poll)
    let mut cache = {
        let _g = rt.enter();
        MultiLayerCacheImpl::<RibbitKey>::new(cfg).expect("MultiLayerCacheImpl::new")
    };
    if prog["hooks"].as_bool().unwrap_or(false) {
        // the library's own hook implementations
        if prog["hookimpl"].as_str() == Some("ngdp") {
            cache.set_validation_hooks(Some(Arc::new(NgdpValidationHooks::new())));
        } else {
            cache.set_validation_hooks(Some(Arc::new(Md5ValidationHooks::new())));
        }
    }
    let keys = prog["keys"].as_array().unwrap().iter().map(|x| x.as_str().unwrap().to_string()).collect();
    Run { rt, cache, disk_dirs, keys, nlayers: kinds.len(), _dir: dir }
}

fn find_file(dir: &Path, name: &str) -> Option<PathBuf> {
    let rd = std::fs::read_dir(dir).ok()?;
    for e in rd.flatten() {
        let p = e.path();
        if p.is_dir() {
            if let Some(f) = find_file(&p, name) {
                return Some(f);
            }
        } else if p.file_name().and_then(|n| n.to_str()) == Some(name) {
            return Some(p);
        }
    }
    None
}

fn opt_name(r: Result<Option<Bytes>, cascette_cache::error::CacheError>) -> String {
    match r {
        Ok(Some(b)) => value_name(&b),
        Ok(None) => "none".into(),
        Err(_) => "err".into(),
    }
}
fn unit_name(r: Result<(), cascette_cache::error::CacheError>) -> String {
    if r.is_ok() { "ok".into() } else { "err".into() }
}
fn bool_name(r: Result<bool, cascette_cache::error::CacheError>) -> String {
    match r {
        Ok(true) => "true".into(),
        Ok(false) => "false".into(),
        Err(_) => "err".into(),
    }
}
fn s<'a>(op: &'a Value, f: &str) -> &'a str {
    op[f].as_str().unwrap_or_else(|| panic!("driver: field {f} missing in {op}"))
}
fn n(op: &Value, f: &str) -> usize {
    op[f].as_u64().unwrap_or_else(|| panic!("driver: field {f} missing in {op}")) as usize
}

/// Execute one operation; returns (res, rs).
fn exec(run: &Run, op: &Value) -> (String, Option<Vec<String>>) {
    let c = &run.cache;
    let rt = &run.rt;
    let name = s(op, "op");
    let res = match name {
        "put" => unit_name(rt.block_on(c.put(key(s(op, "k")), Bytes::from(value_bytes(s(op, "v")))))),
        "put_ttl" => {
            let ttl = if s(op, "ttl") == "short" { SHORT_TTL } else { LONG_TTL };
            unit_name(rt.block_on(c.put_with_ttl(key(s(op, "k")), Bytes::from(value_bytes(s(op, "v"))), ttl)))
        }
        "put_layer" => unit_name(rt.block_on(c.put_to_layer(key(s(op, "k")), Bytes::from(value_bytes(s(op, "v"))), n(op, "layer")))),
        "get" => opt_name(rt.block_on(c.get(&key(s(op, "k"))))),
        "get_layer" => opt_name(rt.block_on(c.get_from_layer(&key(s(op, "k")), n(op, "layer")))),
        "promote" => bool_name(rt.block_on(c.promote(&key(s(op, "k")), n(op, "from"), n(op, "to")))),
        "remove" => bool_name(rt.block_on(c.remove(&key(s(op, "k"))))),
        "clear" => unit_name(rt.block_on(c.clear())),
        "batch_get" => {
            let ks: Vec<RibbitKey> = op["ks"].as_array().unwrap().iter().map(|k| key(k.as_str().unwrap())).collect();
            return match rt.block_on(c.batch_get(&ks)) {
                Ok(v) => ("ok".into(), Some(v.into_iter().map(|o| o.map_or("none".to_string(), |b| value_name(&b))).collect())),
                Err(_) => ("err".into(), Some(vec![])),
            };
        }
        "batch_put" => {
            let items: Vec<(RibbitKey, Bytes)> = op["items"]
                .as_array()
                .unwrap()
                .iter()
                .map(|it| (key(s(it, "k")), Bytes::from(value_bytes(s(it, "v")))))
                .collect();
            unit_name(rt.block_on(c.batch_put(items)))
        }
        "put_val" => match rt.block_on(c.put_with_validation(key(s(op, "k")), ckey(s(op, "ck")), Bytes::from(value_bytes(s(op, "v"))))) {
            Ok(_) => "ok".into(),
            Err(_) => "err".into(),
        },
        "get_val" => {
            let ck = s(op, "ck");
            let ck = if ck == "none" { None } else { Some(ckey(ck)) };
            match rt.block_on(c.get_with_validation(&key(s(op, "k")), ck)) {
                Ok(Some(b)) => value_name(b.as_bytes()),
                Ok(None) => "none".into(),
                Err(_) => "err".into(),
            }
        }
        // environment: damage the disk layer's file of the key; "now" = what the file holds afterwards
        "corrupt" | "delete" | "trunc0" | "trunc1" | "extend1" => {
            // the disk layer named by "layer" (0-based), else the first disk layer
            let dir = match op.get("layer").and_then(Value::as_u64) {
                Some(i) => run.disk_dirs.get(i as usize).cloned().flatten(),
                None => run.disk_dirs.iter().flatten().next().cloned(),
            };
            let f = dir.as_ref().and_then(|d| find_file(d, key(s(op, "k")).as_cache_key()));
            return match f {
                Some(p) => {
                    let old = std::fs::read(&p).expect("driver: read file");
                    let new = match name {
                        "corrupt" => Some(value_bytes("bad")),
                        "delete" => None,
                        "trunc0" => Some(vec![]),
                        "trunc1" => Some(old[..old.len().saturating_sub(1)].to_vec()),
                        _ => Some([&old[..], b"+"].concat()),
                    };
                    match &new {
                        Some(b) => std::fs::write(&p, b).expect("driver: rewrite file"),
                        None => std::fs::remove_file(&p).expect("driver: delete file"),
                    }
                    let now = match std::fs::read(&p) {
                        Ok(b) => value_name(&b),
                        Err(_) => "none".to_string(),
                    };
                    ("true".into(), Some(vec![now]))
                }
                None => ("false".into(), Some(vec!["none".to_string()])),
            };
        }
        "tick" => {
            std::thread::sleep(TICK);
            "ok".into()
        }
        other => panic!("driver: unknown op {other}"),
    };
    (res, None)
}

fn observe(run: &Run, seq: u64) -> Value {
    let mut layers = vec![];
    let nk = run.keys.len();
    for i in 0..run.nlayers {
        let mut m = serde_json::Map::new();
        for j in 0..nk {
            // rotate the probe order so that the recency order left behind varies
            let k = &run.keys[(j + seq as usize) % nk];
            let r = opt_name(run.rt.block_on(run.cache.get_from_layer(&key(k), i)));
            m.insert(k.clone(), json!(if r == "err" { "none".to_string() } else { r }));
        }
        layers.push(Value::Object(m));
    }
    Value::Array(layers)
}

fn header(prog: &Value) -> Value {
    let nl = prog["kinds"].as_array().unwrap().len();
    let budgets: Vec<u64> = (0..nl).map(|i| prog["budgets"][i].as_u64().unwrap_or(0)).collect();
    let policies: Vec<&str> = (0..nl).map(|i| prog["policies"][i].as_str().unwrap_or("lru")).collect();
    json!({"op": "new", "kinds": prog["kinds"], "caps": prog["caps"], "hooks": prog["hooks"].as_bool().unwrap_or(false),
           "budgets": budgets, "policies": policies, "sizes": size_table(),
           "keys": prog["keys"], "strategy": prog["strategy"].as_str().unwrap_or("on_hit"),
           "hookimpl": prog["hookimpl"].as_str().unwrap_or("md5")})
}

fn is_fault(op: &Value) -> bool {
    matches!(op["op"].as_str(), Some("corrupt" | "delete" | "trunc0" | "trunc1" | "extend1"))
}

fn step(run: &Run, op: &Value, seq: u64, out: &Emit) -> bool {
    out.begin(op);
    let mut ev = op.clone();
    ev["seq"] = json!(seq);
    match guarded(|| exec(run, op)) {
        Ok((res, rs)) => {
            ev["res"] = json!(res);
            if let Some(rs) = rs {
                if is_fault(op) {
                    ev["now"] = json!(rs[0]);
                } else {
                    ev["rs"] = json!(rs);
                }
            }
        }
        Err(m) => {
            ev["res"] = json!("panic");
            ev["msg"] = json!(m.chars().take(160).collect::<String>());
            if op["op"] == "batch_get" {
                ev["rs"] = json!([]);
            }
        }
    }
    if !is_fault(op) {
        match guarded(|| observe(run, seq)) {
            Ok(o) => ev["obs"] = o,
            Err(m) => {
                ev["res"] = json!("panic");
                ev["msg"] = json!(format!("probe: {}", m.chars().take(140).collect::<String>()));
                out.ev(ev);
                return false;
            }
        }
    }
    out.ev(ev);
    true
}

fn run_program(prog: &Value, out: &Emit) {
    out.begin(&json!({"op": "new"}));
    if prog.get("random").is_some() {
        return run_random(prog, out);
    }
    let run = new_run(prog);
    out.ev(header(prog));
    let mut seq = 0u64;
    for op in prog["ops"].as_array().unwrap() {
        seq += 1;
        if !step(&run, op, seq, out) {
            return;
        }
    }
}

// ---- seeded random long histories (generated online so that, while F12a is a listed finding, a
// ---- get that the current code cannot survive is issued through get_with_validation(None) instead)
fn run_random(prog: &Value, out: &Emit) {
    let mut rng = Rng::new(prog["random"].as_u64().unwrap());
    let len = prog["len"].as_u64().unwrap() as usize;
    let avoid = prog["avoid_hang"].as_bool().unwrap_or(false);
    let layout = rng.below(5);
    let c0 = 1 + rng.below(3);
    let (kinds, caps): (Vec<&str>, Vec<u64>) = match layout {
        0 | 1 => (vec!["mem", "disk"], vec![c0, 1000]),
        2 => (vec!["mem", "mem", "disk"], vec![c0, 1 + rng.below(3), 1000]),
        3 => (vec!["mem", "disk", "disk"], vec![c0, 1000, 1000]),
        _ => (vec!["mem", "mem"], vec![c0, 2 + rng.below(2)]),
    };
    let nk = 2 + rng.below(3) as usize;
    // now and then key names that end in the extension the disk layer gives its temporary files
    let pool = if rng.chance(1, 4) { ["a.tmp", "b", "c.TMP", "d"] } else { ["a", "b", "c", "d"] };
    let keys: Vec<String> = pool[..nk].iter().map(|x| x.to_string()).collect();
    // memory layers: any eviction policy, sometimes a byte budget of two or three values
    let budget = if rng.chance(1, 3) { *rng.pick(&[40u64, 60]) } else { 0 };
    let policies: Vec<&str> = kinds.iter().map(|k| if *k == "mem" { *rng.pick(&["lru", "lfu", "fifo", "random", "ttl"]) } else { "lru" }).collect();
    let budgets: Vec<u64> = kinds.iter().map(|k| if *k == "mem" { budget } else { 0 }).collect();
    let vals: &[&str] = if budget > 0 { &["v1", "v2", "v3", "e", "big"] } else { &["v1", "v2", "v3", "e"] };
    let strat = *rng.pick(&["on_hit", "after2", "freq", "age", "manual"]);
    let hookimpl = *rng.pick(&["md5", "ngdp"]);
    let cfg = json!({"kinds": kinds, "caps": caps, "budgets": budgets, "policies": policies, "hooks": rng.chance(1, 2),
                     "keys": keys, "strategy": strat, "hookimpl": hookimpl});
    let run = new_run(&cfg);
    out.ev(header(&cfg));
    let nl = kinds.len() as u64;
    let mut tracked: std::collections::HashSet<String> = Default::default(); // mirrors the tracker for --avoid-hang only
    let mut ticks = 0;
    for seq in 1..=len as u64 {
        let k = rng.pick(&keys).clone();
        let v = *rng.pick(vals);
        // layer index, sometimes one past the last layer
        let lay = |rng: &mut Rng, den: u64| rng.below(nl) + if rng.chance(1, den) && rng.chance(1, 2) { nl - rng.below(nl) } else { 0 };
        let (l1, l2) = (lay(&mut rng, 6), lay(&mut rng, 5));
        let mut op = match rng.below(100) {
            0..=17 => json!({"op": "put", "k": k, "v": v}),
            18..=21 => json!({"op": "put_ttl", "k": k, "v": v, "ttl": if rng.chance(1, 3) && ticks < 2 { "short" } else { "long" }}),
            22..=35 => json!({"op": "put_layer", "k": k, "v": v, "layer": l1.min(nl)}),
            36..=55 => json!({"op": "get", "k": k}),
            56..=60 => json!({"op": "get_layer", "k": k, "layer": l2.min(nl)}),
            61..=66 => json!({"op": "promote", "k": k, "from": l1.min(nl), "to": l2.min(nl)}),
            67..=72 => json!({"op": "remove", "k": k}),
            73 => json!({"op": "clear"}),
            74..=78 => {
                let m = rng.below(4) as usize;
                json!({"op": "batch_get", "ks": (0..m).map(|_| rng.pick(&keys).clone()).collect::<Vec<_>>()})
            }
            79..=82 => {
                let m = rng.below(4) as usize;
                json!({"op": "batch_put", "items": (0..m).map(|_| json!({"k": rng.pick(&keys).clone(), "v": *rng.pick(vals)})).collect::<Vec<_>>()})
            }
            83..=87 => json!({"op": "put_val", "k": k, "v": v, "ck": if rng.chance(2, 3) { v } else { *rng.pick(vals) }}),
            88..=93 => json!({"op": "get_val", "k": k, "ck": if rng.chance(1, 4) { "none" } else { *rng.pick(vals) }}),
            94..=98 => {
                let f = *rng.pick(&["corrupt", "delete", "delete", "trunc0", "trunc0", "trunc1", "extend1"]);
                let disks: Vec<u64> = (0..nl).filter(|i| kinds[*i as usize] == "disk").collect();
                if disks.len() > 1 { json!({"op": f, "k": k, "layer": *rng.pick(&disks)}) } else { json!({"op": f, "k": k}) }
            }
            _ => {
                if ticks < 2 {
                    ticks += 1;
                    json!({"op": "tick"})
                } else {
                    json!({"op": "get", "k": k})
                }
            }
        };
        if avoid && op["op"] == "get" && tracked.contains(&k) {
            // would the first layer answer?  (a probe through the public API, like the ones after each call)
            let top = opt_name(run.rt.block_on(run.cache.get_from_layer(&key(&k), 0)));
            if top == "none" || top == "err" {
                op = json!({"op": "get_val", "k": k, "ck": "none"});
            }
        }
        if !step(&run, &op, seq, out) {
            return;
        }
        // tracker mirror (only steers generation)
        match op["op"].as_str().unwrap() {
            "put" | "put_ttl" | "put_val" | "get" | "get_val" => {
                tracked.insert(k.clone());
            }
            "batch_put" => {
                for it in op["items"].as_array().unwrap() {
                    tracked.insert(it["k"].as_str().unwrap().to_string());
                }
            }
            "batch_get" => {
                for it in op["ks"].as_array().unwrap() {
                    tracked.insert(it.as_str().unwrap().to_string());
                }
            }
            _ => {}
        }
    }
}

/// Run the programs under the shared watchdog.  A hang costs the whole timeout and leaves a blocked thread
/// behind, so after `max_hangs` of them the remaining programs of this job are skipped (and counted): the
/// hangs already recorded are judged, the check does not wait hours for the same defect again.  The
/// programs are handed to run_with_watchdog a few at a time so that the budget is looked at often.
fn run_all(programs: Vec<Value>, out: &mut Out, timeout: Duration, max_hangs: u64) -> (u64, u64, u64) {
    const CHUNK: usize = 4;
    let (mut done, mut hangs) = (0u64, 0u64);
    let mut i = 0usize;
    while i < programs.len() {
        if hangs >= max_hangs {
            return (done, hangs, (programs.len() - i) as u64);
        }
        let end = (i + CHUNK).min(programs.len());
        let st = run_with_watchdog(programs[i..end].to_vec(), out, timeout, run_program);
        done += st.programs;
        hangs += st.hangs;
        i = end - st.skipped as usize; // run_with_watchdog itself gives up after MAX_ABANDONED hangs
    }
    (done, hangs, 0)
}

fn main() {
    quiet_panics();
    check_concretisation();
    std::fs::create_dir_all(scratch()).expect("create scratch directory");
    let args: Vec<String> = std::env::args().collect();
    let out_path = arg(&args, "--out").expect("--out <file>");
    let timeout = Duration::from_millis(arg_u64(&args, "--timeout-ms", 5000));
    let max_hangs = arg_u64(&args, "--max-hangs", 3);
    let mut programs = vec![];
    if let Some(p) = arg(&args, "--programs") {
        programs = read_programs(&p);
    }
    let nrand = arg_u64(&args, "--random", 0);
    if nrand > 0 {
        let mut rng = Rng::new(seed_from_env());
        let len = arg_u64(&args, "--len", 60);
        for _ in 0..nrand {
            programs.push(json!({"random": rng.next() >> 12, "len": len, "avoid_hang": has_flag(&args, "--avoid-hang")}));
        }
    }
    let jobs = (arg_u64(&args, "--jobs", 1) as usize).clamp(1, 64).min(programs.len().max(1));
    let per = programs.len().div_ceil(jobs).max(1);
    let mut handles = vec![];
    for (j, chunk) in programs.chunks(per).enumerate() {
        let chunk = chunk.to_vec();
        let part = format!("{out_path}.job{j}");
        let part2 = part.clone();
        handles.push((part, std::thread::spawn(move || {
            let mut out = Out::to_path(Path::new(&part2));
            let r = run_all(chunk, &mut out, timeout, max_hangs);
            out.flush();
            (r, out.events)
        })));
    }
    let (mut done, mut hangs, mut skipped, mut events) = (0u64, 0u64, 0u64, 0u64);
    let mut w = std::io::BufWriter::new(std::fs::File::create(&out_path).expect("create trace file"));
    for (part, h) in handles {
        let ((d, hg, sk), ev) = h.join().expect("job thread");
        done += d;
        hangs += hg;
        skipped += sk;
        events += ev;
        let mut f = std::fs::File::open(&part).expect("open part");
        std::io::copy(&mut f, &mut w).expect("concatenate");
        let _ = std::fs::remove_file(&part);
    }
    drop(w);
    let _ = std::fs::remove_dir_all(scratch());
    eprintln!("{}", json!({"programs": done, "events": events, "hangs": hangs, "skipped": skipped}));
    // threads blocked inside the code under test cannot be joined
    std::process::exit(0);
}
